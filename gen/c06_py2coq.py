#!/usr/bin/env python3
"""Fail-closed translator for the list / loop / dispatch / threshold logic of quara's composition (property C06):
Python `ast` -> Gallina over the vocabulary of coq/theories/Model/C06_PySym.v.      usage: c06_py2coq.py <repo> <out.v>

Translated on every run from the CURRENT source of quara/objects/operators.py:
  _to_list, compose_qoperations                      (argument flattening, "at least two" error, right-to-left fold)
  _compose_qoperations                               (composite-system guard, the 36-entry type dispatch, every inline branch body)
  _compose_qoperations_MProcess_MProcess             (loop order, product order, shape concatenation)
  _compose_qoperations_Povm_MProcess                 (loop order, hs.T @ vec)
  _compose_qoperations_MProcess_State_for_States     (probabilities, eps_zero cut, renormalisation, post states, weights)
  _compose_qoperations_MProcess_State                (non-sampling branch)
  _compose_qoperations_MProcess_StateEnsemble        (zero distribution, loop over branches, eps = max, shape; non-sampling branch)
  _compose_qoperations_Povm_StateEnsemble            (threshold, weights, hstack accumulation, shape)
coq/gen/C06_Equiv.v then re-proves that the regenerated definitions agree with the hand-written model Model/C06_Compose.v.

Numerical kernels are NOT translated: matrices / vectors / scalars are abstract types and `a @ b`, `.T`, `.conjugate()`, `x[0]`, `/`, `*`, `<=`, `<`,
`== 0`, np.sum, max, np.vdot are operation parameters (table OPS below = part of the trusted base, as is the attribute table CLASSES and the
table ABSTRACT of source expressions that are replaced by a parameter).

Subset (anything else raises Unsupported -> the tie is reported broken, never skipped):
  statements  docstring; `x = e`; `a, b = f(...)` (call of a translated function); `l.append(e)`; `l.extend(e)`; `for pat in <list> | zip(l, l') |
              enumerate(l) | reversed(l)`; `if` / `elif` / `else` (a branch may end in return / raise); the `type(elem1) == A and type(elem2) == B`
              dispatch chain on dynamically typed operands; `raise Name(...)`; `assert e`; `return e`; an `if <opaque test>:` branch listed in OPAQUE_IF
              is not entered (its result is ROpaque) provided every path through it ends in return.
  expressions names, int / float constants 0, 0.0, 1.0, True / False, attribute reads per CLASSES, `x[0]`, `l[i]`, `l[-1]`, `l[:-1]`, len, `+` on lists /
              tuples, tuple(list(..)), list(..), `[c] * n`, comparisons, and / or / not (short circuit), `X not in {type(a), type(b)}`, `type(x) == list`,
              list comprehensions over one list, constructor calls, calls of the translated functions, the numpy calls of OPS.
Local variables whose first assignment is nested deeper than a later read are option-typed (reading an unbound one raises UnboundLocalError)."""
import ast, sys, os


class Unsupported(Exception):
    pass


def fail(node, msg):
    raise Unsupported("%s (line %s): %s" % (type(node).__name__, getattr(node, "lineno", "?"), msg))


# ---------------------------------------------------------------- trusted tables
COQT = {"M": "M", "V": "V", "S": "S", "B": "bool", "N": "nat", "Z": "Z", "obj": "(pobj M V S)", "res": "(pres M V S)", "dist": "(r_dist S)",
        "state": "(r_state V)", "gate": "(r_gate M)", "povm": "(r_povm V)", "mproc": "(r_mproc M S)", "ens": "(r_ens V S)", "ty": "pty"}
CLASSES = {   # class -> attribute -> (type, coq projection)
    "state": {"vec": ("V", "st_vec"), "composite_system": ("Z", "st_sys"), "is_physicality_required": ("B", "st_phys")},
    "gate": {"hs": ("M", "ga_hs"), "composite_system": ("Z", "ga_sys"), "is_physicality_required": ("B", "ga_phys")},
    "povm": {"vecs": ("L:V", "pv_vecs"), "composite_system": ("Z", "pv_sys"), "is_physicality_required": ("B", "pv_phys"),
             "nums_local_outcomes": ("L:N", "pv_nums_local_outcomes"), "num_outcomes": ("N", "pv_num_outcomes")},
    "mproc": {"hss": ("L:M", "mq_hss"), "shape": ("L:N", "mq_shape"), "eps_zero": ("S", "mq_eps_zero"), "mode_sampling": ("B", "mq_mode_sampling"),
              "composite_system": ("Z", "mq_sys"), "is_physicality_required": ("B", "mq_phys")},
    "ens": {"states": ("L:state", "es_states"), "prob_dist": ("dist", "es_prob_dist"), "eps_zero": ("S", "es_eps_zero")},
    "dist": {"ps": ("L:S", "di_ps"), "shape": ("L:N", "di_shape"), "is_zero_dist": ("B", "di_is_zero_dist")},
}
PY2CLS = {"State": "state", "Gate": "gate", "Povm": "povm", "MProcess": "mproc", "StateEnsemble": "ens", "MultinomialDistribution": "dist"}
CLS2CON = {"state": "PState", "gate": "PGate", "povm": "PPovm", "mproc": "PMProcess", "ens": "PStateEnsemble", "dist": "PMultinomialDistribution"}
CLS2TY = {"state": "TState", "gate": "TGate", "povm": "TPovm", "mproc": "TMProcess", "ens": "TStateEnsemble", "dist": "TMultinomialDistribution"}
# source expressions (exact unparsed text) replaced by a parameter of the generated section
ABSTRACT = {
    "np.sqrt(elem2.composite_system.dim)": ("(cs_sqrt_dim (st_sys elem2))", "S"),
    "np.sqrt(self.dim)": ("(cs_sqrt_dim (mq_sys self))", "S"),
    "Settings.get_atol()": ("s_atol", "S"),                  # MProcess.dim = composite_system.dim
    "elem1.composite_system.is_orthonormal_hermitian_0thprop_identity": ("(cs_ortho (mq_sys elem1))", "B"),
    "convert_vec(I_vec_cb, elem2.composite_system.comp_basis(), elem2.composite_system.basis())": ("(cs_ivec (st_sys elem2))", "V"),
    "np.eye(elem1.composite_system.dim, dtype=np.float64).flatten()": ("tt", "unit"),
    "elem2.states[0].generate_zero_obj()": ("(zero_state_of v_zero (es_states elem2))", "pyres:state"),
}
OPAQUE_IF = {"elem1.mode_sampling": "mode_sampling"}         # test text -> ROpaque label
FUNCS = [  # python name, coq name, parameter types, return type
    ("_to_list", "gen_to_list", [("elements", "L:arg")], "L:obj"),
    ("_compose_qoperations_MProcess_MProcess", "gen_MProcess_MProcess", [("elem1", "mproc"), ("elem2", "mproc")], "res"),
    ("_compose_qoperations_Povm_MProcess", "gen_Povm_MProcess", [("elem1", "povm"), ("elem2", "mproc")], "res"),
    ("_compose_qoperations_MProcess_State_for_States", "gen_MProcess_State_for_States", [("elem1", "mproc"), ("elem2", "state"), ("weight", "S")], "T:L:state,L:S"),
    ("_compose_qoperations_MProcess_State", "gen_MProcess_State", [("elem1", "mproc"), ("elem2", "state")], "res"),
    ("_compose_qoperations_MProcess_StateEnsemble", "gen_MProcess_StateEnsemble", [("elem1", "mproc"), ("elem2", "ens")], "res"),
    ("_compose_qoperations_Povm_StateEnsemble", "gen_Povm_StateEnsemble", [("elem1", "povm"), ("elem2", "ens")], "res"),
    ("_compose_qoperations", "gen_compose2", [("elem1", "obj"), ("elem2", "obj")], "res"),
    ("compose_qoperations", "gen_compose_qoperations", [("elements", "L:arg")], "obj"),
    ("to_povm", "gen_to_povm", [("self", "mproc")], "res", ("quara/objects/mprocess.py", "MProcess")),      # MProcess.to_povm
    ("truncate_and_normalize", "gen_truncate_and_normalize", [("matrix", "L:S"), ("eps", "O:S")], "L:S", ("quara/utils/matrix_util.py", None)),   # on a 1-d array
]
# keyword arguments of a constructor call that only copy the same-named configuration attribute of self (no influence on the translated slice)
PASS_THROUGH = {"is_estimation_object", "on_para_eq_constraint", "on_algo_eq_constraint", "on_algo_ineq_constraint", "mode_proj_order", "eps_proj_physical",
                "eps_truncate_imaginary_part"}
CALL_AS = {("compose_qoperations", "_compose_qoperations"): "k_compose"}   # the fold step = _compose_qoperations + the constructors it calls
DEFAULTS = {("_compose_qoperations_MProcess_State_for_States", 2): "s_one"}
TRANSLATED = {f[0]: f for f in FUNCS}
RESERVED = {"length", "rev", "map", "repeat", "zip", "fst", "snd", "nth", "app", "negb", "existsb", "removelast", "pbind", "pfor", "pget", "Some", "None",
            "nil", "cons", "M", "V", "S", "tt"}


def ct(t):
    if t.startswith("L:"):
        return "(list %s)" % ct(t[2:])
    if t.startswith("O:"):
        return "(option %s)" % ct(t[2:])
    if t.startswith("T:"):
        a, b = split2(t[2:])
        return "(%s * %s)" % (ct(a), ct(b))
    if t == "arg":
        return "(pobj M V S + list (pobj M V S))"
    if t == "unit":
        return "unit"
    if t not in COQT:
        raise Unsupported("type " + t)
    return COQT[t]


def split2(s):
    depth = 0
    for i, ch in enumerate(s):
        if ch == "," and depth == 0:
            return s[:i], s[i + 1:]
    raise Unsupported("tuple type " + s)


def assigned(stmts):
    """names bound by assignment / append / extend / for targets anywhere in the statements"""
    out = []

    def tgt(t):
        if isinstance(t, ast.Name):
            out.append(t.id)
        elif isinstance(t, ast.Tuple):
            for e in t.elts:
                tgt(e)
    for s in stmts:
        for n in ast.walk(s):
            if isinstance(n, ast.Assign):
                for t in n.targets:
                    tgt(t)
            elif isinstance(n, ast.For):
                tgt(n.target)
            elif isinstance(n, ast.Expr) and isinstance(n.value, ast.Call) and isinstance(n.value.func, ast.Attribute) \
                    and n.value.func.attr in ("append", "extend") and isinstance(n.value.func.value, ast.Name):
                out.append(n.value.func.value.id)
    return list(dict.fromkeys(out))


def names_read(nodes):
    out = set()
    for s in nodes:
        for n in ast.walk(s):
            if isinstance(n, ast.Name) and isinstance(n.ctx, ast.Load):
                out.add(n.id)
            if isinstance(n, ast.Expr) and isinstance(n.value, ast.Call) and isinstance(n.value.func, ast.Attribute) and isinstance(n.value.func.value, ast.Name):
                out.add(n.value.func.value.id)
    return out


def live_in(stmts, defined=frozenset()):
    """names that may be READ in `stmts` before they are definitely assigned there (definite-assignment analysis, conservative)"""
    live = set(); defined = set(defined)

    def reads(node):
        return {n.id for n in ast.walk(node) if isinstance(n, ast.Name) and isinstance(n.ctx, ast.Load)}

    def targets(t):
        return {n.id for n in ast.walk(t) if isinstance(n, ast.Name)}
    for s in stmts:
        if isinstance(s, ast.Assign):
            live |= reads(s.value) - defined
            for t in s.targets:
                defined |= targets(t)
        elif isinstance(s, ast.For):
            live |= reads(s.iter) - defined
            live |= live_in(s.body, defined | targets(s.target))
        elif isinstance(s, ast.If):
            live |= reads(s.test) - defined
            live |= live_in(s.body, defined) | live_in(s.orelse, defined)
            defined |= (must_assign(s.body) & must_assign(s.orelse))
        elif isinstance(s, ast.Expr) and isinstance(s.value, ast.Call) and isinstance(s.value.func, ast.Attribute) and isinstance(s.value.func.value, ast.Name):
            live |= (reads(s.value) | {s.value.func.value.id}) - defined
        else:
            live |= reads(s) - defined
    return live


def must_assign(stmts):
    out = set()
    for s in stmts:
        if isinstance(s, ast.Assign):
            for t in s.targets:
                out |= {n.id for n in ast.walk(t) if isinstance(n, ast.Name)}
        elif isinstance(s, ast.If):
            out |= must_assign(s.body) & must_assign(s.orelse)
    return out


def terminates(stmts):
    if not stmts:
        return False
    s = stmts[-1]
    if isinstance(s, (ast.Return, ast.Raise)):
        return True
    if isinstance(s, ast.If):
        return terminates(s.body) and terminates(s.orelse)
    return False


class Fn:
    def __init__(self, fdef, spec):
        self.f = fdef
        self.pyname, self.coq, self.params, self.ret = spec[:4]
        self.n = 0
        bound = {n.id for n in ast.walk(fdef) if isinstance(n, ast.Name) and isinstance(n.ctx, ast.Store)} | {a.arg for a in fdef.args.args}
        for n in ast.walk(fdef):                # Python VARIABLES whose name would capture a Coq identifier used by the generated text
            if isinstance(n, ast.Name) and n.id in RESERVED and n.id in bound:
                n.id += "_py"

        def check(n):
            if isinstance(n, (ast.Try, ast.With, ast.Lambda, ast.ClassDef, ast.Global, ast.Nonlocal, ast.Yield, ast.Await, ast.While, ast.DictComp,
                              ast.SetComp, ast.GeneratorExp, ast.Delete, ast.AugAssign, ast.Break, ast.Continue)) or (isinstance(n, ast.FunctionDef) and n is not fdef):
                fail(n, "construct outside the subset")
            if isinstance(n, ast.If) and ast.unparse(n.test) in OPAQUE_IF:
                check(n.test)                  # the opaque branch itself is not entered (only required to end in return on every path)
                for c in n.orelse:
                    check(c)
                return
            for c in ast.iter_child_nodes(n):
                check(c)
        check(fdef)
        self.maybe = self.find_maybe()

    def fresh(self, b="t"):
        self.n += 1
        return "%s%d_" % (b, self.n)

    def find_maybe(self):
        """variables with a read that is not dominated by an assignment (an assignment in an enclosing block before the read, or in BOTH branches of an
        earlier if of an enclosing block): option-typed, reading them while unbound raises UnboundLocalError"""
        sites = {}            # name -> [(block path, line)]
        reads = []
        counter = [0]

        def sub(path):
            counter[0] += 1
            return path + (counter[0],)

        def site(name, path, line):
            sites.setdefault(name, []).append((path, line))

        def walk(stmts, path):
            for s in stmts:
                if isinstance(s, ast.Assign):
                    for n in ast.walk(s.value):
                        if isinstance(n, ast.Name):
                            reads.append((n.id, path, s.lineno))
                    for t in s.targets:
                        for n in ast.walk(t):
                            if isinstance(n, ast.Name):
                                site(n.id, path, s.lineno)
                elif isinstance(s, ast.For):
                    for n in ast.walk(s.iter):
                        if isinstance(n, ast.Name):
                            reads.append((n.id, path, s.lineno))
                    p2 = sub(path)
                    for n in ast.walk(s.target):
                        if isinstance(n, ast.Name):
                            site(n.id, p2, s.lineno)
                    walk(s.body, p2)
                elif isinstance(s, ast.If):
                    for n in ast.walk(s.test):
                        if isinstance(n, ast.Name):
                            reads.append((n.id, path, s.lineno))
                    walk(s.body, sub(path))
                    walk(s.orelse, sub(path))
                    for name in must_assign(s.body) & must_assign(s.orelse):
                        site(name, path, s.end_lineno)
                else:
                    for n in ast.walk(s):
                        if isinstance(n, ast.Name) and isinstance(n.ctx, ast.Load):
                            reads.append((n.id, path, s.lineno))
        walk(self.f.body, ())
        params = {p for p, _ in self.params}
        out = set()
        for name, path, line in reads:
            if name in sites and name not in params:
                if not any(path[:len(sp)] == sp and sl < line for sp, sl in sites[name]) and any(sl < line for _, sl in sites[name]):
                    out.add(name)
        return out

    # ------------------------------------------------------------------ expressions: returns (coq, type, prebindings [(var, pyres-term)])
    def expr(self, e, env):
        src = ast.unparse(e)
        if src in ABSTRACT:
            c, t = ABSTRACT[src]
            if t.startswith("pyres:"):
                v = self.fresh()
                return v, t[6:], [(v, c)]
            return c, t, []
        if isinstance(e, ast.Constant):
            if e.value is True or e.value is False:
                return ("true" if e.value else "false"), "B", []
            if type(e.value) is int and e.value == 0:
                return "0%nat", "N0", []          # the literal 0: a nat or the scalar zero, decided by the context
            if type(e.value) is int:
                return "%d%%nat" % e.value, "N", []
            if type(e.value) is float and e.value in (0.0, 1.0):
                return ("s_zero" if e.value == 0.0 else "s_one"), "S", []
            fail(e, "constant %r" % (e.value,))
        if isinstance(e, ast.Name):
            if e.id not in env:
                fail(e, "unknown variable " + e.id)
            t = env[e.id]
            if e.id in self.maybe:
                v = self.fresh()
                return v, t, [(v, "(pget %s)" % e.id)]
            return e.id, t, []
        if isinstance(e, ast.Attribute):
            if isinstance(e.value, ast.Name) and env.get(e.value.id) == "obj":
                table = {"composite_system": ("Z", "obj_composite_system"), "is_physicality_required": ("B", "obj_is_physicality_required"), "ps": ("L:S", "obj_ps")}
                if e.attr not in table:
                    fail(e, "attribute %s of a dynamically typed operand" % e.attr)
                t, f = table[e.attr]
                v = self.fresh()
                return v, t, [(v, "(%s %s)" % (f, e.value.id))]
            b, tb, pre = self.expr(e.value, env)
            if tb in CLASSES and e.attr in CLASSES[tb]:
                t, proj = CLASSES[tb][e.attr]
                return "(%s %s)" % (proj, b), t, pre
            if tb == "V" and e.attr == "shape":
                return "tt", "unit", pre
            if tb == "V" and e.attr == "dtype":
                return "tt", "unit", pre
            if tb == "M" and e.attr == "T":
                return "(m_transpose %s)" % b, "M", pre
            if tb == "V" and e.attr == "real":
                return "(v_real %s)" % b, "V", pre
            if tb == "L:S" and e.attr == "shape":
                return "[List.length %s]" % b, "L:N", pre
            fail(e, "attribute %s of %s" % (e.attr, tb))
        if isinstance(e, ast.BinOp):
            a, ta, pa = self.expr(e.left, env); b, tb, pb = self.expr(e.right, env)
            pre = pa + pb
            if isinstance(e.op, ast.MatMult):
                if (ta, tb) == ("M", "M"):
                    return "(m_matmul %s %s)" % (a, b), "M", pre
                if (ta, tb) == ("M", "V"):
                    return "(m_matvec %s %s)" % (a, b), "V", pre
                if (ta, tb) == ("V", "M"):
                    return "(m_vecmat %s %s)" % (a, b), "V", pre
                fail(e, "@ on %s, %s" % (ta, tb))
            if isinstance(e.op, ast.Add):
                if ta == tb and ta.startswith("L:"):
                    return "(%s ++ %s)" % (a, b), ta, pre
                fail(e, "+ on %s, %s" % (ta, tb))
            if isinstance(e.op, ast.Mult):
                if (ta, tb) == ("S", "S"):
                    return "(s_mul %s %s)" % (a, b), "S", pre
                if (ta, tb) == ("N", "N"):
                    return "(Nat.mul %s %s)" % (a, b), "N", pre
                if (ta, tb) == ("S", "V"):
                    return "(v_scale %s %s)" % (a, b), "V", pre
                if (ta, tb) == ("S", "L:S"):
                    return "(map (s_mul %s) %s)" % (a, b), "L:S", pre
                if ta == "L:S" and tb == "N" and isinstance(e.left, ast.List) and len(e.left.elts) == 1:
                    return "(repeat %s %s)" % (self.scal(e.left.elts[0], env), b), "L:S", pre
                if ta == "L:N0" and tb == "N":
                    return "(repeat s_zero %s)" % b, "L:S", pre
                fail(e, "* on %s, %s" % (ta, tb))
            if isinstance(e.op, ast.Div):
                if (ta, tb) == ("L:S", "S"):
                    return "(map (fun p_ => s_div p_ %s) %s)" % (b, a), "L:S", pre
                if (ta, tb) == ("V", "S"):
                    return "(v_div %s %s)" % (a, b), "V", pre
                fail(e, "/ on %s, %s" % (ta, tb))
            fail(e, "operator")
        if isinstance(e, ast.List):
            if not e.elts:
                return "[]", "L:?", []
            parts = [self.expr(x, env) for x in e.elts]
            t0 = parts[0][1]
            if any(p[1] != t0 for p in parts):
                fail(e, "heterogeneous list")
            return "[%s]" % "; ".join(p[0] for p in parts), "L:" + t0, sum((p[2] for p in parts), [])
        if isinstance(e, ast.Subscript):
            b, tb, pre = self.expr(e.value, env)
            if tb == "V" and isinstance(e.slice, ast.Constant) and e.slice.value == 0:
                return "(v_first %s)" % b, "S", pre
            if tb == "M" and isinstance(e.slice, ast.Constant) and e.slice.value == 0:
                return "(m_row0 %s)" % b, "V", pre
            if tb == "dist":          # MultinomialDistribution.__getitem__(int): the model of C16 (plain sequence access, IndexError outside)
                i, ti, pi = self.expr(e.slice, env)
                if ti != "N":
                    fail(e, "index type " + ti)
                v = self.fresh()
                return v, "S", pre + pi + [(v, "(dist_getitem %s %s)" % (b, i))]
            if tb.startswith("L:") and isinstance(e.slice, ast.UnaryOp) and isinstance(e.slice.op, ast.USub) and ast.unparse(e.slice.operand) == "1":
                v = self.fresh()
                return v, tb[2:], pre + [(v, "(list_last %s)" % b)]
            if tb.startswith("L:") and isinstance(e.slice, ast.Slice) and e.slice.lower is None and e.slice.step is None and ast.unparse(e.slice.upper) == "-1":
                return "(removelast %s)" % b, tb, pre
            fail(e, "subscript of %s" % tb)
        if isinstance(e, ast.Compare) and len(e.ops) == 1:
            op = e.ops[0]; l, r = e.left, e.comparators[0]
            if isinstance(op, ast.NotIn) and isinstance(r, ast.Set) and isinstance(l, ast.Name) and l.id in PY2CLS:
                tys = []
                for x in r.elts:
                    if not (isinstance(x, ast.Call) and ast.unparse(x.func) == "type" and isinstance(x.args[0], ast.Name) and env.get(x.args[0].id) == "obj"):
                        fail(e, "set element")
                    tys.append("ty_of %s" % x.args[0].id)
                return "(negb (existsb (pty_eqb %s) [%s]))" % (CLS2TY[PY2CLS[l.id]], "; ".join(tys)), "B", []
            if isinstance(l, ast.Call) and ast.unparse(l.func) == "type" and isinstance(op, ast.Eq) and ast.unparse(r) == "list" and env.get(ast.unparse(l.args[0])) == "arg":
                return "(arg_is_list %s)" % ast.unparse(l.args[0]), "B", []
            a, ta, pa = self.expr(l, env); b, tb, pb = self.expr(r, env)
            pre = pa + pb
            if ta == "B" and isinstance(op, ast.Eq) and isinstance(r, ast.Constant) and r.value is True:
                return a, "B", pre
            if ta == "Z" and tb == "Z" and isinstance(op, (ast.Eq, ast.NotEq)):
                c = "(Z.eqb %s %s)" % (a, b)
                return (c if isinstance(op, ast.Eq) else "(negb %s)" % c), "B", pre
            if ta == "N" and tb in ("N", "N0") and isinstance(op, (ast.Eq, ast.Lt, ast.GtE)):
                f = {"Eq": "Nat.eqb %s %s", "Lt": "Nat.ltb %s %s", "GtE": "Nat.leb %s %s"}[type(op).__name__]
                return "(%s)" % (f % ((b, a) if isinstance(op, ast.GtE) else (a, b))), "B", pre
            if ta == "S" and tb == "N0" and isinstance(op, (ast.Eq, ast.NotEq)):
                c = "(s_eq0 %s)" % a
                return (c if isinstance(op, ast.Eq) else "(negb %s)" % c), "B", pre
            if ta == "S" and tb == "S" and isinstance(op, (ast.LtE, ast.Lt)):
                return "(%s %s %s)" % ("s_leb" if isinstance(op, ast.LtE) else "s_ltb", a, b), "B", pre
            fail(e, "comparison %s on %s, %s" % (type(op).__name__, ta, tb))
        if isinstance(e, ast.BoolOp):
            parts = [self.expr(v, env) for v in e.values]
            if any(p[1] != "B" for p in parts):
                fail(e, "and/or on non-booleans")
            # short circuit: later operands (with their possibly raising reads) are evaluated only when needed
            acc, pre = parts[-1][0], parts[-1][2]
            for c, _, p in reversed(parts[:-1]):
                stop = "POk false" if isinstance(e.op, ast.And) else "POk true"
                inner = self.bindall(pre, "POk %s" % acc)
                v = self.fresh("b")
                term = "(if %s then %s else %s)" % (c, inner, stop) if isinstance(e.op, ast.And) else "(if %s then %s else %s)" % (c, stop, inner)
                if not pre:
                    acc = "(%s %s %s)" % (c, "&&" if isinstance(e.op, ast.And) else "||", acc)
                    pre = p
                else:
                    acc, pre = v, p + [(v, term)]
            return acc, "B", pre
        if isinstance(e, ast.UnaryOp) and isinstance(e.op, ast.Not):
            a, ta, pa = self.expr(e.operand, env)
            if ta != "B":
                fail(e, "not on " + ta)
            return "(negb %s)" % a, "B", pa
        if isinstance(e, ast.ListComp) and len(e.generators) == 1 and not e.generators[0].ifs and isinstance(e.generators[0].target, ast.Name) \
                and isinstance(e.generators[0].iter, ast.Call) and ast.unparse(e.generators[0].iter.func) == "range" and len(e.generators[0].iter.args) == 1:
            # [X for _ in range(n)] with X independent of the loop variable: X is evaluated n times - it can raise only when n > 0
            g = e.generators[0]
            if g.target.id in {n.id for n in ast.walk(e.elt) if isinstance(n, ast.Name)}:
                fail(e, "range comprehension whose body uses the loop variable")
            nn, tn, pn = self.expr(g.iter.args[0], env)
            if tn != "N":
                fail(e, "range of " + tn)
            b, tb, pb = self.expr(e.elt, env)
            v = self.fresh()
            return v, "L:" + tb, pn + [(v, "(if Nat.eqb %s 0 then POk [] else %s)" % (nn, self.bindall(pb, "POk (repeat %s %s)" % (b, nn))))]
        if isinstance(e, ast.ListComp) and len(e.generators) == 1 and not e.generators[0].ifs and isinstance(e.generators[0].target, ast.Name):
            g = e.generators[0]
            it, tit, pit = self.expr(g.iter, env)
            if not tit.startswith("L:"):
                fail(e, "comprehension over " + tit)
            env2 = dict(env); env2[g.target.id] = tit[2:]
            b, tb, pb = self.expr(e.elt, env2)
            if pb:
                fail(e, "comprehension body may raise")
            return "(map (fun %s => %s) %s)" % (g.target.id, b, it), "L:" + tb, pit
        if isinstance(e, ast.Tuple) and len(e.elts) == 2:
            a, ta, pa = self.expr(e.elts[0], env); b, tb, pb = self.expr(e.elts[1], env)
            return "(%s, %s)" % (a, b), "T:%s,%s" % (ta, tb), pa + pb
        if isinstance(e, ast.IfExp) and isinstance(e.test, ast.Compare) and isinstance(e.test.ops[0], ast.Is) and isinstance(e.test.left, ast.Name) \
                and ast.unparse(e.test.comparators[0]) == "None" and isinstance(e.orelse, ast.Name) and e.orelse.id == e.test.left.id \
                and env.get(e.test.left.id, "").startswith("O:"):
            # X if v is None else v   (an optional argument with a default computed at call time)
            v = e.test.left.id
            a, ta, pa = self.expr(e.body, env)
            if pa or ta != env[v][2:]:
                fail(e, "default of the optional argument")
            return "(match %s with None => %s | Some v_ => v_ end)" % (v, a), ta, []
        if isinstance(e, ast.Call):
            return self.call(e, env)
        fail(e, "expression")

    def scal(self, e, env):
        c, t, p = self.expr(e, env)
        if p:
            fail(e, "raising scalar")
        if t == "N0":
            return "s_zero"
        if t != "S":
            fail(e, "scalar expected, got " + t)
        return c

    def call(self, e, env):
        f = ast.unparse(e.func)
        kw = {k.arg: k.value for k in e.keywords}
        if f in ("np.array", "list", "tuple") and len(e.args) == 1 and set(kw) <= {"dtype"}:
            a, ta, pa = self.expr(e.args[0], env)
            if ta == "L:N0":
                ta = "L:S"; a = a.replace("0%nat", "s_zero")
            if not ta.startswith("L:"):
                fail(e, "%s of %s" % (f, ta))
            return a, ta, pa
        if f == "len" and len(e.args) == 1:
            a, ta, pa = self.expr(e.args[0], env)
            if not ta.startswith("L:"):
                fail(e, "len of " + ta)
            return "(List.length %s)" % a, "N", pa
        if f == "np.hstack" and len(e.args) == 1 and isinstance(e.args[0], ast.List) and len(e.args[0].elts) == 2:
            a, ta, pa = self.expr(e.args[0].elts[0], env); b, tb, pb = self.expr(e.args[0].elts[1], env)
            if ta != "L:S" or tb != "L:S":
                fail(e, "hstack of %s, %s" % (ta, tb))
            return "(%s ++ %s)" % (a, b), "L:S", pa + pb
        if f == "np.where" and len(e.args) == 3 and not kw and isinstance(e.args[0], ast.Compare) and len(e.args[0].ops) == 1 \
                and isinstance(e.args[0].ops[0], (ast.Lt, ast.LtE)) and ast.unparse(e.args[0].left) == ast.unparse(e.args[2]):
            # np.where(m < eps, 0, m) on a 1-d array: elementwise
            m_, tm, pm = self.expr(e.args[2], env); t_, tt, pt = self.expr(e.args[0].comparators[0], env); z_ = self.scal(e.args[1], env)
            if tm != "L:S" or tt != "S" or pm or pt:
                fail(e, "np.where operands %s %s" % (tm, tt))
            cmp_ = "s_ltb" if isinstance(e.args[0].ops[0], ast.Lt) else "s_leb"
            return "(map (fun p_ => if %s p_ %s then %s else p_) %s)" % (cmp_, t_, z_, m_), "L:S", []
        if f == "np.sum" and len(e.args) == 1:
            a, ta, pa = self.expr(e.args[0], env)
            if ta != "L:S":
                fail(e, "np.sum of " + ta)
            return "(s_sum %s)" % a, "S", pa
        if f == "max" and len(e.args) == 2:
            a, ta, pa = self.expr(e.args[0], env); b, tb, pb = self.expr(e.args[1], env)
            if (ta, tb) != ("S", "S"):
                fail(e, "max of %s, %s" % (ta, tb))
            return "(s_max %s %s)" % (a, b), "S", pa + pb
        if f == "np.vdot" and len(e.args) == 2:
            a, ta, pa = self.expr(e.args[0], env); b, tb, pb = self.expr(e.args[1], env)
            if (ta, tb) != ("V", "V"):
                fail(e, "vdot of %s, %s" % (ta, tb))
            return "(v_vdot %s %s)" % (a, b), "S", pa + pb
        if f == "np.zeros" and len(e.args) == 1 and ast.unparse(e.args[0]).endswith(".vec.shape"):
            return "v_zero", "V", []
        if isinstance(e.func, ast.Attribute) and e.func.attr == "conjugate" and not e.args:
            a, ta, pa = self.expr(e.func.value, env)
            if ta != "V":
                fail(e, "conjugate of " + ta)
            return "(v_conj %s)" % a, "V", pa
        if isinstance(e.func, ast.Attribute) and e.func.attr == "astype" and len(e.args) == 1:
            return self.expr(e.func.value, env)
        if f == "matrix_util.truncate_and_normalize" and len(e.args) == 1:
            a, ta, pa = self.expr(e.args[0], env)
            if ta != "L:S":
                fail(e, "truncate_and_normalize of " + ta)
            return "(k_truncate_and_normalize %s)" % a, "L:S", pa
        if f == "np.vdot":
            fail(e, "vdot")
        if f in PY2CLS:                      # constructor call
            return self.ctor(e, f, kw, env)
        if f == "compose_qoperations" and len(e.args) == 2 and not kw:       # the recursive use on one (operand, state) pair
            a, pa = self.inject(e.args[0], env); b, pb = self.inject(e.args[1], env)
            v = self.fresh()
            return v, "obj", pa + pb + [(v, "(k_compose %s %s)" % (a, b))]
        if (self.pyname, f) in CALL_AS and len(e.args) == 2 and not kw:
            a, pa = self.inject(e.args[0], env); b, pb = self.inject(e.args[1], env)
            v = self.fresh()
            return v, "obj", pa + pb + [(v, "(%s %s %s)" % (CALL_AS[(self.pyname, f)], a, b))]
        if f in TRANSLATED and f != "compose_qoperations":
            spec = TRANSLATED[f]
            args = []; pre = []
            for i, (pn, pt) in enumerate(spec[2]):
                if i < len(e.args):
                    if pt == "L:arg" and isinstance(e.args[i], ast.Starred):
                        a, ta, pa = self.expr(e.args[i].value, env)
                    else:
                        a, ta, pa = self.expr(e.args[i], env)
                    if ta != pt and not (pt == "S" and ta == "N0"):
                        fail(e, "argument %d of %s: %s, expected %s" % (i, f, ta, pt))
                    args.append(a); pre += pa
                elif (f, i) in DEFAULTS:
                    args.append(DEFAULTS[(f, i)])
                else:
                    fail(e, "missing argument of " + f)
            v = self.fresh()
            return v, spec[3], pre + [(v, "(%s O %s)" % (spec[1], " ".join(args)))]
        fail(e, "call of " + f)

    def inject(self, e, env):
        a, ta, pa = self.expr(e, env)
        if ta == "obj":
            return a, pa
        if ta in CLS2CON:
            return "(%s _ _ _ %s)" % (CLS2CON[ta], a), pa
        fail(e, "cannot pass %s as an operand" % ta)

    def ctor(self, e, f, kw, env):
        args = list(e.args)

        def arg(i, name):
            if i < len(args):
                return args[i]
            if name in kw:
                return kw[name]
            return None
        if f in ("Gate", "State", "Povm"):
            for k in list(kw):
                if k in PASS_THROUGH:
                    if ast.unparse(kw[k]) != "self." + k:
                        fail(e, "pass-through keyword %s is not self.%s" % (k, k))
                    del kw[k]
            sys_, pay, ph = arg(0, "c_sys"), arg(1, {"Povm": "vecs", "Gate": "hs", "State": "vec"}[f]), kw.get("is_physicality_required")
            if sys_ is None or pay is None or ph is None or set(kw) - {"is_physicality_required", "c_sys", "vecs", "hs", "vec"}:
                fail(e, "constructor arguments of " + f)
            s, ts, ps_ = self.expr(sys_, env); p, tp, pp = self.expr(pay, env); h, th, phh = self.expr(ph, env)
            want = {"Gate": "M", "State": "V", "Povm": "L:V"}[f]
            if ts != "Z" or tp != want or th != "B":
                fail(e, "constructor argument types of %s: %s %s %s" % (f, ts, tp, th))
            if f == "State":
                return "(Build_r_state V %s %s %s)" % (s, h, p), "state", ps_ + pp + phh
            return "(R%s M V S %s %s %s)" % (f, s, p, h), "res", ps_ + pp + phh
        if f == "MProcess":
            sys_, hss, shape, ph = arg(0, "c_sys"), arg(1, "hss"), arg(2, "shape"), kw.get("is_physicality_required")
            if sys_ is None or hss is None or shape is None or ph is None or set(kw) - {"is_physicality_required", "shape"}:
                fail(e, "constructor arguments of MProcess")
            s, ts, p1 = self.expr(sys_, env); h, th, p2 = self.expr(hss, env); sh, tsh, p3 = self.expr(shape, env); b, tb, p4 = self.expr(ph, env)
            if (ts, th, tsh, tb) != ("Z", "L:M", "L:N", "B"):
                fail(e, "constructor argument types of MProcess")
            return "(RMProcess M V S %s %s %s %s)" % (s, h, sh, b), "res", p1 + p2 + p3 + p4
        if f == "MultinomialDistribution":
            ps_, shape = arg(0, "ps"), arg(1, "shape")
            if ps_ is None or shape is None or set(kw) - {"ps", "shape"}:
                fail(e, "constructor arguments of MultinomialDistribution")
            p, tp, p1 = self.expr(ps_, env); sh, tsh, p2 = self.expr(shape, env)
            if (tp, tsh) != ("L:S", "L:N"):
                fail(e, "constructor argument types of MultinomialDistribution: %s %s" % (tp, tsh))
            return "(%s, %s)" % (p, sh), "mdcall", p1 + p2
        if f == "StateEnsemble":
            sts, dist, eps = arg(0, "states"), arg(1, "prob_dist"), kw.get("eps_zero")
            if sts is None or dist is None or set(kw) - {"eps_zero"}:
                fail(e, "constructor arguments of StateEnsemble")
            s, ts, p1 = self.expr(sts, env); d, td, p2 = self.expr(dist, env)
            if ts == "L:obj" and td == "dist" and eps is None:
                return "(REnsembleOfObjs M V S %s %s)" % (s, d), "res", p1 + p2
            if ts == "L:state" and td == "mdcall" and eps is not None:
                ep, te, p3 = self.expr(eps, env)
                if te != "S":
                    fail(e, "eps_zero type")
                return "(REnsemble M V S %s (fst %s) (snd %s) %s)" % (s, d, d, ep), "res", p1 + p2 + p3
            fail(e, "StateEnsemble(%s, %s)" % (ts, td))
        fail(e, "constructor " + f)

    @staticmethod
    def bindall(pre, body):
        for v, t in reversed(pre):
            body = "(pbind %s (fun %s => %s))" % (t, v, body)
        return body

    # ------------------------------------------------------------------ statements: compile `stmts` followed by the continuation `rest(env) -> coq`
    def block(self, stmts, env, rest, lo=frozenset()):
        """lo: names that are live after this block (read by the continuation)"""
        if not stmts:
            return rest(env)
        s, tail = stmts[0], stmts[1:]
        nxt = lambda env2: self.block(tail, env2, rest, lo)       # noqa: E731
        if isinstance(s, ast.Expr) and isinstance(s.value, ast.Constant) and isinstance(s.value.value, str):
            return nxt(env)
        if isinstance(s, ast.Assert):
            c, tc, pc = self.expr(s.test, env)
            return self.bindall(pc, "(if %s then %s else PExc \"AssertionError\")" % (c, nxt(env)))
        if isinstance(s, ast.Return):
            if tail:
                fail(s, "code after return")
            return self.ret_expr(s.value, env)
        if isinstance(s, ast.Raise):
            exc = s.exc.func.id if isinstance(s.exc, ast.Call) and isinstance(s.exc.func, ast.Name) else None
            if exc is None:
                fail(s, "raise form")
            return "(PExc \"%s\")" % exc
        if isinstance(s, ast.Assign) and len(s.targets) == 1:
            t = s.targets[0]
            if isinstance(t, ast.Tuple) and all(isinstance(x, ast.Name) for x in t.elts) and len(t.elts) == 2:
                c, tc, pc = self.expr(s.value, env)
                if not tc.startswith("T:"):
                    fail(s, "tuple assignment from " + tc)
                ta, tb = split2(tc[2:])
                env2 = dict(env); env2[t.elts[0].id] = ta; env2[t.elts[1].id] = tb
                return self.bindall(pc, "(let '(%s, %s) := %s in %s)" % (t.elts[0].id, t.elts[1].id, c, nxt(env2)))
            if not isinstance(t, ast.Name):
                fail(s, "assignment target")
            c, tc, pc = self.expr(s.value, env)
            if tc == "unit":
                return self.bindall(pc, nxt(env))             # a value that is only passed on to an abstracted expression
            if tc == "L:?":
                tc = self.infer_empty(t.id, tail, env)
            if tc == "N0":
                tc = "S" if env.get(t.id) == "S" else "N"; c = "s_zero" if tc == "S" else c
            if tc == "L:N0":
                tc = "L:S"; c = c.replace("0%nat", "s_zero")
            if t.id in env and env[t.id] != tc and not (env[t.id] == "O:" + tc):
                fail(s, "variable %s changes type %s -> %s" % (t.id, env[t.id], tc))
            env2 = dict(env); env2[t.id] = tc
            val = "(Some %s)" % c if t.id in self.maybe else c
            return self.bindall(pc, "(let %s := %s in %s)" % (t.id, val, nxt(env2)))
        if isinstance(s, ast.Expr) and isinstance(s.value, ast.Call) and isinstance(s.value.func, ast.Attribute) and s.value.func.attr in ("append", "extend") \
                and isinstance(s.value.func.value, ast.Name) and len(s.value.args) == 1:
            l = s.value.func.value.id
            if l not in env or not env[l].startswith("L:") or l in self.maybe:
                fail(s, "append to " + str(env.get(l)))
            c, tc, pc = self.expr(s.value.args[0], env)
            if tc == "N0":
                tc = "S"; c = "s_zero"
            want = env[l][2:] if s.value.func.attr == "append" else env[l]
            if tc != want:
                fail(s, "%s of %s to %s" % (s.value.func.attr, tc, env[l]))
            add = "[%s]" % c if s.value.func.attr == "append" else c
            return self.bindall(pc, "(let %s := %s ++ %s in %s)" % (l, l, add, nxt(env)))
        if isinstance(s, ast.For):
            return self.loop(s, tail, env, rest, lo)
        if isinstance(s, ast.If):
            return self.cond(s, tail, env, rest, lo)
        fail(s, "statement")

    def infer_empty(self, name, tail, env):
        """element type of `name = []` from its first append / extend"""
        for st in tail:
            for n in ast.walk(st):
                if isinstance(n, ast.Call) and isinstance(n.func, ast.Attribute) and n.func.attr in ("append", "extend") and isinstance(n.func.value, ast.Name) and n.func.value.id == name:
                    return {"hss": "L:M", "vecs": "L:V", "states": "L:state", "new_states": "L:obj", "ps": "L:S", "Mx_rhos": "L:V", "element_list": "L:obj"}.get(name) or fail(n, "element type of " + name)
        fail(tail[0] if tail else self.f, "empty list %s never filled" % name)

    def ret_expr(self, e, env):
        c, tc, pc = self.expr(e, env)
        if tc == "mdcall" and self.ret == "res":
            c, tc = "(RMultinomialDistribution M V S (fst %s) (snd %s))" % (c, c), "res"
        if tc == "state" and self.ret == "res":
            c, tc = "(RState M V S (st_sys %s) (st_vec %s) (st_phys %s))" % (c, c, c), "res"
        if tc != self.ret and not (self.ret == "obj" and tc == "obj"):
            fail(e, "return type %s, expected %s" % (tc, self.ret))
        return self.bindall(pc, "(POk %s)" % c)

    def types_of_assignments(self, stmts, env):
        """types of plain `x = e` assignments anywhere in stmts whose right-hand side can be typed in env (order-insensitive helper for the loop probe)"""
        out = {}
        for _ in range(3):
            for st in stmts:
                for n in ast.walk(st):
                    if isinstance(n, ast.Assign) and len(n.targets) == 1 and isinstance(n.targets[0], ast.Name):
                        try:
                            e2 = dict(env); e2.update(out)
                            n0 = self.n
                            c, t, _p = self.expr(n.value, e2)
                            self.n = n0
                            if t == "L:N0":
                                t = "L:S"
                            if t not in ("unit", "L:?", "N0"):
                                out.setdefault(n.targets[0].id, t)
                        except Unsupported:
                            pass
        return out

    def carried(self, body, tail, env, lo):
        a = [v for v in assigned(body)]
        later = live_in(tail) | set(lo)
        return [v for v in a if (v in env and (v in later or v in live_in(body))) or (v not in env and v in later)]

    def tup(self, vs):
        return vs[0] if len(vs) == 1 else "(%s)" % ", ".join(vs) if vs else "tt"

    def pat(self, vs):
        return vs[0] if len(vs) == 1 else "'(%s)" % ", ".join(vs) if vs else "_"

    def loop(self, s, tail, env, rest, lo=frozenset()):
        it = s.iter
        env2 = dict(env)
        if isinstance(it, ast.Call) and ast.unparse(it.func) == "zip" and len(it.args) == 2 and isinstance(s.target, ast.Tuple) and len(s.target.elts) == 2:
            a, ta, pa = self.expr(it.args[0], env); b, tb, pb = self.expr(it.args[1], env)
            if tb == "dist":
                b, tb = "(di_ps %s)" % b, "L:S"            # iterating a MultinomialDistribution yields its ps (sequence protocol through __getitem__)
            if not (ta.startswith("L:") and tb.startswith("L:")):
                fail(s, "zip of %s, %s" % (ta, tb))
            x, y = s.target.elts[0].id, s.target.elts[1].id
            env2[x] = ta[2:]; env2[y] = tb[2:]
            lst, pre, var = "(zip %s %s)" % (a, b), pa + pb, "'(%s, %s)" % (x, y)
        elif isinstance(it, ast.Call) and ast.unparse(it.func) == "enumerate" and len(it.args) == 1 and isinstance(s.target, ast.Tuple) and len(s.target.elts) == 2:
            a, ta, pa = self.expr(it.args[0], env)
            if not ta.startswith("L:"):
                fail(s, "enumerate of " + ta)
            i, x = s.target.elts[0].id, s.target.elts[1].id
            env2[i] = "N"; env2[x] = ta[2:]
            lst, pre, var = "(enumerate_from 0 %s)" % a, pa, "'(%s, %s)" % (i, x)
        elif isinstance(it, ast.Call) and ast.unparse(it.func) == "reversed" and len(it.args) == 1 and isinstance(s.target, ast.Name):
            a, ta, pa = self.expr(it.args[0], env)
            if not ta.startswith("L:"):
                fail(s, "reversed of " + ta)
            env2[s.target.id] = ta[2:]
            lst, pre, var = "(rev %s)" % a, pa, s.target.id
        elif isinstance(s.target, ast.Name):
            a, ta, pa = self.expr(it, env)
            if not ta.startswith("L:"):
                fail(s, "for over " + ta)
            env2[s.target.id] = ta[2:]
            lst, pre, var = a, pa, s.target.id
        else:
            fail(s, "loop form")
        if s.orelse:
            fail(s, "for-else")
        if any(isinstance(n, (ast.Return, ast.Raise)) for st in s.body for n in ast.walk(st)):
            fail(s, "return / raise inside a loop")
        cs = self.carried(s.body, tail, env, lo)
        env_after = dict(env)
        # types of carried variables that are first bound inside the loop: compile the body once to learn them
        probe = {}

        def learn(envb):
            for v in cs:
                if v in envb:
                    probe[v] = envb[v]
            return "PROBE"
        self_n = self.n
        for attempt in range(len(cs) + 1):
            try:
                self.block(s.body, env2, learn, frozenset(cs))
                break
            except Unsupported as ex:
                # a loop variable that is read (e.g. accumulated) before the probe knows its type: type it from an assignment whose
                # right-hand side can be typed from the variables known at loop entry plus the branch-local ones
                unknown = [v for v in cs if v not in env2 and ("unknown variable " + v) in str(ex)]
                if not unknown:
                    raise
                v = unknown[0]; found = None
                for n in ast.walk(s):
                    if isinstance(n, ast.Assign) and len(n.targets) == 1 and isinstance(n.targets[0], ast.Name) and n.targets[0].id == v and isinstance(n.value, ast.Name):
                        src_types = self.types_of_assignments(s.body, env2)
                        if n.value.id in src_types:
                            found = src_types[n.value.id]
                            break
                if found is None:
                    raise
                env2[v] = found
        self.n = self_n
        for v in cs:
            if v not in env:
                if v not in self.maybe:
                    fail(s, "variable %s is bound only inside the loop but is not option-typed" % v)
                if v not in probe:
                    fail(s, "type of loop variable " + v)
                env2[v] = probe[v]; env_after[v] = probe[v]
        init = self.tup([v if v in env else "None" for v in cs])
        body = self.block(s.body, env2, lambda envb: "(POk %s)" % self.tup(cs), frozenset(cs))
        return self.bindall(pre, "(pbind (pfor %s (fun %s %s => %s) %s) (fun %s => %s))" % (lst, var, self.pat(cs), body, init, self.pat(cs), self.block(tail, env_after, rest, lo)))

    def cond(self, s, tail, env, rest, lo=frozenset()):
        test = ast.unparse(s.test)
        # the type dispatch on dynamically typed operands
        d = self.dispatch_test(s.test, env)
        if d is not None:
            # the whole if / elif chain of type tests on the same two operands becomes ONE match (the tests are exact type equalities, so the
            # clauses are disjoint; a repeated pair would be unreachable in Python and is rejected)
            (n1, _), (n2, _) = d
            clauses = []; seen = set(); cur = s
            while True:
                dd = self.dispatch_test(cur.test, env)
                if dd is None or dd[0][0] != n1 or dd[1][0] != n2:
                    fail(cur, "mixed tests in a type-dispatch chain")
                c1, c2 = dd[0][1], dd[1][1]
                if (c1, c2) in seen:
                    fail(cur, "repeated (unreachable) dispatch clause")
                seen.add((c1, c2))
                if not terminates(cur.body):
                    fail(cur, "a dispatch branch must end in return / raise")
                env2 = dict(env); env2[n1] = c1; env2[n2] = c2
                clauses.append("| %s _ _ _ %s, %s _ _ _ %s => %s" % (CLS2CON[c1], n1, CLS2CON[c2], n2, self.block(cur.body, env2, lambda e_: fail(s, "dispatch branch fell through"), lo)))
                if len(cur.orelse) == 1 and isinstance(cur.orelse[0], ast.If) and self.dispatch_test(cur.orelse[0].test, env) is not None:
                    cur = cur.orelse[0]
                else:
                    break
            other = self.block(cur.orelse + tail, env, rest, lo)
            return "(match %s, %s with %s | _, _ => %s end)" % (n1, n2, " ".join(clauses), other)
        if isinstance(s.test, ast.Compare) and isinstance(s.test.left, ast.Call) and ast.unparse(s.test.left.func) == "type" and ast.unparse(s.test.comparators[0]) == "list" \
                and isinstance(s.test.ops[0], ast.Eq) and isinstance(s.test.left.args[0], ast.Name) and env.get(s.test.left.args[0].id) == "arg":
            x = s.test.left.args[0].id
            if terminates(s.body) or terminates(s.orelse):
                fail(s, "terminating list-dispatch branch")
            later = live_in(tail) | set(lo)
            cs = [v for v in dict.fromkeys(assigned(s.body) + assigned(s.orelse)) if v in later]
            e1 = dict(env); e1[x] = "L:obj"; e2 = dict(env); e2[x] = "obj"
            fin = lambda envb: "(POk %s)" % self.tup(cs)      # noqa: E731
            a = self.block(s.body, e1, fin, frozenset(cs)); b = self.block(s.orelse, e2, fin, frozenset(cs))
            return "(pbind (match %s with inr %s => %s | inl %s => %s end) (fun %s => %s))" % (x, x, a, x, b, self.pat(cs), self.block(tail, env, rest, lo))
        if isinstance(s.test, ast.Compare) and test.endswith(".ndim == 1") and isinstance(s.test.left, ast.Attribute) and isinstance(s.test.left.value, ast.Name) \
                and env.get(s.test.left.value.id) == "L:S":
            # the parameter is typed as a 1-d array, so `x.ndim == 1` holds and the 2-d branch is not part of the translated slice
            return self.block(s.body + tail, env, rest, lo)
        if test in OPAQUE_IF:
            if not terminates(s.body):
                fail(s, "an opaque branch must end in return on every path")
            other = self.block(s.orelse + tail, env, rest, lo)
            c, tc, pc = self.expr(s.test, env)
            return self.bindall(pc, "(if %s then POk (ROpaque M V S \"%s\") else %s)" % (c, OPAQUE_IF[test], other))
        c, tc, pc = self.expr(s.test, env)
        if tc != "B":
            fail(s, "condition of type " + tc)
        tb, te = terminates(s.body), terminates(s.orelse)
        if tb and te:
            if tail:
                fail(s, "code after an if that always returns")
            return self.bindall(pc, "(if %s then %s else %s)" % (c, self.block(s.body, env, rest, lo), self.block(s.orelse, env, rest, lo)))
        if tb:
            return self.bindall(pc, "(if %s then %s else %s)" % (c, self.block(s.body, env, rest, lo), self.block(s.orelse + tail, env, rest, lo)))
        if te:
            return self.bindall(pc, "(if %s then %s else %s)" % (c, self.block(s.body + tail, env, rest, lo), self.block(s.orelse, env, rest, lo)))
        later = live_in(tail) | set(lo)
        cs = [v for v in dict.fromkeys(assigned(s.body) + assigned(s.orelse)) if v in later]
        learned = {}

        def fin(envb):
            for v in cs:
                if v in envb:
                    if v in learned and learned[v] != envb[v]:
                        fail(s, "variable %s has different types in the two branches" % v)
                    learned[v] = envb[v]
            missing = [v for v in cs if v not in envb]
            if missing:
                if any(v not in self.maybe for v in missing):
                    fail(s, "variable %s is bound in one branch only and is not option-typed" % missing[0])
            return "(POk %s)" % self.tup([v if v in envb else "None" for v in cs])
        a = self.block(s.body, env, fin, frozenset(cs)); b = self.block(s.orelse, env, fin, frozenset(cs))
        env_after = dict(env); env_after.update(learned)
        return self.bindall(pc, "(pbind (if %s then %s else %s) (fun %s => %s))" % (c, a, b, self.pat(cs), self.block(tail, env_after, rest, lo)))

    def dispatch_test(self, t, env):
        if not (isinstance(t, ast.BoolOp) and isinstance(t.op, ast.And) and len(t.values) == 2):
            return None
        out = []
        for v in t.values:
            if not (isinstance(v, ast.Compare) and len(v.ops) == 1 and isinstance(v.ops[0], ast.Eq) and isinstance(v.left, ast.Call)
                    and ast.unparse(v.left.func) == "type" and len(v.left.args) == 1 and isinstance(v.left.args[0], ast.Name)
                    and env.get(v.left.args[0].id) == "obj" and isinstance(v.comparators[0], ast.Name) and v.comparators[0].id in PY2CLS):
                return None
            out.append((v.left.args[0].id, PY2CLS[v.comparators[0].id]))
        if out[0][0] == out[1][0]:
            return None
        return out

    def translate(self):
        env = {p: t for p, t in self.params}
        body = self.block(self.f.body, env, lambda e_: fail(self.f, "function falls off its end"))
        ps = " ".join("(%s : %s)" % (p, ct(t)) for p, t in self.params)
        used = [o for o in OPNAMES if __import__("re").search(r"\b%s\b" % o, body)]
        lets = "".join("let %s := op_%s O in " % (o, o) for o in used)
        return "Definition %s {M V S : Type} (O : pyops M V S) %s : pyres %s :=\n  %s%s." % (self.coq, ps, ct(self.ret), lets, body)


HEADER = '''(* GENERATED by gen/c06_py2coq.py from quara/objects/operators.py - do not edit *)
From Coq Require Import List Bool ZArith String Arith.
From QV.Model Require Import C06_PySym.
Import ListNotations.
'''
OPNAMES = ["s_atol", "m_row0", "v_scale", "m_matmul", "m_matvec", "m_vecmat", "m_transpose", "v_conj", "v_real", "v_first", "v_div", "v_zero", "v_vdot", "s_zero", "s_one", "s_mul", "s_div",
           "s_max", "s_leb", "s_ltb", "s_eq0", "s_sum", "cs_sqrt_dim", "cs_ortho", "cs_ivec", "k_truncate_and_normalize", "k_compose"]


def main():
    repo, out = sys.argv[1], sys.argv[2]
    src = open(os.path.join(repo, "quara", "objects", "operators.py")).read()
    tree = ast.parse(src)
    defs = {n.name: n for n in tree.body if isinstance(n, ast.FunctionDef)}
    for spec in FUNCS:
        if len(spec) > 4:            # a method of a class in another file
            t2 = ast.parse(open(os.path.join(repo, spec[4][0])).read())
            cls = [n for n in t2.body if isinstance(n, ast.ClassDef) and n.name == spec[4][1]]
            ms = [m for c_ in cls for m in c_.body if isinstance(m, ast.FunctionDef) and m.name == spec[0]]
            if spec[4][1] is None:
                ms = [m for m in t2.body if isinstance(m, ast.FunctionDef) and m.name == spec[0]]
            if len(ms) == 1:
                defs[spec[0]] = ms[0]
    parts = [HEADER]
    try:
        for spec in FUNCS:
            if spec[0] not in defs:
                raise Unsupported("function %s not found" % spec[0])
            parts.append("(* %s *)" % spec[0])
            parts.append(SPECIAL[spec[0]](defs[spec[0]], spec) if spec[0] in SPECIAL else Fn(defs[spec[0]], spec).translate())
    except Unsupported as ex:
        print("UNSUPPORTED: %s" % ex)
        sys.exit(3)
    open(out, "w").write("\n".join(parts) + "\n")


SPECIAL = {}

if __name__ == "__main__":
    main()
