#!/usr/bin/env python3
"""Fail-closed translator for the physicality-check decision code of quara (property C15): Python `ast` -> Gallina over the
combinators of coq/theories/Model/C15_PySem.v and the vocabulary of coq/theories/Model/C15_PhysCheck.v.

    usage: c15_py2coq.py <repo root> <out.v>

Translated on every run from the CURRENT source (in this order; later functions may call earlier ones):
  quara/data_analysis/physicality_violation_check.py   get_ineq_const_eps, get_eq_const_eps, _convert_result_to_qoperation,
                                                        calc_unphysical_qobjects_n, is_physical_qobjects_all,
                                                        is_eq_constraint_satisfied_all, is_ineq_constraint_satisfied_all
  quara/simulation/standard_qtomography_simulation_check.py
                                                        StandardQTomographySimulationCheck.execute_physicality_violation_check

What a value is (the SIGNATURE TABLE below is the trusted part; it fixes the static type of every parameter):
  cfg      the check object `self`: only  self.simulation_result.simulation_setting.{estimator, algo_option, num_data}  and
           self.simulation_result.estimation_results  may be read;  type(estimator) == <one of the three estimator classes>,
           truthiness of algo_option and its two flags are the fields of the record chkcfg
  ests     List[EstimationResult]  = list (list est): one row per result = its estimated_qoperation_sequence
  row      one EstimationResult: .estimated_qoperation (= sequence[0]) and .estimated_qoperation_sequence
  est      one estimate: .on_para_eq_constraint, .is_eq_constraint_satisfied(eps), .is_ineq_constraint_satisfied(eps), .is_physical(a, b)
  numdata  the list num_data: only its length is observable (enumerate(num_data); the entries only reach print())
  nat, bool, F (a threshold), lbool / lest (lists built by comprehensions and append)
Every generated function has type  ... -> option R ; None is "an exception is raised" (IndexError of l[i], explicit raise).
Statements whose only effect is output (print, message strings, Counter for the message) are recognised as such, checked to be
unable to raise and dropped; a parameter of kind `flag` (show_detail) may only guard such statements.
Anything outside this subset raises Unsupported: the tie is then reported as broken, never skipped.
"""
import ast, sys, os

PVC = "quara/data_analysis/physicality_violation_check.py"
SCK = "quara/simulation/standard_qtomography_simulation_check.py"
FUNCS = [
    dict(file=PVC, name="get_ineq_const_eps", params=[], ret="F"),
    dict(file=PVC, name="get_eq_const_eps", params=[("para", "bool")], ret="F"),
    dict(file=PVC, name="_convert_result_to_qoperation", params=[("estimation_results", "ests"), ("num_data_index", "nat")], ret="lest"),
    dict(file=PVC, name="calc_unphysical_qobjects_n", params=[("source", "ests"), ("num_data_index", "nat")], ret="nat"),
    dict(file=PVC, name="is_physical_qobjects_all", params=[("estimation_results", "ests"), ("num_data", "numdata"), ("show_detail", "flag")], ret="bool"),
    dict(file=PVC, name="is_eq_constraint_satisfied_all", params=[("estimation_results", "ests"), ("num_data", "numdata"), ("show_detail", "flag")], ret="bool"),
    dict(file=PVC, name="is_ineq_constraint_satisfied_all", params=[("estimation_results", "ests"), ("num_data", "numdata"), ("show_detail", "flag")], ret="bool"),
    dict(file=SCK, cls="StandardQTomographySimulationCheck", name="execute_physicality_violation_check",
         params=[("self", "cfg"), ("show_detail", "flag")], ret="bool", extra=[("ests", "ests"), ("num_data", "numdata")]),
]
# depolarising-noise constructors (objects are their numbers; n = c_sys.dim ** 2 is the binder of a `csys` value)
DEP = "quara/simulation/depolarized_qoperation_generation_setting.py"
SKIP6 = lambda names: [(n_, "skip") for n_ in names]
FUNCS += [
    dict(file="quara/objects/gate.py", name="get_depolarizing_channel", params=[("p", "F"), ("c_sys", "csys")], ret="gate"),
    dict(file=DEP, cls="DepolarizedQOperationGenerationSetting", name="__init__", coq="DepolarizedSetting_init",
         params=[("self", "dsetnew"), ("c_sys", "skip"), ("qoperation_base", "skip"), ("error_rate", "F"), ("ids", "skip"), ("is_physicality_required", "skip")], ret="unit"),
] + [dict(file=DEP, cls="DepolarizedQOperationGenerationSetting", name="generate_" + k_, coq="DepolarizedSetting_generate_" + k_,
          params=[("self", "dset")], basetype=k_, extra=[("error_rate", "F"), ("base", k_), ("n", "csys")], ret=k_) for k_ in ("state", "povm", "gate", "mprocess")] + [
    dict(file="quara/objects/qoperation_typical.py", name="generate_qoperation_depolarized", coq="generate_qoperation_depolarized_" + k_, nocall=True,
         params=[("mode", "const:" + k_), ("name", "skip"), ("c_sys", "csys"), ("error_rate", "F"), ("ids", "skip"), ("is_physicality_required", "skip")],
         extra=[("base", k_)], basetype=k_, ret=k_) for k_ in ("state", "povm", "gate", "mprocess")] + [
    dict(file="quara/objects/qoperation_typical.py", name="generate_qoperation_depolarized", coq="generate_qoperation_depolarized_other", nocall=True,
         params=[("mode", "const:<any other string>"), ("name", "skip"), ("c_sys", "csys"), ("error_rate", "F"), ("ids", "skip"), ("is_physicality_required", "skip")],
         extra=[("base", "state")], basetype="state", ret="state")]
OBJ = ("state", "povm", "gate", "mprocess")
COMPOSE = {("gate", "state"): ("compose_gate_state", "state"), ("povm", "gate"): ("compose_povm_gate", "povm"),
           ("gate", "gate"): ("compose_gate_gate", "gate"), ("gate", "mprocess"): ("compose_gate_mprocess", "mprocess")}

# module-level thresholds of physicality_violation_check.py -> fields of the record `thresholds`; the defining statements are checked
GLOBALS = {"__eq_const_eps_true": ("(t_atol th)", "Settings.get_atol()"), "__eq_const_eps_false": ("(t_eq_false th)", "10 ** (-5)"),
           "__ineq_const_eps": ("(t_ineq th)", "10 ** (-5)")}
KINDS = {"LinearEstimator": ("ELinear", "quara.protocol.qtomography.standard.linear_estimator"),
         "ProjectedLinearEstimator": ("EProjLinear", "quara.protocol.qtomography.standard.projected_linear_estimator"),
         "LossMinimizationEstimator": ("ELossMin", "quara.protocol.qtomography.standard.loss_minimization_estimator")}
COQTY = {"bool": "bool", "nat": "nat", "F": "F", "est": "est F", "row": "list (est F)", "ests": "list (list (est F))", "numdata": "nat",
         "cfg": "chkcfg", "lbool": "list bool", "lest": "list (est F)", "csys": "nat", "unit": "unit",
         "state": "rvec F", "povm": "list (rvec F)", "gate": "rmat F", "mprocess": "list (rmat F)", "rvec": "rvec F"}
ELEM = {"ests": "row", "lest": "est", "row": "est"}


class Unsupported(Exception):
    pass


class Impure(Exception):
    """raised in pure mode when the function body needs the exception monad"""


def fail(node, msg):
    raise Unsupported("%s (line %s): %s" % (type(node).__name__, getattr(node, "lineno", "?"), msg))


class Fn:
    def __init__(self, spec, fdef, module_names, done):
        self.spec, self.f, self.modnames, self.done = spec, fdef, module_names, done
        self.n = 0
        self.pure = False      # pure mode: the body is a plain term (no exception possible); tried first

    def monadic(self):
        if self.pure:
            raise Impure()

    def fresh(self, base):
        self.n += 1
        return "%s_%d" % (base.strip("_") or "v", self.n)

    # ------------------------------------------------------------------ report-only expressions: cannot raise, no effect
    def safe(self, e, env):
        if isinstance(e, ast.Constant):
            return
        if isinstance(e, ast.Name):
            if e.id in env or e.id in ("True", "False"):
                return
            fail(e, "unknown name %s in a report-only expression" % e.id)
        if isinstance(e, ast.JoinedStr):
            for v in e.values:
                if isinstance(v, ast.FormattedValue):
                    if v.format_spec is not None:
                        fail(e, "format spec")
                    self.safe(v.value, env)
            return
        if isinstance(e, ast.BinOp) and isinstance(e.op, (ast.Add, ast.Sub)):
            self.safe(e.left, env); self.safe(e.right, env); return
        if isinstance(e, ast.IfExp):
            self.safe(e.test, env); self.safe(e.body, env); self.safe(e.orelse, env); return
        if isinstance(e, ast.UnaryOp) and isinstance(e.op, ast.Not):
            self.safe(e.operand, env); return
        if isinstance(e, ast.Call) and isinstance(e.func, ast.Name) and e.func.id in ("len", "print", "Counter", "get_ineq_const_eps") and not e.keywords:
            for a in e.args:
                self.safe(a, env)
            return
        if isinstance(e, ast.Subscript) and isinstance(e.value, ast.Name) and env.get(e.value.id, (None, None))[1] == "report" \
                and isinstance(e.slice, ast.Constant):
            return      # counter[True]
        fail(e, "not a report-only expression: %s" % ast.unparse(e))

    def report_only(self, st, env):
        """is st a statement whose only effect is output?  (names it binds become `report` variables)"""
        if isinstance(st, ast.Expr) and isinstance(st.value, ast.Call) and isinstance(st.value.func, ast.Name) and st.value.func.id == "print":
            self.safe(st.value, env); return True
        if isinstance(st, ast.Assign) and len(st.targets) == 1 and isinstance(st.targets[0], ast.Name) \
                and (isinstance(st.value, (ast.JoinedStr,)) or (isinstance(st.value, ast.Constant) and isinstance(st.value.value, str))
                     or (isinstance(st.value, ast.Call) and isinstance(st.value.func, ast.Name) and st.value.func.id == "Counter")):
            self.safe(st.value, env)
            if st.targets[0].id in env and env[st.targets[0].id][1] != "report":
                fail(st, "report statement rebinds the program variable %s" % st.targets[0].id)
            env[st.targets[0].id] = (None, "report"); return True
        if isinstance(st, ast.AugAssign) and isinstance(st.target, ast.Name) and isinstance(st.op, ast.Add) \
                and env.get(st.target.id, (None, None))[1] == "report":
            self.safe(st.value, env); return True
        return False

    # ------------------------------------------------------------------ numbers of the ordered field (pure)
    def num(self, e, env):
        if isinstance(e, ast.Constant) and type(e.value) is int and e.value in (0, 1):
            return "(c%d F)" % e.value
        if isinstance(e, ast.Name) and env.get(e.id, (None, None))[1] == "F":
            return env[e.id][0]
        if isinstance(e, ast.Attribute) and isinstance(e.value, ast.Name) and env.get(e.value.id, (None, None))[1] == "dset" and e.attr == "error_rate":
            return "error_rate"
        if isinstance(e, ast.BinOp) and isinstance(e.op, ast.Sub):
            return "(csub F %s %s)" % (self.num(e.left, env), self.num(e.right, env))
        fail(e, "number %s" % ast.unparse(e))

    def is_n(self, e, env):
        """is e the number of basis elements  <csys>.dim ** 2 ?  -> the coq term of n"""
        if isinstance(e, ast.BinOp) and isinstance(e.op, ast.Pow) and isinstance(e.right, ast.Constant) and e.right.value == 2 \
                and isinstance(e.left, ast.Attribute) and e.left.attr == "dim" and isinstance(e.left.value, ast.Name) \
                and env.get(e.left.value.id, (None, None))[1] == "csys":
            return env[e.left.value.id][0]
        return None

    # ------------------------------------------------------------------ expressions, continuation-passing:
    # ex(e, env, k) = Coq text of type `option R`;  k(term, type) receives a PURE term for the value of e
    def ex(self, e, env, k):
        if isinstance(e, ast.Constant):
            if e.value is True or e.value is False:
                return k("true" if e.value else "false", "bool")
            if type(e.value) is int and e.value >= 0:
                return k("%d%%nat" % e.value, "nat")
            fail(e, "constant %r" % (e.value,))
        if isinstance(e, ast.Name):
            if e.id in env:
                t, ty = env[e.id]
                if ty in ("report", "flag"):
                    fail(e, "%s variable %s used as a value" % (ty, e.id))
                return k(t, ty)
            if e.id in GLOBALS:
                return k(GLOBALS[e.id][0], "F")
            fail(e, "unknown name %s" % e.id)
        if isinstance(e, ast.List) and not e.elts:
            return k("[]", "list?")
        if isinstance(e, ast.Attribute):
            return self.ex(e.value, env, lambda t, ty: self.attr(e, t, ty, k))
        if isinstance(e, ast.Subscript):
            def with_seq(t, ty):
                if ty not in ("ests", "lest"):
                    fail(e, "indexing a value of type %s" % ty)
                return self.ex(e.slice, env, lambda i, tyi: self.index(e, t, ty, i, tyi, k))
            return self.ex(e.value, env, with_seq)
        if isinstance(e, ast.IfExp):
            return self.ex(e.test, env, lambda c, tyc: self.ifexp(e, c, tyc, env, k))
        if isinstance(e, ast.UnaryOp) and isinstance(e.op, ast.Not):
            return self.ex(e.operand, env, lambda t, ty: k("(negb %s)" % t, "bool") if ty == "bool" else fail(e, "not of %s" % ty))
        if isinstance(e, ast.Compare):
            return self.compare(e, env, k)
        if isinstance(e, ast.ListComp):
            return self.listcomp(e, env, k)
        if isinstance(e, ast.Call):
            return self.call(e, env, k)
        fail(e, "expression %s" % ast.unparse(e))

    def attr(self, e, t, ty, k):
        a = e.attr
        table = {("cfg", "simulation_result"): (t, "simres"), ("simres", "simulation_setting"): (t, "simset"),
                 ("simres", "estimation_results"): ("ests", "ests"), ("simset", "num_data"): ("num_data", "numdata"),
                 ("simset", "estimator"): (t, "estimator"), ("simset", "algo_option"): (t, "algoopt"),
                 ("algoopt", "on_algo_eq_constraint"): ("(k_algo_eq %s)" % t, "bool"), ("algoopt", "on_algo_ineq_constraint"): ("(k_algo_ineq %s)" % t, "bool"),
                 ("row", "estimated_qoperation_sequence"): (t, "lest"), ("est", "on_para_eq_constraint"): ("(e_para %s)" % t, "bool")}
        if ty == "dset" and a == "error_rate":
            return k("error_rate", "F")
        if ty == "dset" and a == "qoperation_base":
            return k("base", self.spec["basetype"])
        if ty in OBJ and a == "composite_system":
            return k("n", "csys")
        if (ty, a) in table:
            return k(*table[(ty, a)])
        if (ty, a) == ("row", "estimated_qoperation"):       # property: the estimate of the FIRST sample size, sequence[0]
            self.monadic()
            v = self.fresh("q")
            return "obind (py_idx %s 0) (fun %s => %s)" % (t, v, k(v, "est"))
        fail(e, "attribute .%s of a value of type %s" % (a, ty))

    def index(self, e, t, ty, i, tyi, k):
        if tyi != "nat":
            fail(e, "index of type %s" % tyi)
        self.monadic()
        v = self.fresh("x")
        return "obind (py_idx %s %s) (fun %s => %s)" % (t, i, v, k(v, ELEM[ty]))

    def ifexp(self, e, c, tyc, env, k):
        if tyc != "bool":
            fail(e, "condition of type %s" % tyc)
        return "(if %s then %s else %s)" % (c, self.ex(e.body, env, k), self.ex(e.orelse, env, k))

    def compare(self, e, env, k):
        if len(e.ops) == 2 and all(isinstance(o, ast.LtE) for o in e.ops):
            return k("(py_chain_le F %s %s %s)" % (self.num(e.left, env), self.num(e.comparators[0], env), self.num(e.comparators[1], env)), "bool")
        if len(e.ops) != 1:
            fail(e, "comparison chain")
        op, l, r = e.ops[0], e.left, e.comparators[0]
        # <mode parameter> == "literal": decided by the specialisation constant of the signature table
        if isinstance(op, ast.Eq) and isinstance(l, ast.Name) and str(env.get(l.id, (None, ""))[1]).startswith("const:") \
                and isinstance(r, ast.Constant) and isinstance(r.value, str):
            return k("true" if env[l.id][1] == "const:" + r.value else "false", "bool")
        # type(<estimator>) == Class
        if isinstance(op, ast.Eq) and isinstance(l, ast.Call) and isinstance(l.func, ast.Name) and l.func.id == "type" and len(l.args) == 1:
            if not (isinstance(r, ast.Name) and r.id in KINDS and self.modnames.get(r.id) == KINDS[r.id][1] + "." + r.id):
                fail(e, "type(...) == %s: not one of the estimator classes as imported" % ast.unparse(r))
            return self.ex(l.args[0], env, lambda t, ty: k("(kind_eqb (k_kind %s) %s)" % (t, KINDS[r.id][0]), "bool") if ty == "estimator"
                           else fail(e, "type() of a value of type %s" % ty))
        if isinstance(op, (ast.In, ast.NotIn)) and isinstance(l, ast.Constant) and (l.value is True or l.value is False):
            b = "true" if l.value else "false"
            fin = (lambda t: "(py_in %s %s)" % (b, t)) if isinstance(op, ast.In) else (lambda t: "(negb (py_in %s %s))" % (b, t))
            return self.ex(r, env, lambda t, ty: k(fin(t), "bool") if ty in ("lbool", "list?") else fail(e, "`in` on a value of type %s" % ty))
        if isinstance(op, ast.Eq):
            return self.ex(l, env, lambda a, ta: self.ex(r, env, lambda b, tb: k("(Nat.eqb %s %s)" % (a, b), "bool") if ta == tb == "nat"
                                                         else fail(e, "== on %s / %s" % (ta, tb))))
        fail(e, "comparison %s" % ast.unparse(e))

    def listcomp(self, e, env, k):
        if len(e.generators) != 1 or e.generators[0].is_async or not isinstance(e.generators[0].target, ast.Name):
            fail(e, "comprehension shape")
        g = e.generators[0]
        if len(g.ifs) > 1:
            fail(e, "several filters")

        def with_src(src, tys):
            self.monadic()
            if tys not in ("ests", "lest"):
                fail(e, "comprehension over a value of type %s" % tys)
            v = self.fresh(g.target.id)
            env2 = dict(env); env2[g.target.id] = (v, ELEM[tys])
            if g.ifs:
                marker = []
                cond = self.ex(g.ifs[0], env2, lambda c, tyc: marker.append((c, tyc)) or "@")
                if cond != "@" or marker[0][1] != "bool":
                    fail(e, "filter condition must be a pure bool expression")
                src = "(filter (fun %s => %s) %s)" % (v, marker[0][0], src)
            out = {}
            body = self.ex(e.elt, env2, lambda t, ty: out.setdefault("ty", ty) and "Some %s" % t if True else None)
            lty = {"bool": "lbool", "est": "lest"}.get(out.get("ty"))
            if lty is None:
                fail(e, "comprehension element of type %s" % out.get("ty"))
            r = self.fresh("l")
            return "obind (omap (fun %s => %s) %s) (fun %s => %s)" % (v, body, src, r, k(r, lty))
        return self.ex(g.iter, env, with_src)

    def call(self, e, env, k):
        f = e.func
        # methods of an estimate
        if isinstance(f, ast.Attribute) and f.attr in ("is_eq_constraint_satisfied", "is_ineq_constraint_satisfied", "is_physical"):
            names = {"is_eq_constraint_satisfied": ["atol"], "is_ineq_constraint_satisfied": ["atol"], "is_physical": ["atol_eq_const", "atol_ineq_const"]}[f.attr]
            args = list(e.args) + [None] * (len(names) - len(e.args))
            for kw in e.keywords:
                if kw.arg not in names or args[names.index(kw.arg)] is not None:
                    fail(e, "argument %s of %s" % (kw.arg, f.attr))
                args[names.index(kw.arg)] = kw.value
            if len(args) != len(names) or any(a is None for a in args):
                fail(e, "arguments of %s" % f.attr)
            coq = {"is_eq_constraint_satisfied": "eq_ok", "is_ineq_constraint_satisfied": "ineq_ok", "is_physical": "physical"}[f.attr]

            def with_obj(t, ty):
                if ty != "est":
                    fail(e, ".%s of a value of type %s" % (f.attr, ty))
                return self.args(args, ["F"] * len(args), env, e, lambda ts: k("(%s F %s %s)" % (coq, t, " ".join(ts)), "bool"))
            return self.ex(f.value, env, with_obj)
        u = ast.unparse(f)
        kws = {kw.arg: kw.value for kw in e.keywords}
        if u == "np.array" and len(e.args) == 1 and set(kws) <= {"dtype"}:
            a0 = e.args[0]       # [x] + [y] * (n - 1)
            if isinstance(a0, ast.BinOp) and isinstance(a0.op, ast.Add) and isinstance(a0.left, ast.List) and len(a0.left.elts) == 1 \
                    and isinstance(a0.right, ast.BinOp) and isinstance(a0.right.op, ast.Mult) and isinstance(a0.right.left, ast.List) and len(a0.right.left.elts) == 1 \
                    and isinstance(a0.right.right, ast.BinOp) and isinstance(a0.right.right.op, ast.Sub) and self.is_n(a0.right.right.left, env) is not None \
                    and isinstance(a0.right.right.right, ast.Constant) and a0.right.right.right.value == 1:
                return k("(vec_cons1 F %s %s)" % (self.num(a0.left.elts[0], env), self.num(a0.right.left.elts[0], env)), "rvec")
            fail(e, "np.array argument shape")
        if u == "np.diag" and len(e.args) == 1 and not kws:
            return self.ex(e.args[0], env, lambda t, ty: k("(np_diag F %s)" % t, "rmat") if ty == "rvec" else fail(e, "np.diag of %s" % ty))
        if u == "Gate" and not e.args and set(kws) == {"hs", "c_sys"}:
            return self.ex(kws["hs"], env, lambda t, ty: k(t, "gate") if ty == "rmat" else fail(e, "Gate(hs=<%s>)" % ty))
        if u == "compose_qoperations" and len(e.args) == 2 and not kws:
            def comp(a, ta):
                def comp2(b, tb):
                    if (ta, tb) not in COMPOSE:
                        fail(e, "compose_qoperations(%s, %s)" % (ta, tb))
                    fn, rt = COMPOSE[(ta, tb)]
                    return k("(%s F n_ %s %s)".replace("n_", self.nterm(env)) % (fn, a, b), rt)
                return self.ex(e.args[1], env, comp2)
            return self.ex(e.args[0], env, comp)
        if u == "generate_qoperation" and not e.args and self.spec.get("basetype") and "base" in [p_ for p_, _ in self.spec.get("extra", [])]:
            for v_ in kws.values():
                if not isinstance(v_, ast.Name):
                    fail(e, "generate_qoperation argument")
            return k("base", self.spec["basetype"])       # the ideal object named by (mode, name): an INPUT of the translated function
        if isinstance(f, ast.Name) and f.id == "len" and len(e.args) == 1 and not e.keywords:
            return self.ex(e.args[0], env, lambda t, ty: k("(length %s)" % t, "nat") if ty in ("lbool", "lest", "ests") else fail(e, "len of %s" % ty))
        # a translated function, by name or as physicality_violation_check.<name>
        name = f.id if isinstance(f, ast.Name) else (f.attr if isinstance(f, ast.Attribute) and isinstance(f.value, ast.Name)
                                                     and self.modnames.get(f.value.id) == "quara.data_analysis.physicality_violation_check" else None)
        if isinstance(f, ast.Name) and f.id not in self.done and self.modnames.get(f.id, "").endswith("." + f.id):
            name = f.id     # from quara.data_analysis.physicality_violation_check import calc_unphysical_qobjects_n
        if name in self.done and not self.done[name].get("nocall"):
            callee = self.done[name]
            pnames = [p for p, _ in callee["params"]]
            args = list(e.args) + [None] * (len(pnames) - len(e.args))
            if len(e.args) > len(pnames):
                fail(e, "too many arguments")
            for kw in e.keywords:
                if kw.arg not in pnames or args[pnames.index(kw.arg)] is not None:
                    fail(e, "argument %s of %s" % (kw.arg, name))
                args[pnames.index(kw.arg)] = kw.value
            vals, tys = [], []
            for (pn, pty), a in zip(callee["params"], args):
                if pty == "flag":
                    if a is not None:
                        self.safe(a, dict(env, **{n: (None, "report") for n, (_, t_) in env.items() if t_ == "flag"}))
                    continue
                if pty == "skip":
                    continue
                if a is None:
                    fail(e, "argument %s of %s left to its default" % (pn, name))
                vals.append(a); tys.append(pty)
            if callee.get("pure"):
                return self.args(vals, tys, env, e, lambda ts: k("(gen_%s%s)" % (callee.get("coq", name.strip("_")), "".join(" " + t for t in ts)), callee["ret"]))
            self.monadic()
            v = self.fresh("r")
            return self.args(vals, tys, env, e, lambda ts: "obind (gen_%s%s) (fun %s => %s)" % (
                callee.get("coq", name.strip("_")), "".join(" " + t for t in ts), v, k(v, callee["ret"])))
        fail(e, "call %s" % ast.unparse(e))

    def nterm(self, env):
        for n_, (t, ty) in env.items():
            if ty == "csys":
                return t
        raise Unsupported("no composite system in scope")

    def args(self, exprs, tys, env, node, k):
        def go(i, acc):
            if i == len(exprs):
                return k(acc)
            return self.ex(exprs[i], env, lambda t, ty: go(i + 1, acc + [t]) if ty == tys[i] or (ty == "list?" and tys[i].startswith("l"))
                           else fail(node, "argument %d has type %s, expected %s" % (i, ty, tys[i])))
        return go(0, [])

    # ------------------------------------------------------------------ statements
    def static_test(self, t, env):
        """tests decided by the static types of the signature table: isinstance(x, Class), x is None"""
        if isinstance(t, ast.Call) and isinstance(t.func, ast.Name) and t.func.id == "isinstance" and len(t.args) == 2 \
                and isinstance(t.args[0], ast.Name) and isinstance(t.args[1], ast.Name) and t.args[0].id in env:
            ty = env[t.args[0].id][1]
            if ty == "row" and t.args[1].id in ("EstimationResult", "QOperation"):
                return t.args[1].id == "EstimationResult"
            fail(t, "isinstance(%s : %s, %s)" % (t.args[0].id, ty, t.args[1].id))
        if isinstance(t, ast.Compare) and len(t.ops) == 1 and isinstance(t.ops[0], ast.Eq) and isinstance(t.left, ast.Name) \
                and str(env.get(t.left.id, (None, ""))[1]).startswith("const:") and isinstance(t.comparators[0], ast.Constant) and isinstance(t.comparators[0].value, str):
            return env[t.left.id][1] == "const:" + t.comparators[0].value      # specialisation constant of the signature table
        if isinstance(t, ast.UnaryOp) and isinstance(t.op, ast.Not) and isinstance(t.operand, ast.Name) and env.get(t.operand.id, (None, None))[1] == "csys":
            return False      # a composite system is given (signature table): `if not c_sys:` (default 1-qubit system) is dead
        if isinstance(t, ast.Compare) and len(t.ops) == 1 and isinstance(t.ops[0], (ast.Is, ast.IsNot)) and isinstance(t.left, ast.Name) \
                and isinstance(t.comparators[0], ast.Constant) and t.comparators[0].value is None and t.left.id in env:
            if env[t.left.id][1] in ("nat", "ests", "lest", "bool"):
                return isinstance(t.ops[0], ast.IsNot)
        return None

    def rebound(self, body, env):
        """outer program variables a loop body rebinds (assignment or .append)"""
        out = []
        for st in ast.walk(ast.Module(body=body, type_ignores=[])):
            n = None
            if isinstance(st, ast.Assign) and len(st.targets) == 1 and isinstance(st.targets[0], ast.Name):
                n = st.targets[0].id
            if isinstance(st, ast.Expr) and isinstance(st.value, ast.Call) and isinstance(st.value.func, ast.Attribute) \
                    and st.value.func.attr == "append" and isinstance(st.value.func.value, ast.Name):
                n = st.value.func.value.id
            if isinstance(st, (ast.Return, ast.For, ast.While, ast.Try, ast.With, ast.FunctionDef, ast.Break, ast.Continue)):
                fail(st, "%s inside a loop body" % type(st).__name__)
            if n is not None and n in env and env[n][1] not in ("report", "flag") and n not in out:
                out.append(n)
        return out

    def stmts(self, body, env, fall):
        if not body:
            return fall(env)
        st, rest = body[0], body[1:]
        env = dict(env)
        if isinstance(st, ast.Expr) and isinstance(st.value, ast.Constant) and isinstance(st.value.value, str):
            return self.stmts(rest, env, fall)      # docstring
        if self.report_only(st, env):
            return self.stmts(rest, env, fall)
        if self.spec["ret"] == "unit":
            # the constructor: super().__init__(<untracked arguments>) and the store of the rate are the only other statements allowed
            if isinstance(st, ast.Expr) and isinstance(st.value, ast.Call) and ast.unparse(st.value.func) == "super().__init__" and not st.value.args \
                    and all(isinstance(kw.value, (ast.Name, ast.Constant)) and not (isinstance(kw.value, ast.Name) and env.get(kw.value.id, (None, None))[1] == "F")
                            for kw in st.value.keywords):
                return self.stmts(rest, env, fall)
            if isinstance(st, ast.Assign) and ast.unparse(st.targets[0]) == "self._error_rate" and isinstance(st.value, ast.Name) and st.value.id == "error_rate":
                env["\0stored"] = (None, "report")
                return self.stmts(rest, env, fall)
        if isinstance(st, ast.Return):
            if st.value is None:
                fail(st, "bare return")
            return self.ex(st.value, env, lambda t, ty: ("%s" if self.pure else "Some %s") % t if ty == self.spec["ret"] or (ty == "list?" and self.spec["ret"].startswith("l"))
                           else fail(st, "returns %s, signature says %s" % (ty, self.spec["ret"])))
        if isinstance(st, ast.Raise):
            self.monadic()
            return "None"
        if isinstance(st, ast.Assign) and len(st.targets) == 1 and isinstance(st.targets[0], ast.Name):
            n = st.targets[0].id
            if n in env and env[n][1] in ("report", "flag"):
                fail(st, "assignment to the %s variable %s" % (env[n][1], n))

            def bind(t, ty):
                v = self.fresh(n)
                env[n] = (v, ty)
                return "let %s := %s in\n  %s" % (v, t, self.stmts(rest, env, fall))
            return self.ex(st.value, env, bind)
        if isinstance(st, ast.Expr) and isinstance(st.value, ast.Call) and isinstance(st.value.func, ast.Attribute) and st.value.func.attr == "append" \
                and isinstance(st.value.func.value, ast.Name) and len(st.value.args) == 1 and not st.value.keywords:
            n = st.value.func.value.id
            if n not in env or env[n][1] not in ("list?", "lbool", "lest"):
                fail(st, "append to %s" % n)

            def app(t, ty):
                lty = {"bool": "lbool", "est": "lest"}.get(ty)
                if lty is None or env[n][1] not in ("list?", lty):
                    fail(st, "append of a %s to a %s" % (ty, env[n][1]))
                v = self.fresh(n)
                old = env[n][0]
                env[n] = (v, lty)
                return "let %s := %s ++ [%s] in\n  %s" % (v, old, t, self.stmts(rest, env, fall))
            return self.ex(st.value.args[0], env, app)
        if isinstance(st, ast.If):
            # (1) output only
            if isinstance(st.test, ast.Name) and env.get(st.test.id, (None, None))[1] == "flag":
                e2 = dict(env)
                if not all(self.report_only(s, e2) for s in st.body) or st.orelse:
                    fail(st, "`if %s:` must guard output statements only" % st.test.id)
                return self.stmts(rest, env, fall)
            e2 = dict(env)
            if (st.body or st.orelse) and all(self.report_only(s, e2) for s in st.body + st.orelse):
                self.safe(st.test, {n: v for n, v in env.items() if v[1] != "flag"})
                return self.stmts(rest, env, fall)
            # (2) decided by the static types
            sv = self.static_test(st.test, env)
            if sv is not None:
                return self.stmts((st.body if sv else st.orelse) + rest, env, fall)
            # (3) a real branch; the continuation is duplicated
            def branch(c, tyc):
                if tyc == "algoopt":          # truthiness of the option object: None / an option instance
                    c, tyc = "(k_has_option %s)" % c, "bool"
                if tyc != "bool":
                    fail(st, "condition of type %s" % tyc)
                return "(if %s\n  then %s\n  else %s)" % (c, self.stmts(st.body + rest, env, fall), self.stmts(st.orelse + rest, env, fall))
            return self.ex(st.test, env, branch)
        if isinstance(st, ast.For) and not st.orelse:
            it = st.iter
            if not (isinstance(it, ast.Call) and isinstance(it.func, ast.Name) and it.func.id == "enumerate" and len(it.args) == 1 and not it.keywords
                    and isinstance(it.args[0], ast.Name) and env.get(it.args[0].id, (None, None))[1] == "numdata"
                    and isinstance(st.target, ast.Tuple) and len(st.target.elts) == 2 and all(isinstance(x, ast.Name) for x in st.target.elts)):
                fail(st, "only `for i, num in enumerate(<num_data>)` is supported")
            self.monadic()
            mod = self.rebound(st.body, env)
            if len(mod) != 1:
                fail(st, "loop body must rebind exactly one outer variable, found %s" % mod)
            m = mod[0]
            acc, idx = self.fresh(m), self.fresh(st.target.elts[0].id)
            e2 = dict(env)
            e2[m] = (acc, env[m][1])
            e2[st.target.elts[0].id] = (idx, "nat")
            e2[st.target.elts[1].id] = (None, "report")      # an entry of num_data: may only be printed
            out = {}

            def end(e3):
                out["ty"] = e3[m][1]
                return "Some %s" % e3[m][0]
            body = self.stmts(st.body, e2, end)
            v = self.fresh(m)
            cur = env[m][0]
            env[m] = (v, out["ty"])
            return "obind (ofold (fun %s %s =>\n  %s) (seq 0 %s) %s) (fun %s =>\n  %s)" % (
                acc, idx, body, env[it.args[0].id][0], cur, v, self.stmts(rest, env, fall))
        fail(st, "statement %s" % ast.unparse(st).splitlines()[0])

    def check_rate_property(self):
        """self.error_rate must be the property returning self._error_rate (stored by the translated __init__)"""
        cl = self.spec["_class"]
        pr = [x for x in cl.body if isinstance(x, ast.FunctionDef) and x.name == "error_rate"]
        if len(pr) != 1 or [ast.unparse(d) for d in pr[0].decorator_list] != ["property"] or len(pr[0].body) != 1 \
                or ast.unparse(pr[0].body[0]) != "return self._error_rate":
            raise Unsupported("property error_rate is not `return self._error_rate`")

    def translate(self):
        f = self.f
        a = f.args
        if a.vararg or a.kwarg or a.kwonlyargs or a.posonlyargs or f.decorator_list:
            fail(f, "signature shape")
        if [x.arg for x in a.args] != [p for p, _ in self.spec["params"]]:
            fail(f, "parameters %s, signature table says %s" % ([x.arg for x in a.args], [p for p, _ in self.spec["params"]]))
        env, binders = {}, []
        for p, ty in self.spec["params"]:
            if ty == "flag":
                env[p] = (None, "flag")
            elif ty == "skip":
                continue
            elif ty.startswith("const:") or ty in ("dset", "dsetnew"):
                env[p] = (p, ty)
            else:
                env[p] = (p, ty); binders.append("(%s : %s)" % (p, COQTY[ty]))
        for p, ty in self.spec.get("extra", []):
            env["\0" + p] = (p, ty); binders.append("(%s : %s)" % (p, COQTY[ty]))
        ret = COQTY[self.spec["ret"]]
        end = lambda e_: fail(f, "control reaches the end of the function without return")
        if self.spec["ret"] == "unit":        # __init__: falls off the end; it must have stored the rate
            end = lambda e_: ("Some tt" if "\0stored" in e_ else fail(f, "the constructor does not store error_rate"))
        if self.spec["name"].startswith("generate_") and self.spec.get("cls"):
            self.check_rate_property()
        try:
            self.pure, self.n = True, 0
            body = self.stmts(f.body, dict(env), end)
            self.spec["pure"] = True
            return "Definition gen_%s %s : %s :=\n  %s.\n" % (self.spec.get("coq", self.spec["name"].strip("_")), " ".join(binders), ret, body)
        except Impure:
            self.pure, self.n = False, 0
        body = self.stmts(f.body, dict(env), end)
        return "Definition gen_%s %s : option (%s) :=\n  %s.\n" % (self.spec.get("coq", self.spec["name"].strip("_")), " ".join(binders), ret, body)


# ====================================================================================================================
# stream-dataflow translation: which random stream does every repetition of the single-setting entry point draw from?
SIM = "quara/simulation/standard_qtomography_simulation.py"
STD = "quara/protocol/qtomography/standard/standard_%s.py"
# the introspection test of the dispatch helper is not translated but CHECKED textually: "generate has a parameter seed_or_generator"
TAKES_STREAM_SRC = ("def _takes_stream(generation_setting) -> bool:\n    _f = generation_setting.generate\n"
                    "    return 'seed_or_generator' in _f.__code__.co_varnames[:_f.__code__.co_argcount]")
STREAM_FUNCS = [
    dict(file="quara/utils/number_util.py", name="to_stream", params={"seed_or_generator": "sval"}, ret="sval"),
] + [dict(file=STD % f, cls=c, name="generate_empi_dists_sequence", coq="%s_generate_empi_dists_sequence" % c, params={"seed_or_generator": "sval"}, ret="key")
     for f, c in (("qst", "StandardQst"), ("povmt", "StandardPovmt"), ("qpt", "StandardQpt"), ("qmpt", "StandardQmpt"))] + [
    dict(file=SIM, name="_generate_empi_dists_and_calc_estimate", coq="one_repetition", params={"seed_or_generator": "sval"}, ret="key"),
    dict(file=SIM, name="generate_empi_dists_and_calc_estimate", params={"iteration": "nat", "seed_or_generator": "sval"}, ret="lkey"),
    dict(file="quara/simulation/standard_qtomography_simulation_flow.py", name="_generate_with_stream", coq="generate_with_stream",
         params={"generation_setting": "setting", "stream_qoperation": "sval"}, ret="genkey", checked={"_takes_stream": TAKES_STREAM_SRC}),
    dict(file=SIM, name="execute_simulation", params={"seed_or_generator": "sval"}, ret="lkey",
         attrs={"simulation_setting.seed_data": ("seed_data", "sval"), "simulation_setting.n_rep": ("n_rep", "nat")}),
]
# receivers of  <obj>.generate_empi_dists_sequence(..., seed_or_generator=X) : the experiment (one task-draw on the stream X,
# Model/C15_PySem.experiment_draw) / the tomography object (one of the four translated methods: the section variable tomo_generate)
RECEIVERS = {"tmp_experiment": "experiment_draw origin", "qtomography": "tomo_generate"}
SCOQTY = {"sval": "sval", "nat": "nat", "key": "key", "lkey": "list key", "setting": "bool", "genkey": "genkey"}


class StreamFn:
    """Tracked values: seed values (`sval`), natural numbers, the data of one repetition (`key`: identified with the key of the
    task-draw that produced it) and lists of those.  Every statement that neither mentions a tracked variable nor calls a tracked
    function is irrelevant to the dataflow and dropped (it is ASSUMED not to draw random numbers - the differential sub-check
    `single` covers that); everything else must be in the subset below or the translation fails."""

    TRACKED_CALLS = ("to_stream", "generate_empi_dists_sequence", "_generate_empi_dists_and_calc_estimate", "generate_empi_dists_and_calc_estimate", "MT19937", "Generator")

    def __init__(self, spec, fdef, done):
        self.spec, self.f, self.done = spec, fdef, done
        self.n = 0

    def fresh(self, base):
        self.n += 1
        return "%s_%d" % (base.strip("_") or "v", self.n)

    def mentions(self, node, env):
        for x in ast.walk(node):
            if isinstance(x, ast.Name) and x.id in env:
                return True
            if isinstance(x, ast.Attribute) and ast.unparse(x) in self.spec.get("attrs", {}):
                return True
            if isinstance(x, ast.Attribute) and ast.unparse(x) == "np.random":
                return True
            if isinstance(x, ast.Call):
                fn = x.func.id if isinstance(x.func, ast.Name) else (x.func.attr if isinstance(x.func, ast.Attribute) else None)
                if fn in self.TRACKED_CALLS:
                    return True
        return False

    # value expressions: (kind, coq) with kind 'pure' or 'monadic'; type
    def value(self, e, env, k):
        """k(term, type) -> code of type sm R"""
        if isinstance(e, ast.Name) and e.id in env:
            return k(*env[e.id])
        if isinstance(e, ast.Attribute):
            u = ast.unparse(e)
            if u in self.spec.get("attrs", {}):
                return k(*self.spec["attrs"][u])
            if u == "np.random":
                return k("(VStream SAmb)", "sval")
        if isinstance(e, ast.Tuple) and e.elts:      # (estimation_result, empi_dists_seq): both are the data of ONE task-draw
            parts = []
            for x in e.elts:
                self.value(x, env, lambda t, ty: parts.append((t, ty)) or "")
            if len(set(parts)) == 1 and parts[0][1] == "key":
                return k(*parts[0])
            fail(e, "tuple of different tracked values")
        if isinstance(e, ast.Call):
            f = e.func
            u = ast.unparse(f)
            kws = {kw.arg: kw.value for kw in e.keywords}
            if u == "np.random.Generator" and len(e.args) == 1 and not kws and isinstance(e.args[0], ast.Call) \
                    and ast.unparse(e.args[0].func) == "np.random.MT19937" and len(e.args[0].args) == 1 and not e.args[0].keywords:
                v = self.fresh("g")
                return self.value(e.args[0].args[0], env, lambda t, ty: "sbind (sv_alloc %s) (fun %s => %s)" % (t, v, k(v, "sval")) if ty == "sval" else fail(e, "seed of type %s" % ty))
            if u == "SimulationResult":          # the data of the run: its empi_dists_sequences
                if "empi_dists_sequences" not in kws:
                    fail(e, "SimulationResult(...) without empi_dists_sequences=")
                for n_, v_ in kws.items():
                    if n_ != "empi_dists_sequences" and self.mentions(v_, env):
                        self.value(v_, env, lambda t, ty: "" if ty in ("lkey", "key") else fail(e, "SimulationResult(%s=<%s>)" % (n_, ty)))
                return self.value(kws["empi_dists_sequences"], env, k)
            if isinstance(f, ast.Attribute) and f.attr == "generate" and isinstance(f.value, ast.Name) and env.get(f.value.id, (None, None))[1] == "setting":
                st_ = env[f.value.id][0]
                v = self.fresh("o")
                if not e.args and not kws:
                    return "sbind (setting_generate_default origin %s) (fun %s => %s)" % (st_, v, k(v, "genkey"))
                arg = e.args[0] if (len(e.args) == 1 and not kws) else (kws.get("seed_or_generator") if (not e.args and set(kws) == {"seed_or_generator"}) else None)
                if arg is None:
                    fail(e, "arguments of generate")
                return self.value(arg, env, lambda t, ty: "sbind (setting_generate origin %s %s) (fun %s => %s)" % (st_, t, v, k(v, "genkey")) if ty == "sval"
                                  else fail(e, "generate(<%s>)" % ty))
            name = f.id if isinstance(f, ast.Name) else (f.attr if isinstance(f, ast.Attribute) else None)
            if name == "generate_empi_dists_sequence" and isinstance(f, ast.Attribute) and isinstance(f.value, ast.Name) and f.value.id in RECEIVERS:
                if "seed_or_generator" not in kws:
                    fail(e, "generate_empi_dists_sequence without seed_or_generator=")
                for a in list(e.args) + [v_ for n_, v_ in kws.items() if n_ != "seed_or_generator"]:
                    if self.mentions(a, env):
                        fail(e, "tracked value in another argument")
                v = self.fresh("d")
                return self.value(kws["seed_or_generator"], env, lambda t, ty: "sbind (%s %s) (fun %s => %s)" % (RECEIVERS[f.value.id], t, v, k(v, "key")) if ty == "sval"
                                  else fail(e, "seed of type %s" % ty))
            if isinstance(f, ast.Name) and name in self.done:
                callee = self.done[name]
                pnames = callee["pnames"]
                given = dict(zip(pnames, e.args)); 
                if len(e.args) > len(pnames):
                    fail(e, "too many arguments")
                for n_, v_ in kws.items():
                    if n_ not in pnames or n_ in given:
                        fail(e, "argument %s" % n_)
                    given[n_] = v_
                for n_, v_ in given.items():
                    if n_ not in callee["params"] and self.mentions(v_, env) and not all(
                            env.get(x.id, (None, None))[1] == "key" for x in ast.walk(v_) if isinstance(x, ast.Name) and x.id in env):
                        fail(e, "tracked value passed as untracked parameter %s of %s" % (n_, name))
                order = list(callee["params"].items())
                v = self.fresh("r")

                def go(i, acc):
                    if i == len(order):
                        return "sbind (gen_%s%s) (fun %s => %s)" % (callee.get("coq", name.strip("_")), "".join(" " + a for a in acc), v, k(v, callee["ret"]))
                    pn, pty = order[i]
                    if pn not in given:
                        fail(e, "parameter %s of %s left to its default" % (pn, name))
                    return self.value(given[pn], env, lambda t, ty: go(i + 1, acc + [t]) if ty == pty else fail(e, "argument %s has type %s" % (pn, ty)))
                return go(0, [])
            # any other call: its result is DERIVED data if it only mentions data variables (e.g. the estimate computed from the data)
            tr = [x.id for x in ast.walk(e) if isinstance(x, ast.Name) and x.id in env]
            if tr and all(env[x][1] == "key" for x in tr) and len({env[x][0] for x in tr}) == 1 and not any(
                    (isinstance(x, ast.Call) and (x.func.id if isinstance(x.func, ast.Name) else getattr(x.func, "attr", None)) in self.TRACKED_CALLS) for x in ast.walk(e)):
                return k(*env[tr[0]])
        if isinstance(e, (ast.ListComp, ast.List)) and e is not None:
            if isinstance(e, ast.List) and not e.elts:
                return k("[]", "lkey")
            tr = [x.id for x in ast.walk(e) if isinstance(x, ast.Name) and x.id in env]
            if tr and all(env[x][1] == "key" for x in tr) and len({env[x][0] for x in tr}) == 1:
                return k(*env[tr[0]])         # a re-arrangement of the data of one task-draw
        fail(e, "tracked expression %s" % ast.unparse(e)[:80])

    def test(self, t, env):
        """-> coq bool term, or True/False when decided statically"""
        if isinstance(t, ast.Compare) and len(t.ops) == 1 and isinstance(t.ops[0], (ast.Is, ast.IsNot)) \
                and isinstance(t.comparators[0], ast.Constant) and t.comparators[0].value is None and isinstance(t.left, ast.Name) and t.left.id in env:
            term, ty = env[t.left.id]
            pos = isinstance(t.ops[0], ast.Is)
            if ty == "sval":
                return ("(sv_is_none %s)" if pos else "(negb (sv_is_none %s))") % term
            if ty == "nat":
                return not pos      # a nat-typed parameter (signature table) is never None
        if isinstance(t, ast.Call) and isinstance(t.func, ast.Name) and t.func.id == "isinstance" and len(t.args) == 2 and isinstance(t.args[0], ast.Name) \
                and env.get(t.args[0].id, (None, None))[1] == "sval" and ast.unparse(t.args[1]) in ("(int, np.integer)", "(np.integer, int)"):
            return "(sv_is_int %s)" % env[t.args[0].id][0]
        if isinstance(t, ast.Call) and isinstance(t.func, ast.Name) and t.func.id in self.spec.get("checked", {}) and len(t.args) == 1 and not t.keywords \
                and isinstance(t.args[0], ast.Name) and env.get(t.args[0].id, (None, None))[1] == "setting":
            return env[t.args[0].id][0]
        fail(t, "test %s" % ast.unparse(t))

    def rebound(self, body, env):
        out = []
        for st in ast.walk(ast.Module(body=body, type_ignores=[])):
            if isinstance(st, (ast.Return, ast.While, ast.Try, ast.With, ast.Break, ast.Continue)):
                fail(st, "%s inside a loop body" % type(st).__name__)
            n = None
            if isinstance(st, ast.Assign) and len(st.targets) == 1 and isinstance(st.targets[0], ast.Name):
                n = st.targets[0].id
            if isinstance(st, ast.Expr) and isinstance(st.value, ast.Call) and isinstance(st.value.func, ast.Attribute) and st.value.func.attr == "append" \
                    and isinstance(st.value.func.value, ast.Name):
                n = st.value.func.value.id
            if n in env and n not in out:
                out.append(n)
        return out

    def stmts(self, body, env, fall):
        if not body:
            return fall(env)
        st, rest = body[0], body[1:]
        env = dict(env)
        if isinstance(st, ast.Expr) and isinstance(st.value, ast.Constant):
            return self.stmts(rest, env, fall)
        # attribute assignment ON a tracked object with an untracked value (simulation_result.simulation_setting = ...): irrelevant
        if isinstance(st, ast.Assign) and len(st.targets) == 1 and isinstance(st.targets[0], ast.Attribute) and not self.mentions(st.value, env):
            return self.stmts(rest, env, fall)
        if isinstance(st, ast.Assign) and len(st.targets) == 1 and isinstance(st.targets[0], ast.Name) and isinstance(st.value, ast.List) and not st.value.elts:
            env[st.targets[0].id] = ("[]", "lkey")       # a fresh list: may collect the data of the repetitions
            return self.stmts(rest, env, fall)
        if not self.mentions(st, env):
            if any(isinstance(x, (ast.Return, ast.Raise)) for x in ast.walk(st)):
                fail(st, "control flow in an untracked statement")
            # an untracked statement must not rebind a tracked variable
            return self.stmts(rest, env, fall)
        if isinstance(st, ast.Return) and st.value is not None:
            return self.value(st.value, env, lambda t, ty: "sret %s" % t if ty == self.spec["ret"] else fail(st, "returns %s, signature table says %s" % (ty, self.spec["ret"])))
        if isinstance(st, ast.Assign) and len(st.targets) == 1:
            tg = st.targets[0]
            names = [tg.id] if isinstance(tg, ast.Name) else ([x.id for x in tg.elts] if isinstance(tg, ast.Tuple) and all(isinstance(x, ast.Name) for x in tg.elts) else None)
            if names is None:
                fail(st, "assignment target")

            def bind(t, ty):
                if len(names) > 1 and ty != "key":
                    fail(st, "tuple unpacking of a %s" % ty)
                if t.replace("_", "").isalnum():      # already a variable: an alias, no new binding
                    for n_ in names:
                        env[n_] = (t, ty)
                    return self.stmts(rest, env, fall)
                v = self.fresh(names[-1])
                for n_ in names:
                    env[n_] = (v, ty)
                return "(let %s := %s in\n  %s)" % (v, t, self.stmts(rest, env, fall))
            return self.value(st.value, env, bind)
        if isinstance(st, ast.Expr) and isinstance(st.value, ast.Call) and isinstance(st.value.func, ast.Attribute) and st.value.func.attr == "append" \
                and isinstance(st.value.func.value, ast.Name) and st.value.func.value.id in env and len(st.value.args) == 1:
            n = st.value.func.value.id
            if env[n][1] != "lkey":
                fail(st, "append to a %s" % env[n][1])

            def app(t, ty):
                if ty != "key":
                    fail(st, "append of a %s" % ty)
                v = self.fresh(n)
                old = env[n][0]
                env[n] = (v, "lkey")
                return "(let %s := %s ++ [%s] in\n  %s)" % (v, old, t, self.stmts(rest, env, fall))
            return self.value(st.value.args[0], env, app)
        if isinstance(st, ast.If):
            c = self.test(st.test, env)
            if c is True or c is False:
                return self.stmts((st.body if c else st.orelse) + rest, env, fall)
            return "(if %s\n  then %s\n  else %s)" % (c, self.stmts(st.body + rest, env, fall), self.stmts(st.orelse + rest, env, fall))
        if isinstance(st, ast.For) and not st.orelse:
            it = st.iter
            if isinstance(it, ast.Call) and isinstance(it.func, ast.Name) and it.func.id == "tqdm" and len(it.args) == 1 and not it.keywords:
                it = it.args[0]       # progress bar
            if not (isinstance(it, ast.Call) and isinstance(it.func, ast.Name) and it.func.id == "range" and len(it.args) == 1 and not it.keywords
                    and isinstance(st.target, ast.Name)):
                fail(st, "only `for _ in [tqdm(]range(<n>)[)]` is supported")
            mod = self.rebound(st.body, env)
            if not mod:
                fail(st, "loop without effect on tracked variables")
            accs = [self.fresh(m) for m in mod]
            e2 = dict(env)
            for m, a in zip(mod, accs):
                e2[m] = (a, env[m][1])
            tup = lambda xs: xs[0] if len(xs) == 1 else "(%s)" % ", ".join(xs)
            body = self.stmts(st.body, e2, lambda e3: "sret %s" % tup([e3[m][0] for m in mod]))
            outs = [self.fresh(m) for m in mod]
            cur = tup([env[m][0] for m in mod])
            for m, o in zip(mod, outs):
                env[m] = (o, env[m][1])
            pat = accs[0] if len(accs) == 1 else "'%s" % tup(accs)
            pat2 = outs[0] if len(outs) == 1 else "'%s" % tup(outs)
            return self.value(it.args[0], env, lambda n_, tyn: "sbind (sloop %s (fun %s =>\n  %s) %s) (fun %s =>\n  %s)" % (
                n_, pat, body, cur, pat2, self.stmts(rest, env, fall)) if tyn == "nat" else fail(st, "range over a %s" % tyn))
        fail(st, "statement %s" % ast.unparse(st).splitlines()[0][:80])

    def translate(self):
        f = self.f
        pnames = [x.arg for x in f.args.args if x.arg != "self"]
        for p in self.spec["params"]:
            if p not in pnames:
                fail(f, "parameter %s not found" % p)
        self.spec["pnames"] = pnames
        env = {p: (p, ty) for p, ty in self.spec["params"].items()}
        binders = ["(%s : %s)" % (p, SCOQTY[ty]) for p, ty in self.spec["params"].items()]
        for _, (cn, ty) in self.spec.get("attrs", {}).items():
            binders.append("(%s : %s)" % (cn, SCOQTY[ty]))
        body = self.stmts(f.body, env, lambda e_: fail(f, "control reaches the end of the function without return"))
        return "Definition gen_%s %s : sm (%s) :=\n  %s.\n" % (self.spec.get("coq", self.spec["name"].strip("_")), " ".join(binders), SCOQTY[self.spec["ret"]], body)


# ====================================================================================================================
# spawn structure of the flow entry point: which stream does sample i get, and where does its result go?
FLOW = "quara/simulation/standard_qtomography_simulation_flow.py"


def spawn_section(repo):
    """execute_simulation_test_setting_unit: tracked values are the sample count (test_setting.n_sample), the object seed
    (test_setting.seed_qoperation), the SeedSequence made of it, the list of generators made of its spawned children, the list of task
    results.  Statements that mention none of them are dropped; anything else must be one of the forms below."""
    tree = ast.parse(open(os.path.join(repo, FLOW)).read())
    f = find_def(tree, dict(name="execute_simulation_test_setting_unit"))
    task = find_def(tree, dict(name="execute_simulation_sample_unit"))
    tparams = [a.arg for a in task.args.args]
    env = {}          # python name -> (coq term, type)
    ATTRS = {"test_setting.n_sample": ("n_sample", "nat"), "test_setting.seed_qoperation": ("seed_qoperation", "Z")}
    lets, ret = [], None

    def tracked(node):
        for x in ast.walk(node):
            if isinstance(x, ast.Name) and x.id in env:
                return True
            if isinstance(x, ast.Attribute) and ast.unparse(x) in ATTRS:
                return True
            if isinstance(x, ast.Call) and ast.unparse(x.func) in ("SeedSequence", "Generator", "MT19937", "joblib.Parallel", "joblib.delayed", "execute_simulation_sample_unit"):
                return True
        return False

    def val(e):
        u = ast.unparse(e)
        if u in ATTRS:
            return ATTRS[u]
        if isinstance(e, ast.Name) and e.id in env:
            return env[e.id]
        if isinstance(e, ast.Call) and u.startswith("SeedSequence(") and len(e.args) == 1 and not e.keywords:
            t, ty = val(e.args[0])
            if ty != "Z":
                fail(e, "SeedSequence of a %s" % ty)
            return t, "seedseq"
        # [Generator(MT19937(s)) for s in <seedseq>.spawn(<nat>)]
        if isinstance(e, ast.ListComp) and len(e.generators) == 1 and not e.generators[0].ifs and isinstance(e.generators[0].target, ast.Name):
            g = e.generators[0]
            v = g.target.id
            it = g.iter
            if ast.unparse(e.elt) == "Generator(MT19937(%s))" % v and isinstance(it, ast.Call) and isinstance(it.func, ast.Attribute) and it.func.attr == "spawn" \
                    and len(it.args) == 1 and not it.keywords:
                sq, tys = val(it.func.value)
                n, tyn = val(it.args[0])
                if tys != "seedseq" or tyn != "nat":
                    fail(e, "spawn of %s / %s" % (tys, tyn))
                return "(py_spawn_streams %s %s)" % (sq, n), "lstream"
        # joblib.Parallel(<untracked>)([joblib.delayed(execute_simulation_sample_unit)(..., i, ..., g, ...) for i, g in enumerate(<lstream>)])
        if isinstance(e, ast.Call) and isinstance(e.func, ast.Call) and ast.unparse(e.func.func) == "joblib.Parallel" and len(e.args) == 1 and not e.keywords \
                and not any(tracked(a) for a in e.func.args) and not any(tracked(k.value) for k in e.func.keywords) and isinstance(e.args[0], ast.ListComp):
            lc = e.args[0]
            g = lc.generators[0]
            if len(lc.generators) != 1 or g.ifs or not (isinstance(g.iter, ast.Call) and ast.unparse(g.iter.func) == "enumerate" and len(g.iter.args) == 1 and not g.iter.keywords
                                                        and isinstance(g.target, ast.Tuple) and len(g.target.elts) == 2 and all(isinstance(x, ast.Name) for x in g.target.elts)):
                fail(e, "task list must be a comprehension over enumerate(<generators>)")
            src, tys = val(g.iter.args[0])
            if tys != "lstream":
                fail(e, "enumerate over a %s" % tys)
            iv, gv = g.target.elts[0].id, g.target.elts[1].id
            c = lc.elt
            if not (isinstance(c, ast.Call) and isinstance(c.func, ast.Call) and ast.unparse(c.func.func) == "joblib.delayed" and len(c.func.args) == 1
                    and ast.unparse(c.func.args[0]) == "execute_simulation_sample_unit"):
                fail(e, "task must be joblib.delayed(execute_simulation_sample_unit)(...)")
            given = dict(zip(tparams, c.args))
            for kw in c.keywords:
                if kw.arg not in tparams or kw.arg in given:
                    fail(e, "task argument %s" % kw.arg)
                given[kw.arg] = kw.value
            for pn, a in given.items():
                uses = {x.id for x in ast.walk(a) if isinstance(x, ast.Name)} & {iv, gv}
                want = {"sample_index": {iv}, "stream_qoperation": {gv}}.get(pn, set())
                if uses != want or (want and not isinstance(a, ast.Name)):
                    fail(e, "task parameter %s receives %s" % (pn, ast.unparse(a)))
                if pn not in ("sample_index", "stream_qoperation") and tracked(a):
                    fail(e, "tracked value in task parameter %s" % pn)
            if "sample_index" not in given or "stream_qoperation" not in given:
                fail(e, "the task is not handed its sample index and its generator")
            return "(py_parallel_enumerate sample_task %s)" % src, "llres"
        if u.startswith("list(itertools.chain.from_iterable(") and isinstance(e, ast.Call) and len(e.args) == 1 and len(e.args[0].args) == 1:
            t, ty = val(e.args[0].args[0])
            if ty != "llres":
                fail(e, "chain.from_iterable of a %s" % ty)
            return "(concat %s)" % t, "lres"
        if isinstance(e, ast.List) and not e.elts:
            return "(@nil R)", "lres"
        fail(e, "tracked expression %s" % u[:80])

    n = 0
    for st in f.body:
        if isinstance(st, ast.Expr) and isinstance(st.value, ast.Constant):
            continue
        if isinstance(st, ast.Return):
            t, ty = val(st.value)
            if ty != "lres":
                fail(st, "returns a %s" % ty)
            ret = t
            break
        if isinstance(st, ast.Assign) and len(st.targets) == 1 and isinstance(st.targets[0], ast.Name) and (tracked(st.value) or (isinstance(st.value, ast.List) and not st.value.elts)):
            t, ty = val(st.value)
            n += 1
            v = "%s_%d" % (st.targets[0].id, n)
            lets.append("let %s := %s in" % (v, t))
            env[st.targets[0].id] = (v, ty)
            continue
        if tracked(st) and not (isinstance(st, ast.Expr) and isinstance(st.value, ast.Call) and ast.unparse(st.value.func).startswith("write_result")):
            if isinstance(st, ast.Assign) and any(isinstance(x, ast.Name) and x.id in env for t_ in st.targets for x in ast.walk(t_)):
                fail(st, "rebinding of a tracked variable by an unsupported statement")
            if any(isinstance(x, ast.Name) and x.id in env and env[x.id][1] != "lres" for x in ast.walk(st)):
                fail(st, "unsupported statement on tracked values: %s" % ast.unparse(st)[:80])
        if any(isinstance(x, (ast.Return, ast.Raise)) for x in ast.walk(st)):
            fail(st, "control flow in an untracked statement")
        for t_ in (st.targets if isinstance(st, ast.Assign) else []):
            for x in ast.walk(t_):
                if isinstance(x, ast.Name) and x.id in env:
                    fail(st, "untracked statement rebinds %s" % x.id)
    if ret is None:
        fail(f, "no return")
    return ("Section GenSpawn.\nVariable R : Type.\n(* execute_simulation_sample_unit as a function of the sample index and the generator it is handed *)\n"
            "Variable sample_task : nat -> key -> list R.\n\n(* %s : execute_simulation_test_setting_unit, lines %d-%d *)\n"
            "Definition gen_execute_simulation_test_setting_unit (seed_qoperation : Z) (n_sample : nat) : list R :=\n  %s\n  %s.\nEnd GenSpawn.\n"
            % (FLOW, f.lineno, f.end_lineno, "\n  ".join(lets), ret))


# ====================================================================================================================
# execute_estimation: which estimator / loss / algo OBJECT does every repetition's task receive?
def estimation_section(repo):
    """The function must contain exactly one joblib.Parallel(<...>)([joblib.delayed(_execute_estimation)(<args>) for <v> in
    empi_dists_sequences]) ; the arguments bound to the parameters estimator / loss / algo of _execute_estimation must be either
    simulation_setting.<name> (the shared object) or copy.deepcopy(simulation_setting.<name>) (a copy made per task, because the
    expression is evaluated once per element of the comprehension); the data parameter must receive the loop variable."""
    tree = ast.parse(open(os.path.join(repo, SIM)).read())
    f = find_def(tree, dict(name="execute_estimation"))
    task = find_def(tree, dict(name="_execute_estimation"))
    tparams = [a.arg for a in task.args.args]
    calls = [x for x in ast.walk(f) if isinstance(x, ast.Call) and isinstance(x.func, ast.Call) and ast.unparse(x.func.func) == "joblib.Parallel"]
    if len(calls) != 1 or len(calls[0].args) != 1 or not isinstance(calls[0].args[0], ast.ListComp):
        fail(f, "expected exactly one joblib.Parallel(...)([... for ... in ...])")
    lc = calls[0].args[0]
    g = lc.generators[0]
    if len(lc.generators) != 1 or g.ifs or not isinstance(g.target, ast.Name) or ast.unparse(g.iter) != "empi_dists_sequences":
        fail(lc, "task list must be a comprehension over empi_dists_sequences")
    c = lc.elt
    if not (isinstance(c, ast.Call) and isinstance(c.func, ast.Call) and ast.unparse(c.func.func) == "joblib.delayed" and len(c.func.args) == 1
            and ast.unparse(c.func.args[0]) == "_execute_estimation"):
        fail(lc, "task must be joblib.delayed(_execute_estimation)(...)")
    given = dict(zip(tparams, c.args))
    for kw in c.keywords:
        if kw.arg not in tparams or kw.arg in given:
            fail(c, "task argument %s" % kw.arg)
        given[kw.arg] = kw.value
    if ast.unparse(given.get("empi_dists_seq", ast.Constant(None))) != g.target.id:
        fail(c, "the task is not handed its own empirical distributions")
    refs = {}
    for name in ("estimator", "loss", "algo"):
        a = given.get(name)
        u = ast.unparse(a) if a is not None else None
        if u == "simulation_setting.%s" % name:
            refs[name] = "OShared"
        elif u == "copy.deepcopy(simulation_setting.%s)" % name:
            refs[name] = "OFresh"
        else:
            fail(c, "argument for %s: %s" % (name, u))
    # no other statement of the function may touch the three objects
    for st in f.body:
        if any(x is calls[0] for x in ast.walk(st)):
            continue
        for x in ast.walk(st):
            if isinstance(x, ast.Attribute) and ast.unparse(x) in ("simulation_setting.estimator", "simulation_setting.loss", "simulation_setting.algo"):
                fail(st, "the setting's estimator / loss / algo are used outside the task list")
    return ("(* %s : execute_estimation, lines %d-%d: the objects handed to every repetition's task *)\n"
            "Definition gen_execute_estimation_task : est_task := {| t_estimator := %s; t_loss := %s; t_algo := %s |}.\n"
            "Definition gen_execute_estimation_tasks (n_rep : nat) : list est_task := repeat gen_execute_estimation_task n_rep.\n"
            % (SIM, f.lineno, f.end_lineno, refs["estimator"], refs["loss"], refs["algo"]))


def find_def(tree, spec):
    scope = tree.body
    if spec.get("cls"):
        cl = [c for c in tree.body if isinstance(c, ast.ClassDef) and c.name == spec["cls"]]
        if len(cl) != 1:
            raise Unsupported("class %s not found" % spec["cls"])
        scope = cl[0].body
    fd = [f for f in scope if isinstance(f, ast.FunctionDef) and f.name == spec["name"]]
    if len(fd) != 1:
        raise Unsupported("function %s: %d definitions" % (spec["name"], len(fd)))
    return fd[0]


def stream_section(repo):
    trees, done, text = {}, {}, []
    for spec in STREAM_FUNCS:
        if spec["file"] not in trees:
            trees[spec["file"]] = ast.parse(open(os.path.join(repo, spec["file"])).read())
        fd = find_def(trees[spec["file"]], spec)
        for hn, want in spec.get("checked", {}).items():
            got = ast.unparse(find_def(trees[spec["file"]], dict(name=hn)))
            if got != want:
                raise Unsupported("helper %s is not the checked primitive:\n%s" % (hn, got))
        if spec["name"] == "_generate_empi_dists_and_calc_estimate":
            text.append("(* the tomography object's generate_empi_dists_sequence: any of the four methods above (coq/gen/C15_Equiv.v proves them equal) *)\n"
                        "Variable tomo_generate : sval -> sm key.\n")
        text.append("(* %s : %s%s, lines %d-%d *)\n%s" % (spec["file"], spec.get("cls", "") + "." if spec.get("cls") else "", spec["name"], fd.lineno, fd.end_lineno,
                                                          StreamFn(spec, fd, done).translate()))
        if not spec.get("cls"):
            done[spec["name"]] = spec
    return ("Section GenStream.\n(* the Generator object the caller passed in, if any: (root, spawn path, position) *)\nVariable origin : Z * list nat * nat.\n\n"
            + "\n".join(text) + "\nEnd GenStream.\n")


def module_names(tree):
    names = {}
    for st in tree.body:
        if isinstance(st, ast.ImportFrom) and st.module and st.level == 0:
            for al in st.names:
                names[al.asname or al.name] = st.module + "." + al.name
        if isinstance(st, ast.Import):
            for al in st.names:
                names[al.asname or al.name.split(".")[0]] = al.name
    return names


def check_globals(tree):
    seen = {}
    for st in tree.body:
        if isinstance(st, ast.Assign) and len(st.targets) == 1 and isinstance(st.targets[0], ast.Name) and st.targets[0].id in GLOBALS:
            if st.targets[0].id in seen:
                raise Unsupported("module constant %s assigned twice" % st.targets[0].id)
            seen[st.targets[0].id] = ast.unparse(st.value)
    for n, (_, want) in GLOBALS.items():
        if seen.get(n) != want:
            raise Unsupported("module constant %s = %s, expected %s" % (n, seen.get(n), want))
    # the only functions allowed to assign them are the documented setters of the inequality threshold
    for st in ast.walk(tree):
        if isinstance(st, ast.Global) and any(n in GLOBALS for n in st.names):
            fn = [f for f in tree.body if isinstance(f, ast.FunctionDef) and st in ast.walk(f)]
            if [f.name for f in fn] != ["set_ineq_const_eps"]:
                raise Unsupported("module constants are assigned in %s" % [f.name for f in fn])


def main(repo, out):
    trees, done, text = {}, {}, []
    for spec in FUNCS:
        if spec["file"] not in trees:
            trees[spec["file"]] = ast.parse(open(os.path.join(repo, spec["file"])).read())
            if spec["file"] == PVC:
                check_globals(trees[spec["file"]])
        tree = trees[spec["file"]]
        scope = tree.body
        if spec.get("cls"):
            cl = [c for c in tree.body if isinstance(c, ast.ClassDef) and c.name == spec["cls"]]
            if len(cl) != 1:
                raise Unsupported("class %s not found" % spec["cls"])
            scope = cl[0].body
        fd = [f for f in scope if isinstance(f, ast.FunctionDef) and f.name == spec["name"]]
        if len(fd) != 1:
            raise Unsupported("function %s: %d definitions" % (spec["name"], len(fd)))
        if spec.get("cls"):
            spec["_class"] = cl[0]
        text.append("(* %s : %s%s, lines %d-%d *)\n%s" % (spec["file"], spec.get("cls", "") + "." if spec.get("cls") else "", spec["name"], fd[0].lineno, fd[0].end_lineno,
                                                          Fn(spec, fd[0], module_names(tree), done).translate()))
        if not spec.get("cls") or spec["name"] == "execute_physicality_violation_check":
            done.setdefault(spec["name"], spec)
    with open(out, "w") as f:
        f.write("(* GENERATED by gen/c15_py2coq.py from the current quara source - do not edit *)\n"
                "From Coq Require Import List Arith Bool.\nFrom QV.Core Require Import OF Sums Mat.\nFrom QV.Model Require Import QObj C15_PhysCheck C15_PySem.\n"
                "From Coq Require Import ZArith.\nFrom QV.Model Require Import C15_Dataflow.\n"
                "Import ListNotations.\n\nSection Gen.\nContext (F : OF).\nVariable th : thresholds F.\n\n" + "\n".join(text) + "\nEnd Gen.\n\n"
                + stream_section(repo) + "\n" + spawn_section(repo) + "\n" + estimation_section(repo))


if __name__ == "__main__":
    try:
        main(sys.argv[1], sys.argv[2])
    except Unsupported as e:
        print("UNSUPPORTED: %s" % e)
        sys.exit(3)
