#!/usr/bin/env python3
"""Fail-closed translator for the probability-bookkeeping code of quara (property C16): Python `ast` -> Gallina over the
vocabulary of coq/theories/Model/C16_PySem.v (exception monad `pyres`, `pbind`, `pfor`, Python index rules, the assumed
NumPy primitives).

Translated on every run from the CURRENT source (usage: c16_py2coq.py <repo> <out.v>):
  quara/math/probability.py                    validate_prob_dist
  quara/objects/multinomial_distribution.py    MultinomialDistribution.__init__ / __getitem__ / marginalize
  quara/objects/state_ensemble.py              StateEnsemble.state
coq/gen/C16_MdEquiv.v then re-proves that the regenerated definitions agree with the hand-written model.

Accepted subset (anything else raises Unsupported -> the tie is reported broken, never silently skipped):
  statements   docstring; `x = e`; `self._attr = e` (constructor only); `x[i] = e`; `s.remove(e)`; calls of the translated
               functions; `print(...)` (no effect on values); `raise Name(<message>)`; `return e`;
               `if`/`elif`/`else` (also `if x is None`, `if type(x) == int|tuple` dispatch on a dynamically typed index);
               `if type(x) == list: x = np.array(x)` (no-op on the model's lists); `if x == None: x = <default>`;
               `for pat in <list> | enumerate(<list>)` whose body assigns existing variables / raises (no return/break);
               an array may be mutated inside a loop over itself only as `a[i] = e` with i the enumerate counter.
  expressions  names, int constants, the float constants 0.0 1.0 1e-8 (1e-8 is the model PARAMETER c_1e_8), True/False/None,
               len, comparisons, and/or/not on effect-free operands, `x if x else c` (truthiness of an optional float),
               1-tuples of ints, attribute reads of the modelled objects (properties are checked to be plain getters),
               np.sum, np.isclose(.., atol=e, rtol=0.0), v / s, reduce(mul, shape), set(range(n)), tuple()/list(),
               v.reshape(shape), np.sum(a, axis=..), a.flatten(), a.shape, x[i], index_serial_from_index_multi_dimensional.
  messages     str constants, names, f-strings over names / len(name) / type(name) / attribute reads, `+` of those — effect-free
               expressions that cannot raise.
Aliasing: `a = b` of lists followed by `a[i] = e` makes every other alias stale; reading a stale name is rejected.
"""
import ast, sys, os


class Unsupported(Exception):
    pass


def fail(node, msg):
    raise Unsupported("%s (line %s): %s" % (type(node).__name__, getattr(node, "lineno", "?"), msg))


FLOATS = {0.0: "(c0 F)", 1.0: "(c1 F)", 1e-8: "c_1e_8"}

# objects: class -> (coq record type tag, {attribute: (type, projection)})
OBJ = {
    "md": {"_ps": ("list:F", "md_ps F"), "_shape": ("list:Z", "md_shape F"), "_eps_zero": ("F", "md_eps_zero F"), "_is_zero_dist": ("bool", "md_is_zero_dist F")},
    "ens": {"_states": ("list:St", "ens_states"), "_prob_dist": ("md", "ens_prob_dist"), "_eps_zero": ("F", "ens_eps_zero")},
    "pd": {"_ps": ("list:F", "pd_ps F"), "_shape": ("opt:list:Z", "pd_shape F")},
    "mp": {"_shape": ("list:Z", "mp_shape F"), "_eps_zero": ("F", "mp_eps_zero F"), "_mode_sampling": ("bool", "mp_mode_sampling F")},
}
CLASS_TAG = {"MultinomialDistribution": "md", "StateEnsemble": "ens", "MProcess": "mp", "ProbDist": "pd"}
MK = {"md": "mk_md F", "ens": "mk_ens"}
# classes whose read-only properties are used although none of their methods is translated: (file, class)
EXTRA_CLASSES = [("quara/objects/mprocess.py", "MProcess")]
# oracles: functions / methods that are NOT translated; they are parameters of the generated section
#   _compose_qoperations_MProcess_State_for_States(elem1, state, weight) -> (states, ps)      meas : St -> F -> pyres (list St * list F)
#   <state>.generate_zero_obj()                                                              zero_obj : St -> St

FUNCS = [
    dict(key="validate_prob_dist", file="quara/math/probability.py", cls=None, name="validate_prob_dist", coq="gen_validate_prob_dist",
         params=[("prob_dist", "list:F"), ("eps", "opt:F"), ("validate_sum", "bool"), ("raise_error", "bool"), ("message", "str")], ret="unit"),
    dict(key="MultinomialDistribution", file="quara/objects/multinomial_distribution.py", cls="MultinomialDistribution", name="__init__", coq="gen_md_init",
         params=[("ps", "list:F"), ("shape", "opt:list:Z"), ("eps_zero", "opt:F")], ret="md", ctor="md"),
    dict(key="md.__getitem__", file="quara/objects/multinomial_distribution.py", cls="MultinomialDistribution", name="__getitem__", coq="gen_md_getitem",
         params=[("idx", "idx")], ret="F", self="md"),
    dict(key="md.marginalize", file="quara/objects/multinomial_distribution.py", cls="MultinomialDistribution", name="marginalize", coq="gen_md_marginalize",
         params=[("outcome_indices_remain", "list:Z")], ret="md", self="md"),
    dict(key="md.conditionalize", file="quara/objects/multinomial_distribution.py", cls="MultinomialDistribution", name="conditionalize", coq="gen_md_conditionalize",
         params=[("conditional_variable_indices", "list:Z"), ("conditional_variable_values", "list:Z")], ret="md", self="md",
         locals={"ix_args": "list:list:bool"}),
    dict(key="pd.__getitem__", file="quara/objects/prob_dist.py", cls="ProbDist", name="__getitem__", coq="gen_pd_getitem",
         params=[("idx", "idx")], ret="nd", self="pd"),
    dict(key="ens.state", file="quara/objects/state_ensemble.py", cls="StateEnsemble", name="state", coq="gen_ens_state",
         params=[("outcome", "idx")], ret="St", self="ens"),
    dict(key="StateEnsemble", file="quara/objects/state_ensemble.py", cls="StateEnsemble", name="__init__", coq="gen_ens_init",
         params=[("states", "list:St"), ("prob_dist", "md"), ("eps_zero", "F")], ret="ens", ctor="ens"),
    dict(key="_compose_qoperations_MProcess_State", file="quara/objects/operators.py", cls=None, name="_compose_qoperations_MProcess_State",
         coq="gen_compose_mprocess_state", params=[("elem1", "mp"), ("elem2", "St")], ret="ens", opaque_if="elem1.mode_sampling"),
    dict(key="_compose_qoperations_MProcess_StateEnsemble", file="quara/objects/operators.py", cls=None, name="_compose_qoperations_MProcess_StateEnsemble",
         coq="gen_compose_mprocess_ensemble", params=[("elem1", "mp"), ("elem2", "ens")], ret="ens",
         locals={"states": "list:St", "ps": "list:F"}, opaque_if="elem1.mode_sampling"),
]


def coq_type(t):
    if t in ("Z", "bool"):
        return t
    if t == "F":
        return "F"
    if t == "unit":
        return "unit"
    if t == "St":
        return "St"
    if t == "md":
        return "(md F)"
    if t == "ens":
        return "(ensemble F St)"
    if t == "mp":
        return "(mproc F)"
    if t == "pd":
        return "(probdist F)"
    if t == "nd":
        return "(ndarray F)"
    if t == "idx":
        return "index_arg"
    if t == "ix":
        return "(list (list bool))"
    if t.startswith("list:"):
        return "(list %s)" % coq_type(t[5:])
    if t.startswith("opt:"):
        return "(option %s)" % coq_type(t[4:])
    raise Unsupported("type " + t)


def find_def(tree, cls, name):
    body = tree.body
    if cls is not None:
        cs = [n for n in tree.body if isinstance(n, ast.ClassDef) and n.name == cls]
        if len(cs) != 1:
            raise Unsupported("class %s not found exactly once" % cls)
        body = cs[0].body
    fs = [n for n in body if isinstance(n, ast.FunctionDef) and n.name == name]
    if len(fs) != 1:
        raise Unsupported("function %s.%s not found exactly once" % (cls, name))
    return fs[0], (cs[0] if cls is not None else None)


def is_doc(s):
    return isinstance(s, ast.Expr) and isinstance(s.value, ast.Constant) and isinstance(s.value.value, str)


RESERVED = {"len", "np", "reduce", "mul", "set", "range", "tuple", "list", "type", "enumerate", "print", "zip", "reversed", "self",
            "validate_prob_dist", "MultinomialDistribution", "index_serial_from_index_multi_dimensional", "int", "float", "bool", "str"}


def check_getters(cdef, tag):
    """every read-only property x of the class must be `return self._x` — then self.x and self._x are the same value"""
    ok = set()
    for n in cdef.body:
        if isinstance(n, ast.FunctionDef) and n.name in ("__setattr__", "__getattr__", "__getattribute__", "__delattr__"):
            raise Unsupported("%s customises attribute access (%s)" % (cdef.name, n.name))
        if isinstance(n, ast.Assign) and any(isinstance(t, ast.Name) and t.id == "__slots__" or (isinstance(t, ast.Name) and ("_" + t.id) in OBJ[tag]) for t in n.targets):
            raise Unsupported("%s: class-level binding of a modelled attribute" % cdef.name)
    for n in cdef.body:
        if isinstance(n, ast.FunctionDef) and ("_" + n.name) in OBJ[tag]:
            body = [s for s in n.body if not is_doc(s)]
            decos = [ast.unparse(d) for d in n.decorator_list]
            if decos == ["property"] and [a.arg for a in n.args.args] == ["self"] and len(body) == 1 and isinstance(body[0], ast.Return) \
                    and ast.unparse(body[0].value) == "self._" + n.name:
                ok.add(n.name)
            else:
                raise Unsupported("%s.%s is not a plain getter of self._%s" % (cdef.name, n.name, n.name))
        elif isinstance(n, ast.FunctionDef) and any("setter" in ast.unparse(d) for d in n.decorator_list):
            raise Unsupported("%s has a property setter (%s)" % (cdef.name, n.name))
    return ok


class Fn:
    def __init__(self, spec, fdef, cdef, sigs, getters, modstrs=()):
        self.spec, self.f, self.cdef, self.sigs, self.getters = spec, fdef, cdef, sigs, getters
        self.modstrs = set(modstrs)       # module-level names bound to str constants (usable in messages only)
        self.ntmp = 0
        self.ret = spec["ret"]
        self.ctor = spec.get("ctor")
        self.selftag = spec.get("self")
        self.alias = {}      # name -> set of names sharing one mutable list
        self.stale = set()

    # ------------------------------------------------------------------ helpers
    def tmp(self):
        self.ntmp += 1
        return "t%d_" % self.ntmp

    def lookup(self, env, name, node):
        if name in self.stale:
            fail(node, "read of %s after an alias of it was mutated" % name)
        if name not in env:
            fail(node, "unknown variable %s" % name)
        return env[name]

    def attr_chain(self, e, env):
        """self._x / self.x / self.a.b  ->  (coq, type) ; None when e is not such a chain"""
        if not isinstance(e, ast.Attribute):
            return None
        if isinstance(e.value, ast.Name) and e.value.id == "self":
            tag = self.ctor or self.selftag
            if tag is None:
                fail(e, "self outside a method")
            a = e.attr if e.attr.startswith("_") else "_" + e.attr
            if not e.attr.startswith("_") and e.attr not in self.getters[tag]:
                fail(e, "attribute %s is not a checked getter" % e.attr)
            if a not in OBJ[tag]:
                fail(e, "unknown attribute %s" % e.attr)
            if self.ctor:
                key = "self." + a
                return self.lookup(env, key, e)
            if ("self." + a) in getattr(self, "attr_refined", {}):
                return self.attr_refined["self." + a]
            t, proj = OBJ[tag][a]
            return "(%s v_self)" % proj, t
        inner = self.attr_chain(e.value, env)
        if inner is None and isinstance(e.value, ast.Name) and e.value.id in env and env[e.value.id][1] in OBJ:
            inner = self.lookup(env, e.value.id, e)
        if inner is not None and inner[1] in OBJ:
            tag = inner[1]
            a = e.attr if e.attr.startswith("_") else "_" + e.attr
            if not e.attr.startswith("_") and e.attr not in self.getters[tag]:
                fail(e, "attribute %s is not a checked getter" % e.attr)
            if a not in OBJ[tag]:
                fail(e, "unknown attribute %s" % e.attr)
            t, proj = OBJ[tag][a]
            return "(%s %s)" % (proj, inner[0]), t
        return None

    # ------------------------------------------------------------------ expressions
    # expr(e, env, binds, hint) -> (coq, type).  May-raise sub-expressions are appended to binds as (tmp, monadic text) in
    # evaluation order and replaced by the temporary.
    def expr(self, e, env, binds, hint=None):
        if isinstance(e, ast.Constant):
            v = e.value
            if v is None:
                return "None", "opt:?"
            if isinstance(v, bool):
                return ("true" if v else "false"), "bool"
            if isinstance(v, int):
                if hint == "F":
                    if float(v) in FLOATS and v in (0, 1):
                        return FLOATS[float(v)], "F"
                    fail(e, "int constant %r in a float context" % v)
                return "(%d)" % v, "Z"
            if isinstance(v, float):
                if v in FLOATS:
                    return FLOATS[v], "F"
                fail(e, "float constant %r" % v)
            fail(e, "constant %r" % (v,))
        if isinstance(e, ast.Name):
            return self.lookup(env, e.id, e)
        ch = self.attr_chain(e, env)
        if ch is not None:
            return ch
        if isinstance(e, ast.Attribute) and e.attr == "size":
            a, ta = self.expr(e.value, env, binds)
            if ta == "list:F":
                return "(py_len %s)" % a, "Z"                    # ndarray.size of a 1-d array
            fail(e, ".size of %s" % ta)
        if isinstance(e, ast.Attribute) and e.attr == "shape":
            a, ta = self.expr(e.value, env, binds)
            if ta == "nd":
                return "(nd_shape F %s)" % a, "list:Z"
            fail(e, ".shape of %s" % ta)
        if isinstance(e, ast.Tuple):
            parts = [self.expr(x, env, binds) for x in e.elts]
            if parts and all(t == "Z" for _, t in parts):
                return "[" + "; ".join(p for p, _ in parts) + "]", "list:Z"
            fail(e, "tuple literal")
        if isinstance(e, ast.UnaryOp):
            if isinstance(e.op, ast.Not):
                a, ta = self.expr(e.operand, env, binds)
                if ta != "bool":
                    fail(e, "not on %s" % ta)
                return "(negb %s)" % a, "bool"
            if isinstance(e.op, ast.USub) and isinstance(e.operand, ast.Constant) and type(e.operand.value) is int:
                return "(-%d)" % e.operand.value, "Z"
            fail(e, "unary operator")
        if isinstance(e, ast.BoolOp):
            n0 = len(binds)
            parts = [self.expr(v, env, binds) for v in e.values]
            if len(binds) != n0:
                fail(e, "and/or with an operand that may raise")
            if any(t != "bool" for _, t in parts):
                fail(e, "and/or on non-bool")
            op = " && " if isinstance(e.op, ast.And) else " || "
            return "(" + op.join(p for p, _ in parts) + ")", "bool"
        if isinstance(e, ast.IfExp):
            n0 = len(binds)
            # x if x else c : truthiness of an optional float (None and 0.0 are falsy)
            if isinstance(e.test, ast.Name) and isinstance(e.body, ast.Name) and e.body.id == e.test.id:
                x, tx = self.lookup(env, e.test.id, e)
                c, tc = self.expr(e.orelse, env, binds, hint="F")
                if tx == "opt:F" and tc == "F" and len(binds) == n0:
                    return "(match %s with None => %s | Some x_ => if f_is_zero F x_ then %s else x_ end)" % (x, c, c), "F"
            fail(e, "conditional expression %s" % ast.unparse(e))
        if isinstance(e, ast.Compare):
            return self.compare(e, env, binds)
        if isinstance(e, ast.BinOp) and isinstance(e.op, ast.Mult) and isinstance(e.left, ast.List) and len(e.left.elts) == 1 \
                and isinstance(e.left.elts[0], ast.Constant) and type(e.left.elts[0].value) is float and e.left.elts[0].value in FLOATS:
            n_, tn = self.expr(e.right, env, binds)          # [c] * n  (n <= 0 gives the empty list)
            if tn != "Z":
                fail(e, "list repetition count of type %s" % tn)
            return "(repeat %s (Z.to_nat %s))" % (FLOATS[e.left.elts[0].value], n_), "list:F"
        if isinstance(e, ast.BinOp) and isinstance(e.op, ast.Mult) and isinstance(e.left, ast.List) and len(e.left.elts) == 1 \
                and isinstance(e.left.elts[0], ast.Constant) and type(e.left.elts[0].value) is bool:
            n_, tn = self.expr(e.right, env, binds)          # [True] * n / [False] * n
            if tn != "Z":
                fail(e, "list repetition count of type %s" % tn)
            return "(repeat %s (Z.to_nat %s))" % ("true" if e.left.elts[0].value else "false", n_), "list:bool"
        if isinstance(e, ast.BinOp):
            a, ta = self.expr(e.left, env, binds)
            b, tb = self.expr(e.right, env, binds, hint="F" if ta in ("F", "list:F") else None)
            if isinstance(e.op, ast.Div) and ta == "list:F" and tb == "F":
                return "(np_div F %s %s)" % (a, b), "list:F"
            if isinstance(e.op, ast.Add) and ta == "list:Z" and tb == "list:Z":
                return "(%s ++ %s)" % (a, b), "list:Z"          # tuple + tuple
            if ta == "Z" and tb == "Z" and type(e.op) in (ast.Add, ast.Sub, ast.Mult):
                return "(%s %s %s)" % (a, {ast.Add: "+", ast.Sub: "-", ast.Mult: "*"}[type(e.op)], b), "Z"
            fail(e, "binary operator on %s, %s" % (ta, tb))
        if isinstance(e, ast.Subscript):
            a, ta = self.expr(e.value, env, binds)
            i, ti = self.expr(e.slice, env, binds)
            if ta == "nd" and ti == "Z":
                t = self.tmp()
                binds.append((t, "(nd_getitem F %s %s)" % (a, i)))
                return t, "nd"
            if ta == "nd" and ti == "ix":
                return "(nd_ix_select F %s %s)" % (a, i), "nd"
            if ta == "list:Z" and ti == "list:bool":
                return "(np_mask_select %s %s)" % (a, i), "list:Z"
            if ta.startswith("list:") and ti == "Z":
                t = self.tmp()
                binds.append((t, "(py_getitem %s %s)" % (a, i)))
                return t, ta[5:]
            fail(e, "subscript %s[%s]" % (ta, ti))
        if isinstance(e, ast.Call):
            return self.call(e, env, binds)
        fail(e, "expression %s" % ast.unparse(e))

    def compare(self, e, env, binds):
        if len(e.ops) != 1:
            fail(e, "chained comparison")
        op, l, r = e.ops[0], e.left, e.comparators[0]
        # x == None / x is None / x is not None
        if isinstance(r, ast.Constant) and r.value is None:
            a, ta = self.expr(l, env, binds)
            if not ta.startswith("opt:"):
                fail(e, "None test on %s" % ta)
            t = "(match %s with None => true | Some _ => false end)" % a
            if isinstance(op, (ast.Is, ast.Eq)):
                return t, "bool"
            if isinstance(op, (ast.IsNot, ast.NotEq)):
                return "(negb %s)" % t, "bool"
            fail(e, "None comparison")
        # b == True / b == False / b is True
        if isinstance(r, ast.Constant) and isinstance(r.value, bool):
            a, ta = self.expr(l, env, binds)
            if ta != "bool" or not isinstance(op, (ast.Eq, ast.Is)):
                fail(e, "comparison with a bool constant")
            return (a if r.value else "(negb %s)" % a), "bool"
        a, ta = self.expr(l, env, binds)
        b, tb = self.expr(r, env, binds, hint="F" if ta == "F" else None)
        if ta == "F" and tb == "F":
            m = {ast.Lt: "(f_lt F %s %s)" % (a, b), ast.LtE: "(f_le F %s %s)" % (a, b), ast.Gt: "(f_lt F %s %s)" % (b, a), ast.GtE: "(f_le F %s %s)" % (b, a)}
            if type(op) not in m:
                fail(e, "float comparison operator")
            return m[type(op)], "bool"
        if ta == "Z" and tb == "Z":
            m = {ast.Eq: "(%s =? %s)", ast.NotEq: "(negb (%s =? %s))", ast.Lt: "(%s <? %s)", ast.LtE: "(%s <=? %s)"}
            if type(op) in m:
                return m[type(op)] % (a, b), "bool"
            if isinstance(op, ast.Gt):
                return "(%s <? %s)" % (b, a), "bool"
            if isinstance(op, ast.GtE):
                return "(%s <=? %s)" % (b, a), "bool"
        fail(e, "comparison of %s with %s" % (ta, tb))

    def call(self, e, env, binds):
        fn = ast.unparse(e.func)
        kws = {k.arg: k.value for k in e.keywords}
        if None in kws:
            fail(e, "**kwargs")
        if fn == "len" and len(e.args) == 1 and not kws:
            a, ta = self.expr(e.args[0], env, binds)
            if not ta.startswith("list:"):
                fail(e, "len of %s" % ta)
            return "(py_len %s)" % a, "Z"
        if fn in ("tuple", "list") and len(e.args) == 1 and not kws:
            a, ta = self.expr(e.args[0], env, binds)
            if ta != "list:Z":
                fail(e, "%s() of %s" % (fn, ta))
            return a, ta
        if fn == "set" and len(e.args) == 1 and not kws and isinstance(e.args[0], ast.Call) and ast.unparse(e.args[0].func) == "range" \
                and len(e.args[0].args) == 1 and not e.args[0].keywords:
            a, ta = self.expr(e.args[0].args[0], env, binds)
            if ta != "Z":
                fail(e, "range of %s" % ta)
            return "(py_set_range %s)" % a, "list:Z"
        if fn == "np.ix_" and len(e.args) == 1 and isinstance(e.args[0], ast.Starred) and not kws:
            a, ta = self.expr(e.args[0].value, env, binds)
            if ta != "list:list:bool":
                fail(e, "np.ix_ of %s" % ta)
            return a, "ix"
        if fn == "np.array" and len(e.args) == 1 and not kws:
            a, ta = self.expr(e.args[0], env, binds)
            if ta not in ("list:Z", "list:F"):
                fail(e, "np.array of %s" % ta)
            return a, ta                    # a copy: same value, no aliasing with the argument (the result of a call is never an alias)
        if fn == "max" and len(e.args) == 2 and not kws:
            a, ta = self.expr(e.args[0], env, binds, hint="F")
            b, tb = self.expr(e.args[1], env, binds, hint="F")
            if (ta, tb) != ("F", "F"):
                fail(e, "max of %s, %s" % (ta, tb))
            return "(if f_lt F %s %s then %s else %s)" % (a, b, b, a), "F"      # max(a, b) is b only when b > a
        if fn == "np.array" and len(e.args) == 1 and set(kws) == {"dtype"} and ast.unparse(kws["dtype"]) == "np.float64":
            a, ta = self.expr(e.args[0], env, binds)
            if ta != "list:F":
                fail(e, "np.array of %s" % ta)
            return a, "list:F"
        if isinstance(e.func, ast.Attribute) and e.func.attr == "generate_zero_obj" and not e.args and not kws:
            a, ta = self.expr(e.func.value, env, binds)
            if ta != "St":
                fail(e, "generate_zero_obj of %s" % ta)
            return "(zero_obj %s)" % a, "St"
        if fn == "np.sum" and len(e.args) == 1:
            a, ta = self.expr(e.args[0], env, binds)
            if ta == "list:F" and not kws:
                return "(np_sum F %s)" % a, "F"
            if ta == "nd" and not kws:
                return "(np_sum_all F %s)" % a, "F"
            if ta == "nd" and set(kws) == {"axis"}:
                x, tx = self.expr(kws["axis"], env, binds)
                if tx != "list:Z":
                    fail(e, "axis of type %s" % tx)
                return "(np_sum_axis F %s %s)" % (a, x), "nd"
            fail(e, "np.sum of %s" % ta)
        if fn == "np.isclose" and len(e.args) == 2 and set(kws) == {"atol", "rtol"}:
            if not (isinstance(kws["rtol"], ast.Constant) and type(kws["rtol"].value) is float and kws["rtol"].value == 0.0):
                fail(e, "np.isclose needs rtol=0.0")
            a, ta = self.expr(e.args[0], env, binds, hint="F")
            b, tb = self.expr(e.args[1], env, binds, hint="F")
            c, tc = self.expr(kws["atol"], env, binds, hint="F")
            if (ta, tb, tc) != ("F", "F", "F"):
                fail(e, "np.isclose operand types %s %s %s" % (ta, tb, tc))
            return "(np_isclose F %s %s %s)" % (a, b, c), "bool"
        if fn == "reduce" and len(e.args) == 2 and not kws and isinstance(e.args[0], ast.Name) and e.args[0].id == "mul":
            a, ta = self.expr(e.args[1], env, binds)
            if ta != "list:Z":
                fail(e, "reduce(mul, %s)" % ta)
            t = self.tmp()
            binds.append((t, "(py_reduce_mul %s)" % a))
            return t, "Z"
        if isinstance(e.func, ast.Attribute) and e.func.attr == "reshape" and len(e.args) == 1 and not kws and isinstance(e.args[0], ast.Starred):
            a, ta = self.expr(e.func.value, env, binds)
            s_, ts = self.expr(e.args[0].value, env, binds)
            if ta == "list:F" and ts == "list:Z" and self.selftag == "pd":
                t = self.tmp()
                binds.append((t, "(nd_reshape_chk F %s %s)" % (a, s_)))      # no invariant behind a ProbDist: the size check is modelled
                return t, "nd"
            fail(e, "reshape(*%s) of %s" % (ts, ta))
        if isinstance(e.func, ast.Attribute) and e.func.attr == "reshape" and len(e.args) == 1 and not kws:
            a, ta = self.expr(e.func.value, env, binds)
            s, ts = self.expr(e.args[0], env, binds)
            if ta == "list:F" and ts == "list:Z":
                return "(nd_reshape F %s %s)" % (a, s), "nd"
            fail(e, "reshape of %s by %s" % (ta, ts))
        if isinstance(e.func, ast.Attribute) and e.func.attr == "flatten" and not e.args and not kws:
            a, ta = self.expr(e.func.value, env, binds)
            if ta == "nd":
                return "(nd_flatten F %s)" % a, "list:F"
            fail(e, "flatten of %s" % ta)
        if fn == "index_serial_from_index_multi_dimensional":
            names = ["nums_length", "index_multi_dimensional"]
            args = list(e.args) + [None] * (2 - len(e.args))
            for k, v in kws.items():
                if k not in names or args[names.index(k)] is not None:
                    fail(e, "arguments of index_serial_from_index_multi_dimensional")
                args[names.index(k)] = v
            if len(args) != 2 or None in args:
                fail(e, "arguments of index_serial_from_index_multi_dimensional")
            a, ta = self.expr(args[0], env, binds)
            b, tb = self.expr(args[1], env, binds)
            if (ta, tb) != ("list:Z", "list:Z"):
                fail(e, "index_serial_from_index_multi_dimensional on %s, %s" % (ta, tb))
            t = self.tmp()
            binds.append((t, "(py_serial_from_multi %s %s)" % (a, b)))
            return t, "Z"
        if fn in self.sigs:
            txt, rt = self.call_translated(e, fn, env, binds)
            t = self.tmp()
            binds.append((t, txt))
            return t, rt
        fail(e, "call %s" % ast.unparse(e)[:80])

    def call_translated(self, e, fn, env, binds):
        spec, fdef = self.sigs[fn]
        params = spec["params"]
        pnames = [p for p, _ in params]
        fargs = [a.arg for a in fdef.args.args if a.arg != "self"]
        defaults = dict(zip(fargs[len(fargs) - len(fdef.args.defaults):], fdef.args.defaults))
        actual = {}
        for p, a in zip(pnames, e.args):
            actual[p] = a
        if len(e.args) > len(pnames):
            fail(e, "too many arguments")
        for k in e.keywords:
            if k.arg not in pnames or k.arg in actual:
                fail(e, "keyword %s" % k.arg)
            actual[k.arg] = k.value
        out = []
        for p, t in params:
            node = actual.get(p, defaults.get(p))
            if node is None:
                fail(e, "missing argument %s" % p)
            if p not in actual and not (isinstance(node, ast.Constant) and (node.value is None or isinstance(node.value, (bool, str)))):
                fail(e, "default of %s is not a constant" % p)
            if t == "str":
                self.check_msg(node, env)
                continue
            a, ta = self.expr(node, env, binds, hint="F" if t in ("F", "opt:F") else None)
            if ta == t or (ta == "opt:?" and t.startswith("opt:")):
                out.append(a)
            elif t == "opt:" + ta:
                out.append("(Some %s)" % a)
            else:
                fail(e, "argument %s: %s given, %s expected" % (p, ta, t))
        return "(%s %s)" % (spec["coq"], " ".join(out)), spec["ret"]

    # ------------------------------------------------------------------ messages
    def check_msg(self, e, env):
        if isinstance(e, ast.Constant) and isinstance(e.value, str):
            return
        if isinstance(e, ast.Name) and (e.id in env or e.id in self.strs):
            return
        if isinstance(e, ast.BinOp) and isinstance(e.op, ast.Add):
            self.check_msg(e.left, env); self.check_msg(e.right, env)
            return
        if isinstance(e, ast.JoinedStr):
            for v in e.values:
                if isinstance(v, ast.Constant):
                    continue
                if isinstance(v, ast.FormattedValue) and v.format_spec is None:
                    x = v.value
                    if isinstance(x, ast.Call) and isinstance(x.func, ast.Name) and x.func.id in ("len", "type") and len(x.args) == 1 and not x.keywords:
                        x = x.args[0]
                    if isinstance(x, ast.Name) and (x.id in env or x.id in self.strs):
                        continue
                    if self.attr_chain(x, env) is not None:
                        continue
                fail(e, "f-string field %s" % ast.unparse(v))
            return
        fail(e, "message expression %s" % ast.unparse(e)[:80])

    def is_msg(self, e):
        if isinstance(e, ast.Constant) and isinstance(e.value, str):
            return True
        if isinstance(e, ast.JoinedStr):
            return True
        if isinstance(e, ast.BinOp) and isinstance(e.op, ast.Add):
            return self.is_msg(e.left) or self.is_msg(e.right)
        return False

    # ------------------------------------------------------------------ statements
    def wrap(self, binds, inner):
        for t, m in reversed(binds):
            inner = "pbind %s (fun %s =>\n  %s)" % (m, t, inner)
        return inner

    def assigned(self, stmts):
        out = []
        def add(n):
            if n not in out:
                out.append(n)
        for s in stmts:
            for n in ast.walk(s):
                tg = []
                if isinstance(n, ast.Assign):
                    tg = n.targets
                elif isinstance(n, (ast.AugAssign, ast.AnnAssign)):
                    tg = [n.target]
                elif isinstance(n, ast.For):
                    tg = [n.target]
                elif isinstance(n, ast.Expr) and isinstance(n.value, ast.Call) and isinstance(n.value.func, ast.Attribute) and n.value.func.attr in ("remove", "append", "extend", "add"):
                    tg = [n.value.func.value]
                for t in tg:
                    for m in ([t] if not isinstance(t, ast.Tuple) else t.elts):
                        k = self.target_key(m)
                        if k:
                            add(k)
        return out

    def target_key(self, t):
        if isinstance(t, ast.Name):
            return t.id
        if isinstance(t, ast.Subscript):
            return self.target_key(t.value)
        if isinstance(t, ast.Attribute) and isinstance(t.value, ast.Name) and t.value.id == "self":
            a = t.attr if t.attr.startswith("_") else "_" + t.attr
            return "self." + a
        return None

    def terminates(self, stmts):
        if not stmts:
            return False
        last = stmts[-1]
        if isinstance(last, (ast.Return, ast.Raise)):
            return True
        if isinstance(last, ast.If) and last.orelse:
            return self.terminates(last.body) and self.terminates(last.orelse)
        return False

    def coqname(self, key):
        return "v_" + key.replace(".", "_")

    def bind_var(self, env, key, typ, node):
        env = dict(env)
        old = env.get(key)
        if old is not None and old[1] != typ and key.startswith("self."):
            fail(node, "attribute %s changes type %s -> %s" % (key, old[1], typ))
        # (a local name may be rebound with another type in straight-line code; loops and joins compare the types themselves)
        env[key] = (self.coqname(key), typ)
        self.stale.discard(key)
        return env

    def tuple_of(self, names, env):
        if not names:
            return "tt", "_"
        cs = [env[n][0] for n in names]
        if len(cs) == 1:
            return cs[0], cs[0]
        return "(" + ", ".join(cs) + ")", "'(" + ", ".join(cs) + ")"

    def block(self, stmts, env, k, inner):
        """k(env) -> coq text for what follows; inner=True: no `return` allowed (we are inside a joined branch / loop body)"""
        if not stmts:
            return k(env)
        s, rest = stmts[0], stmts[1:]
        cont = lambda env2: self.block(rest, env2, k, inner)
        if is_doc(s):
            return cont(env)
        if isinstance(s, ast.Return):
            if inner:
                fail(s, "return inside a loop / joined branch")
            if s.value is None:
                fail(s, "bare return")
            binds = []
            v, t = self.expr(s.value, env, binds)
            if t == "F" and self.ret == "nd":
                v, t = "(nd_scalar F %s)" % v, "nd"          # a scalar is the 0-d array
            if t != self.ret:
                fail(s, "returns %s, expected %s" % (t, self.ret))
            return self.wrap(binds, "PRet %s" % v)
        if isinstance(s, ast.Raise) and s.cause is None and isinstance(s.exc, ast.Name) and s.exc.id in ("ValueError", "TypeError", "IndexError", "KeyError"):
            return 'PRaise "%s"%%string' % s.exc.id          # raise <builtin exception class>
        if isinstance(s, ast.Raise):
            if s.cause is not None or not isinstance(s.exc, ast.Call) or not isinstance(s.exc.func, ast.Name) or s.exc.keywords or len(s.exc.args) != 1:
                fail(s, "raise must be `raise Name(<message>)`")
            self.check_msg(s.exc.args[0], env)
            return 'PRaise "%s"%%string' % s.exc.func.id
        if isinstance(s, ast.AnnAssign):
            if s.value is None or not s.simple and not isinstance(s.target, ast.Attribute):
                fail(s, "annotated assignment")
            fake = ast.Assign(targets=[s.target], value=s.value)
            ast.copy_location(fake, s); ast.fix_missing_locations(fake)
            return self.block([fake] + rest, env, k, inner)
        # x = []      (element type from the spec's `locals` table; a wrong entry makes the generated text ill-typed)
        if isinstance(s, ast.Assign) and len(s.targets) == 1 and isinstance(s.targets[0], ast.Name) and isinstance(s.value, ast.List) and not s.value.elts:
            name = s.targets[0].id
            t = self.spec.get("locals", {}).get(name)
            if t is None or name in self.params_str:
                fail(s, "empty list literal bound to %s without a declared type" % name)
            env2 = self.bind_var(env, name, t, s)
            self.alias.pop(name, None)
            return "let %s := [] in\n  %s" % (env2[name][0], cont(env2))
        # x = [E for _ in range(N)]   with E effect-free up to raising: evaluated N times with the same result
        if isinstance(s, ast.Assign) and len(s.targets) == 1 and isinstance(s.targets[0], ast.Name) and isinstance(s.value, ast.ListComp):
            lc = s.value
            g = lc.generators[0] if len(lc.generators) == 1 else None
            if g is None or g.ifs or g.is_async or not (isinstance(g.target, ast.Name) and g.target.id == "_") \
                    or not (isinstance(g.iter, ast.Call) and ast.unparse(g.iter.func) == "range" and len(g.iter.args) == 1 and not g.iter.keywords):
                fail(s, "list comprehension")
            binds0 = []
            n_, tn = self.expr(g.iter.args[0], env, binds0)
            if tn != "Z" or binds0:
                fail(s, "comprehension count")
            binds = []
            v, tv = self.expr(lc.elt, env, binds)
            name = s.targets[0].id
            env2 = self.bind_var(env, name, "list:" + tv, s)
            inner_txt = self.wrap(binds, "PRet (repeat %s (Z.to_nat %s))" % (v, n_))
            return "pbind (if %s <=? 0 then PRet [] else %s) (fun %s =>\n  %s)" % (n_, inner_txt, env2[name][0], cont(env2))
        # a, b = <oracle>(elem1, state, weight)
        if isinstance(s, ast.Assign) and len(s.targets) == 1 and isinstance(s.targets[0], ast.Tuple) and isinstance(s.value, ast.Call) \
                and ast.unparse(s.value.func) == "_compose_qoperations_MProcess_State_for_States":
            tg = s.targets[0]
            c = s.value
            if len(tg.elts) != 2 or not all(isinstance(x, ast.Name) for x in tg.elts) or c.keywords or len(c.args) not in (2, 3) \
                    or not (isinstance(c.args[0], ast.Name) and c.args[0].id == self.spec["params"][0][0] and self.spec["params"][0][1] == "mp"):
                fail(s, "oracle call")
            binds = []
            a, ta = self.expr(c.args[1], env, binds)
            if len(c.args) == 3:
                b, tb = self.expr(c.args[2], env, binds)
            else:
                b, tb = FLOATS[1.0], "F"          # the oracle's default weight=1.0 (checked in main)
            if (ta, tb) != ("St", "F"):
                fail(s, "oracle arguments %s, %s" % (ta, tb))
            env2 = self.bind_var(env, tg.elts[0].id, "list:St", s)
            env2 = self.bind_var(env2, tg.elts[1].id, "list:F", s)
            return self.wrap(binds, "pbind (meas %s %s) (fun '(%s, %s) =>\n  %s)" % (a, b, env2[tg.elts[0].id][0], env2[tg.elts[1].id][0], cont(env2)))
        if isinstance(s, ast.Assign) and len(s.targets) == 1 and isinstance(s.targets[0], ast.Name) and self.is_msg(s.value) \
                and (s.targets[0].id not in env):
            self.check_msg(s.value, env)          # a message variable: no effect on values
            self.strs.add(s.targets[0].id)
            return cont(env)
        if isinstance(s, ast.AugAssign) and isinstance(s.target, ast.Name) and s.target.id in self.strs and s.target.id not in self.params_str \
                and isinstance(s.op, ast.Add):
            self.check_msg(s.value, env)
            return cont(env)
        if isinstance(s, ast.Assign):
            if len(s.targets) != 1:
                fail(s, "multiple targets")
            tg = s.targets[0]
            if isinstance(tg, ast.Subscript):
                key = self.target_key(tg.value)
                if key is None or key not in env:
                    fail(s, "subscript assignment target")
                binds = []
                a, ta = env[key]
                i, ti = self.expr(tg.slice, env, binds)
                v, tv = self.expr(s.value, env, binds, hint="F" if ta == "list:F" else None)
                if not (ta.startswith("list:") and ti == "Z" and tv == ta[5:]):
                    fail(s, "subscript assignment %s[%s] = %s" % (ta, ti, tv))
                for other in self.alias.get(key, set()) - {key}:
                    self.stale.add(other)
                srcv = self.target_key(s.value) if isinstance(s.value, (ast.Name, ast.Attribute)) else None
                if tv.startswith("list:") and srcv is not None:
                    grp = self.alias.get(srcv, {srcv}) | self.alias.get(key, {key})
                    for n_ in grp:
                        self.alias[n_] = grp
                env2 = self.bind_var(env, key, ta, s)
                return self.wrap(binds, "pbind (py_setitem %s %s %s) (fun %s =>\n  %s)" % (a, i, v, env2[key][0], cont(env2)))
            key = self.target_key(tg)
            if key is None:
                fail(s, "assignment target")
            if key.startswith("self.") and not self.ctor:
                fail(s, "attribute assignment outside the constructor")
            if key.startswith("self.") and key[5:] not in OBJ[self.ctor]:
                fail(s, "unknown attribute %s" % key)
            if key in self.params_str:
                fail(s, "assignment to a str parameter")
            binds = []
            hint = None
            if key.startswith("self."):
                hint = "F" if OBJ[self.ctor][key[5:]][0] == "F" else None
            elif key in env and env[key][1] == "F":
                hint = "F"
            v, t = self.expr(s.value, env, binds, hint=hint)
            if t == "str" or t == "opt:?":
                fail(s, "assignment of %s" % t)
            if key.startswith("self.") and OBJ[self.ctor][key[5:]][0] != t:
                fail(s, "attribute %s gets %s" % (key, t))
            # aliasing of mutable lists
            src = self.target_key(s.value) if isinstance(s.value, (ast.Name, ast.Attribute)) else None
            if t.startswith("list:") and src is not None:
                grp = self.alias.get(src, {src}) | {key}
                for n in grp:
                    self.alias[n] = grp
            else:
                for n in self.alias.pop(key, set()):
                    if n != key and n in self.alias:
                        self.alias[n] = self.alias[n] - {key}
            env2 = self.bind_var(env, key, t, s)
            return self.wrap(binds, "let %s := %s in\n  %s" % (env2[key][0], v, cont(env2)))
        if isinstance(s, ast.Expr) and isinstance(s.value, ast.Call):
            c = s.value
            fn = ast.unparse(c.func)
            if fn == "print":
                for a in c.args:
                    self.check_msg(a, env)
                if c.keywords:
                    fail(s, "print with keywords")
                return cont(env)
            if isinstance(c.func, ast.Attribute) and c.func.attr == "append" and len(c.args) == 1 and not c.keywords:
                key = self.target_key(c.func.value)
                if key is None or key not in env or not env[key][1].startswith("list:") or key.startswith("self."):
                    fail(s, ".append target")
                binds = []
                v, tv = self.expr(c.args[0], env, binds)
                if "list:" + tv != env[key][1]:
                    fail(s, "append of %s to %s" % (tv, env[key][1]))
                for other in self.alias.get(key, set()) - {key}:
                    self.stale.add(other)
                src = self.target_key(c.args[0]) if isinstance(c.args[0], (ast.Name, ast.Attribute)) else None
                if tv.startswith("list:") and src is not None:        # the container now shares the stored list
                    grp = self.alias.get(src, {src}) | self.alias.get(key, {key})
                    for n_ in grp:
                        self.alias[n_] = grp
                env2 = self.bind_var(env, key, env[key][1], s)
                return self.wrap(binds, "let %s := (%s ++ [%s]) in\n  %s" % (env2[key][0], env[key][0], v, cont(env2)))
            if isinstance(c.func, ast.Attribute) and c.func.attr == "extend" and len(c.args) == 1 and not c.keywords:
                key = self.target_key(c.func.value)
                if key is None or key not in env or not env[key][1].startswith("list:") or key.startswith("self."):
                    fail(s, ".extend target")
                binds = []
                v, tv = self.expr(c.args[0], env, binds)
                if tv != env[key][1]:
                    fail(s, "extend of %s by %s" % (env[key][1], tv))
                for other in self.alias.get(key, set()) - {key}:
                    self.stale.add(other)
                env2 = self.bind_var(env, key, tv, s)
                return self.wrap(binds, "let %s := (%s ++ %s) in\n  %s" % (env2[key][0], env[key][0], v, cont(env2)))
            if isinstance(c.func, ast.Attribute) and c.func.attr == "remove" and len(c.args) == 1 and not c.keywords:
                key = self.target_key(c.func.value)
                if key is None or key not in env or env[key][1] != "list:Z" or key not in self.sets:
                    fail(s, ".remove on something that is not a set of ints")
                binds = []
                v, tv = self.expr(c.args[0], env, binds)
                if tv != "Z":
                    fail(s, "remove of %s" % tv)
                env2 = self.bind_var(env, key, "list:Z", s)
                return self.wrap(binds, "pbind (py_set_remove %s %s) (fun %s =>\n  %s)" % (env[key][0], v, env2[key][0], cont(env2)))
            if fn in self.sigs:
                binds = []
                txt, rt = self.call_translated(c, fn, env, binds)
                return self.wrap(binds, "pbind %s (fun _ =>\n  %s)" % (txt, cont(env)))
            fail(s, "call statement %s" % ast.unparse(s)[:80])
        if isinstance(s, ast.If):
            return self.if_stmt(s, rest, env, k, inner)
        if isinstance(s, ast.For):
            return self.for_stmt(s, env, cont)
        fail(s, "statement %s" % ast.unparse(s)[:80])

    # ---- if
    def type_test(self, test, env):
        """type(x) == int|tuple|list  ->  (name, typename) or None"""
        if isinstance(test, ast.Compare) and len(test.ops) == 1 and isinstance(test.ops[0], ast.Eq) and isinstance(test.left, ast.Call) \
                and isinstance(test.left.func, ast.Name) and test.left.func.id == "type" and len(test.left.args) == 1 and not test.left.keywords \
                and isinstance(test.left.args[0], ast.Name) and isinstance(test.comparators[0], ast.Name):
            return test.left.args[0].id, test.comparators[0].id
        return None

    def if_stmt(self, s, rest, env, k, inner):
        cont = lambda env2: self.block(rest, env2, k, inner)
        tt = self.type_test(s.test, env)
        # (1) if type(x) == list: x = np.array(x)      — lists and arrays are the same model value
        if tt and tt[1] == "list":
            x = tt[0]
            if not s.orelse and len(s.body) == 1 and ast.unparse(s.body[0]) == "%s = np.array(%s)" % (x, x) and x in env and env[x][1] == "list:F":
                return cont(env)
            fail(s, "type(x) == list test")
        # (1b) if type(x) != ClassName: ... raise      where x has the model type of that class: the test is False
        if isinstance(s.test, ast.Compare) and len(s.test.ops) == 1 and isinstance(s.test.ops[0], ast.NotEq) and isinstance(s.test.left, ast.Call) \
                and isinstance(s.test.left.func, ast.Name) and s.test.left.func.id == "type" and len(s.test.left.args) == 1 and not s.test.left.keywords \
                and isinstance(s.test.left.args[0], ast.Name) and isinstance(s.test.comparators[0], ast.Name) \
                and s.test.comparators[0].id in CLASS_TAG and s.test.left.args[0].id in env \
                and env[s.test.left.args[0].id][1] == CLASS_TAG[s.test.comparators[0].id] and not s.orelse and self.terminates(list(s.body)) \
                and all(isinstance(b, (ast.Assign, ast.AugAssign, ast.Raise)) for b in s.body):
            saved = set(self.strs)
            self.block(list(s.body), env, lambda e_: fail(s, "fallthrough"), inner)      # still must be inside the subset
            self.strs = saved
            return cont(env)
        # (1c) the branch the spec declares not modelled (sampling): it must end in `return`, control never comes back
        if self.spec.get("opaque_if") and ast.unparse(s.test) == self.spec["opaque_if"]:
            if not self.terminates(list(s.body)) or not s.orelse or inner:
                fail(s, "not-modelled branch must return and have an else branch")
            c, tc = self.expr(s.test, env, [])
            if tc != "bool":
                fail(s, "not-modelled test")
            return "(if %s then PRaise not_modelled else\n  %s)" % (c, self.block(list(s.orelse), env, cont, inner))
        # (2) dispatch on a dynamically typed index
        if tt and tt[0] in env and env[tt[0]][1] == "idx":
            return self.dispatch(s, rest, env, k, inner)
        # (3) if x == None: x = <default>     (no else)
        if isinstance(s.test, ast.Compare) and len(s.test.ops) == 1 and isinstance(s.test.ops[0], (ast.Eq, ast.Is)) and isinstance(s.test.left, ast.Name) \
                and isinstance(s.test.comparators[0], ast.Constant) and s.test.comparators[0].value is None and not s.orelse and len(s.body) == 1 \
                and isinstance(s.body[0], ast.Assign) and len(s.body[0].targets) == 1 and isinstance(s.body[0].targets[0], ast.Name) \
                and s.body[0].targets[0].id == s.test.left.id and s.test.left.id in env and env[s.test.left.id][1].startswith("opt:"):
            x = s.test.left.id
            pay = env[x][1][4:]
            binds = []
            d, td = self.expr(s.body[0].value, env, binds, hint="F" if pay == "F" else None)
            if td != pay or binds:
                fail(s, "default of type %s for %s" % (td, env[x][1]))
            old = env[x][0]
            env2 = dict(env); env2[x] = (self.coqname(x) + "'", pay)
            return "let %s := (match %s with None => %s | Some x_ => x_ end) in\n  %s" % (env2[x][0], old, d, cont(env2))
        # (3b) if self._attr is None: <raise / return>      (no else): the rest sees the payload of the attribute
        if isinstance(s.test, ast.Compare) and len(s.test.ops) == 1 and isinstance(s.test.ops[0], ast.Is) and isinstance(s.test.comparators[0], ast.Constant) \
                and s.test.comparators[0].value is None and isinstance(s.test.left, ast.Attribute) and not s.orelse and self.terminates(list(s.body)) and self.selftag:
            ch = self.attr_chain(s.test.left, env)
            key = self.target_key(s.test.left)
            if ch is None or not ch[1].startswith("opt:") or key is None:
                fail(s, "None test on an attribute")
            nm = self.coqname(key) + "'"
            a_txt = self.block(list(s.body), env, lambda e_: fail(s, "fallthrough"), inner)
            self.attr_refined = dict(getattr(self, "attr_refined", {}))
            saved = dict(self.attr_refined)
            self.attr_refined[key] = (nm, ch[1][4:])
            b_txt = cont(env)
            self.attr_refined = saved
            return "(match %s with None =>\n  %s\n  | Some %s =>\n  %s end)" % (ch[0], a_txt, nm, b_txt)
        # (4) if x is None: A else: B      (x optional; B sees the payload)
        refine = None
        if isinstance(s.test, ast.Compare) and len(s.test.ops) == 1 and isinstance(s.test.ops[0], (ast.Eq, ast.Is)) and isinstance(s.test.left, ast.Name) \
                and isinstance(s.test.comparators[0], ast.Constant) and s.test.comparators[0].value is None and s.test.left.id in env \
                and env[s.test.left.id][1].startswith("opt:"):
            refine = s.test.left.id
        if refine is None:
            binds = []
            c, tc = self.expr(s.test, env, binds)
            if tc != "bool":
                fail(s, "if condition of type %s" % tc)
        body, orelse = list(s.body), list(s.orelse)
        tb, te = self.terminates(body), self.terminates(orelse)

        def envs():
            if refine is None:
                return env, env
            e2 = dict(env); e2[refine] = (self.coqname(refine) + "'", env[refine][1][4:])
            return env, e2

        def mk(a, b):
            if refine is None:
                return self.wrap(binds, "(if %s then\n  %s\n  else\n  %s)" % (c, a, b))
            return "(match %s with None =>\n  %s\n  | Some %s =>\n  %s end)" % (env[refine][0], a, self.coqname(refine) + "'", b)

        ea, eb = envs()
        if tb and te:
            return mk(self.block(body, ea, lambda e_: fail(s, "fallthrough"), inner), self.block(orelse, eb, lambda e_: fail(s, "fallthrough"), inner))
        if tb and not te:
            if refine is not None and rest:
                fail(s, "refined optional escapes its branch")
            return mk(self.block(body, ea, lambda e_: fail(s, "fallthrough"), inner), self.block(orelse, eb, cont if refine is None else (lambda e_: cont(self.unrefine(e_, refine, env))), inner))
        if te and not tb:
            return mk(self.block(body, ea, cont, inner), self.block(orelse, eb, lambda e_: fail(s, "fallthrough"), inner))
        # join: variables assigned in a branch that exist before the if, or are assigned in both branches
        ab, ae = self.assigned(body), self.assigned(orelse)
        names = [n for n in ab + [x for x in ae if x not in ab] if n in env or (n in ab and n in ae)]
        if refine in names:
            fail(s, "assignment to the refined optional")
        res = {}

        def fin(tag):
            def f(e_):
                res[tag] = e_
                for n in names:
                    if n not in e_:
                        fail(s, "variable %s not assigned on every path" % n)
                return "PRet %s" % self.tuple_of(names, e_)[0]
            return f
        a = self.block(body, ea, fin("a"), True)
        b = self.block(orelse, eb, fin("b"), True)
        env2 = dict(env)
        for n in names:
            ta_, tb_ = res["a"][n][1], res["b"][n][1]
            if ta_ != tb_:
                fail(s, "variable %s has type %s / %s after the branches" % (n, ta_, tb_))
            env2[n] = (self.coqname(n), ta_)
        pat = self.tuple_of(names, env2)[1]
        return "pbind %s (fun %s =>\n  %s)" % (mk(a, b), pat, cont(env2))

    def unrefine(self, e_, refine, env):
        e2 = dict(e_); e2[refine] = env[refine]
        return e2

    def dispatch(self, s, rest, env, k, inner):
        """if type(x) == int: A elif type(x) == tuple: B else: C   ->  match x with AInt x => A | ATuple x => B | AOther => C end"""
        x = self.type_test(s.test, env)[0]
        arms, node = {}, s
        other = None
        while True:
            tt = self.type_test(node.test, env)
            if not tt or tt[0] != x or tt[1] not in ("int", "tuple") or tt[1] in arms:
                fail(node, "type dispatch")
            arms[tt[1]] = list(node.body)
            if len(node.orelse) == 1 and isinstance(node.orelse[0], ast.If) and self.type_test(node.orelse[0].test, env):
                node = node.orelse[0]
                continue
            other = list(node.orelse)
            break
        if set(arms) != {"int", "tuple"} or not other:
            fail(s, "type dispatch must cover int, tuple and else")
        cont = lambda env2: self.block(rest, env2, k, inner)
        bodies = [("int", arms["int"]), ("tuple", arms["tuple"]), ("other", other)]
        term = [self.terminates(b) for _, b in bodies]
        xin = {"int": "Z", "tuple": "list:Z"}

        def benv(tag):
            e2 = dict(env)
            if tag in xin:
                e2[x] = (self.coqname(x) + "'", xin[tag])
            return e2
        pats = {"int": "AInt %s'" % self.coqname(x), "tuple": "ATuple %s'" % self.coqname(x), "other": "AOther"}
        if all(term):
            outs = [self.block(b, benv(t), lambda e_: fail(s, "fallthrough"), inner) for t, b in bodies]
            return "(match %s with %s end)" % (env[x][0], " ".join("\n  | %s => %s" % (pats[t], o) for (t, _), o in zip(bodies, outs)))
        # join over the non-terminating arms
        live = [b for (t, b), tm in zip(bodies, term) if not tm]
        sets_ = [self.assigned(b) for b in live]
        names = [n for n in sets_[0] if all(n in s_ for s_ in sets_) or n in env]
        for s_ in sets_[1:]:
            for n in s_:
                if n in env and n not in names:
                    names.append(n)
        if x in names:
            fail(s, "assignment to the dispatched variable")
        results = []

        def fin(e_):
            for n in names:
                if n not in e_:
                    fail(s, "variable %s not assigned on every path" % n)
            results.append(e_)
            return "PRet %s" % self.tuple_of(names, e_)[0]
        outs = []
        for (t, b), tm in zip(bodies, term):
            outs.append(self.block(b, benv(t), (lambda e_: fail(s, "fallthrough")) if tm else fin, True if not tm else inner))
        env2 = dict(env)
        for n in names:
            ts = {r[n][1] for r in results}
            if len(ts) != 1:
                fail(s, "variable %s has types %s after the dispatch" % (n, ts))
            env2[n] = (self.coqname(n), ts.pop())
        pat = self.tuple_of(names, env2)[1]
        m = "(match %s with %s end)" % (env[x][0], " ".join("\n  | %s => %s" % (pats[t], o) for (t, _), o in zip(bodies, outs)))
        return "pbind %s (fun %s =>\n  %s)" % (m, pat, cont(env2))

    # ---- for
    def for_stmt(self, s, env, cont):
        if s.orelse:
            fail(s, "for-else")
        for n in ast.walk(s):
            if isinstance(n, (ast.Break, ast.Continue, ast.Return)):
                fail(n, "break / continue / return inside a loop")
        binds = []
        it = s.iter
        counter = None
        if isinstance(it, ast.Call) and isinstance(it.func, ast.Name) and it.func.id == "enumerate" and len(it.args) == 1 and not it.keywords:
            src_node = it.args[0]
            a, ta = self.expr(src_node, env, binds)
            if not ta.startswith("list:"):
                fail(s, "enumerate of %s" % ta)
            if not (isinstance(s.target, ast.Tuple) and len(s.target.elts) == 2 and all(isinstance(x, ast.Name) for x in s.target.elts)):
                fail(s, "loop target of enumerate")
            counter, elt = s.target.elts[0].id, s.target.elts[1].id
            itxt = "(py_enumerate %s)" % a
            pat = "'(%s, %s)" % (self.coqname(counter), self.coqname(elt))
            loc = {counter: (self.coqname(counter), "Z"), elt: (self.coqname(elt), ta[5:])}
        elif isinstance(it, ast.Call) and isinstance(it.func, ast.Name) and it.func.id == "zip" and len(it.args) == 2 and not it.keywords:
            # zip(<list>, <MultinomialDistribution>): the distribution is iterated through __getitem__(0), (1), ... until IndexError,
            # i.e. over its ps (class has no __iter__: checked in main; gen_md_iteration_protocol in coq/gen/C16_MdEquiv.v)
            a, ta = self.expr(it.args[0], env, binds)
            b, tb = self.expr(it.args[1], env, binds)
            if not ta.startswith("list:") or not (tb == "md" or tb.startswith("list:")):
                fail(s, "zip of %s, %s" % (ta, tb))
            if not (isinstance(s.target, ast.Tuple) and len(s.target.elts) == 2 and all(isinstance(x, ast.Name) for x in s.target.elts)):
                fail(s, "loop target of zip")
            x1, x2 = s.target.elts[0].id, s.target.elts[1].id
            src_node = it.args[0]
            itxt = "(combine %s (md_ps F %s))" % (a, b) if tb == "md" else "(combine %s %s)" % (a, b)
            pat = "'(%s, %s)" % (self.coqname(x1), self.coqname(x2))
            loc = {x1: (self.coqname(x1), ta[5:]), x2: (self.coqname(x2), "F" if tb == "md" else tb[5:])}
        else:
            src_node = it
            a, ta = self.expr(it, env, binds)
            if not ta.startswith("list:") or not isinstance(s.target, ast.Name):
                fail(s, "loop over %s" % ta)
            itxt = a
            pat = self.coqname(s.target.id)
            loc = {s.target.id: (pat, ta[5:])}
        if binds:
            fail(s, "loop iterable that may raise")
        src_key = self.target_key(src_node) if isinstance(src_node, (ast.Name, ast.Attribute)) else None
        if src_key and src_key.startswith("self.") and not src_key[5:].startswith("_"):
            src_key = "self._" + src_key[5:]
        body = list(s.body)
        asg = self.assigned(body)
        for n in loc:
            if n in asg or n in env:
                fail(s, "loop variable %s is assigned in the body / shadows a variable" % n)
        # mutation of the iterated sequence (or an alias of it): only  seq[counter] = e
        grp = self.alias.get(src_key, {src_key}) if src_key else set()
        for n in ast.walk(s):
            if isinstance(n, ast.Assign):
                for tg in n.targets:
                    if isinstance(tg, ast.Subscript) and self.target_key(tg.value) in grp:
                        if counter is None or not (isinstance(tg.slice, ast.Name) and tg.slice.id == counter):
                            fail(n, "the iterated sequence is mutated at a position other than the current one")
                    elif self.target_key(tg) in grp:
                        fail(n, "the iterated sequence is rebound inside the loop")
            if isinstance(n, ast.Expr) and isinstance(n.value, ast.Call) and isinstance(n.value.func, ast.Attribute) and self.target_key(n.value.func.value) in grp:
                fail(n, "method call on the iterated sequence inside the loop")
        carried = [n for n in asg if n in env]
        fresh = [n for n in asg if n not in env]
        env_in = dict(env); env_in.update(loc)
        res = {}

        def fin(e_):
            res["e"] = e_
            return "PRet %s" % self.tuple_of(carried, e_)[0]
        btxt = self.block(body, env_in, fin, True)
        for n in carried:
            if res["e"][n][1] != env[n][1]:
                fail(s, "loop changes the type of %s" % n)
        spat = self.tuple_of(carried, env)[1]
        if not carried:
            spat = "(_ : unit)"
        init = self.tuple_of(carried, env)[0]
        env2 = dict(env)
        for n in carried:
            env2[n] = (self.coqname(n), env[n][1])
        for n in fresh:
            env2.pop(n, None)       # loop-local names do not survive (reading them later is rejected)
        return "pbind (pfor %s (fun %s %s =>\n  %s) %s) (fun %s =>\n  %s)" % (itxt, pat, spat, btxt, init, spat if carried else "_", cont(env2))

    # ------------------------------------------------------------------ whole function
    def translate(self):
        f, spec = self.f, self.spec
        a = f.args
        if a.vararg or a.kwarg or a.kwonlyargs or a.posonlyargs or f.decorator_list:
            raise Unsupported("%s: unexpected signature" % f.name)
        names = [x.arg for x in a.args]
        want = (["self"] if spec["cls"] else []) + [p for p, _ in spec["params"]]
        if names != want:
            raise Unsupported("%s: parameters %s, expected %s" % (f.name, names, want))
        # (defaults are only read at call sites of translated callers: call_translated rejects a non-constant default it needs)
        for n in ast.walk(f):
            if isinstance(n, (ast.Global, ast.Nonlocal, ast.Lambda, ast.NamedExpr, ast.Try, ast.While, ast.With, ast.Delete, ast.Yield, ast.YieldFrom, ast.Await,
                              ast.SetComp, ast.DictComp, ast.GeneratorExp, ast.Import, ast.ImportFrom, ast.FunctionDef, ast.ClassDef)) and n is not f:
                fail(n, "construct outside the subset")
            if isinstance(n, ast.Name) and isinstance(n.ctx, (ast.Store, ast.Del)) and n.id in RESERVED:
                fail(n, "assignment to the reserved name %s" % n.id)
        for p_, _t in spec["params"]:
            if p_ in RESERVED:
                raise Unsupported("%s: parameter named %s" % (f.name, p_))
        env = {}
        self.strs = set(self.modstrs)
        self.params_str = set(self.modstrs)
        plist = []
        if self.selftag:
            plist.append(("v_self", self.selftag))
        for p, t in spec["params"]:
            if t == "str":
                self.strs.add(p); self.params_str.add(p)
                continue
            env[p] = (self.coqname(p), t)
            plist.append((self.coqname(p), t))
        # names bound to set(range(..)) — the only things .remove is accepted on
        self.sets = set()
        for n in ast.walk(f):
            if isinstance(n, ast.Assign) and len(n.targets) == 1 and isinstance(n.targets[0], ast.Name) and isinstance(n.value, ast.Call) \
                    and ast.unparse(n.value.func) == "set":
                self.sets.add(n.targets[0].id)

        def end(e_):
            if self.ctor:
                fields = []
                for attr in OBJ[self.ctor]:
                    if "self." + attr not in e_:
                        raise Unsupported("%s: attribute %s is not assigned on every path" % (f.name, attr))
                    fields.append(e_["self." + attr][0])
                return "PRet (%s %s)" % (MK[self.ctor], " ".join(fields))
            if self.ret == "unit":
                return "PRet tt"
            raise Unsupported("%s falls off its end" % f.name)
        if self.ctor:
            for n in ast.walk(f):
                if isinstance(n, ast.Return):
                    fail(n, "return inside the constructor")
        body = self.block(list(f.body), env, end, False)
        return "Definition %s %s : pyres %s :=\n  %s." % (spec["coq"], " ".join("(%s : %s)" % (n, coq_type(t)) for n, t in plist), coq_type(self.ret), body)


HEADER = """(* GENERATED by /verif/gen/c16_py2coq.py from the current source of quara — do not edit, not committed. *)
From Coq Require Import ZArith List Bool String.
From QV.Core Require Import OF.
From QV.Model Require Import IndexUtil Multinomial C16_PySem.
Import ListNotations.
Local Open Scope Z_scope.
Section Gen.
Context (F : OF) (c_1e_8 : F) (St : Type).
(* oracles (not translated): _compose_qoperations_MProcess_State_for_States(elem1, state, weight) and State.generate_zero_obj *)
Context (meas : St -> F -> pyres (list St * list F)) (zero_obj : St -> St).
"""


def check_index_util(repo):
    """index_serial_from_index_multi_dimensional is represented by py_serial_from_multi: its raises must all be ValueError"""
    tree = ast.parse(open(os.path.join(repo, "quara/utils/index_util.py")).read())
    f, _ = find_def(tree, None, "index_serial_from_index_multi_dimensional")
    rs = [n for n in ast.walk(f) if isinstance(n, ast.Raise)]
    for r in rs:
        if not (isinstance(r.exc, ast.Call) and isinstance(r.exc.func, ast.Name) and r.exc.func.id == "ValueError"):
            raise Unsupported("index_serial_from_index_multi_dimensional raises something other than ValueError")
    if [x.arg for x in f.args.args] != ["nums_length", "index_multi_dimensional"]:
        raise Unsupported("index_serial_from_index_multi_dimensional: parameter names")


def imports_ok(tree, path, need):
    """the names the translation gives a fixed meaning must be bound by the expected imports and nothing else"""
    found = {}
    for n in tree.body:
        if isinstance(n, ast.Import):
            for a in n.names:
                found[a.asname or a.name] = a.name
        elif isinstance(n, ast.ImportFrom):
            for a in n.names:
                found[a.asname or a.name] = "%s.%s" % (n.module, a.name)
        elif isinstance(n, (ast.FunctionDef, ast.ClassDef)):
            if n.name in need:
                raise Unsupported("%s: %s is redefined at module level" % (path, n.name))
        elif isinstance(n, ast.Assign):
            for t in n.targets:
                if isinstance(t, ast.Name) and t.id in need:
                    raise Unsupported("%s: %s is rebound at module level" % (path, t.id))
    for name, origin in need.items():
        if found.get(name) != origin:
            raise Unsupported("%s: %s is %s, expected %s" % (path, name, found.get(name), origin))


NEED = {
    "quara/math/probability.py": {"np": "numpy"},
    "quara/objects/multinomial_distribution.py": {"np": "numpy", "reduce": "functools.reduce", "mul": "operator.mul",
                                                  "validate_prob_dist": "quara.math.probability.validate_prob_dist",
                                                  "index_serial_from_index_multi_dimensional": "quara.utils.index_util.index_serial_from_index_multi_dimensional"},
    "quara/objects/operators.py": {"np": "numpy", "MProcess": "quara.objects.mprocess.MProcess", "StateEnsemble": "quara.objects.state_ensemble.StateEnsemble",
                                   "MultinomialDistribution": "quara.objects.multinomial_distribution.MultinomialDistribution"},
    "quara/objects/prob_dist.py": {"np": "numpy"},
    "quara/objects/state_ensemble.py": {"index_serial_from_index_multi_dimensional": "quara.utils.index_util.index_serial_from_index_multi_dimensional",
                                        "MultinomialDistribution": "quara.objects.multinomial_distribution.MultinomialDistribution"},
}


def main():
    repo, outpath = sys.argv[1], sys.argv[2]
    try:
        check_index_util(repo)
        trees, sigs, getters = {}, {}, {}
        for spec in FUNCS:
            if spec["file"] not in trees:
                trees[spec["file"]] = ast.parse(open(os.path.join(repo, spec["file"])).read())
                imports_ok(trees[spec["file"]], spec["file"], NEED[spec["file"]])
        for path, cls in EXTRA_CLASSES:
            t_ = ast.parse(open(os.path.join(repo, path)).read())
            _f, cdef_ = find_def(t_, cls, "__init__")
            getters[CLASS_TAG[cls]] = check_getters(cdef_, CLASS_TAG[cls])
        # the oracle must be the module-level function of operators.py, and MultinomialDistribution must be iterable only through __getitem__
        ops_tree = trees["quara/objects/operators.py"]
        orc = [n for n in ops_tree.body if isinstance(n, ast.FunctionDef) and n.name == "_compose_qoperations_MProcess_State_for_States"]
        if len(orc) != 1 or [x.arg for x in orc[0].args.args] != ["elem1", "elem2", "weight"] or len(orc[0].args.defaults) != 1 \
                or not (isinstance(orc[0].args.defaults[0], ast.Constant) and type(orc[0].args.defaults[0].value) is float and orc[0].args.defaults[0].value == 1.0):
            raise Unsupported("oracle _compose_qoperations_MProcess_State_for_States(elem1, elem2, weight) not found")
        _f, md_c = find_def(trees["quara/objects/multinomial_distribution.py"], "MultinomialDistribution", "__getitem__")
        if any(isinstance(n, ast.FunctionDef) and n.name in ("__iter__", "__next__", "__len__") for n in md_c.body) or md_c.bases:
            raise Unsupported("MultinomialDistribution defines __iter__/__len__ or has base classes")
        parts = [HEADER]
        for spec in FUNCS:
            fdef, cdef = find_def(trees[spec["file"]], spec["cls"], spec["name"])
            if cdef is not None and CLASS_TAG[cdef.name] not in getters:
                getters[CLASS_TAG[cdef.name]] = check_getters(cdef, CLASS_TAG[cdef.name])
            parts.append("(* from %s : %s%s *)" % (spec["file"], (spec["cls"] + "." if spec["cls"] else ""), spec["name"]))
            modstrs = [t.id for n in trees[spec["file"]].body if isinstance(n, ast.Assign) and isinstance(n.value, ast.Constant) and isinstance(n.value.value, str)
                       for t in n.targets if isinstance(t, ast.Name)]
            parts.append(Fn(spec, fdef, cdef, sigs, getters, modstrs).translate())
            parts.append("")
            sigs[spec["key"]] = (spec, fdef)
        parts.append("End Gen.\n")
    except Unsupported as e:
        print("UNSUPPORTED: %s" % e)
        sys.exit(3)
    except (OSError, SyntaxError) as e:
        print("UNSUPPORTED: cannot read / parse the source: %s" % e)
        sys.exit(3)
    open(outpath, "w").write("\n".join(parts))
    print("ok: %d functions -> %s" % (len(FUNCS), outpath))


if __name__ == "__main__":
    main()
