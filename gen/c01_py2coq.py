#!/usr/bin/env python3
"""Fail-closed translator for property C01: the GLUE of quara's physicality-verdict methods -> terms of Model/C01_Glue.v.

usage: c01_py2coq.py <repo root> <out.v>

WHAT IS TRANSLATED (every run, from the current source):
  quara/objects/qoperation.py  QOperation.is_physical
  quara/objects/state.py       State.is_eq_constraint_satisfied, is_ineq_constraint_satisfied, is_trace_one, is_hermitian,
                               is_positive_semidefinite, and the physicality guard of State.__init__
  quara/objects/povm.py        Povm.is_eq_constraint_satisfied, is_ineq_constraint_satisfied, is_identity_sum, is_positive_semidefinite,
                               the physicality guard of Povm.__init__
  quara/objects/gate.py        Gate.is_eq_constraint_satisfied, is_ineq_constraint_satisfied, Gate.is_tp, Gate.is_cp, is_tp, is_cp,
                               the physicality guard of Gate.__init__
  quara/objects/mprocess.py    MProcess.is_eq_constraint_satisfied, is_ineq_constraint_satisfied, is_sum_tp, is_cp,
                               the basis-flag guard and the physicality guard of MProcess.__init__
  quara/utils/matrix_util.py   is_hermitian, is_positive_semidefinite
  quara/settings.py            Settings.get_atol, Settings.set_atol (`return cls.<attr>`; `if type(atol) != float: raise TypeError(..)` then
                               `cls.<attr> = atol`) and the class-level float default -> the little state language [sstmt] of C01_Glue.v

WHAT "GLUE" MEANS.  Tolerance resolution (`atol = Settings.get_atol() if atol is None else atol`), which tolerance is handed to
which callee (positional / keyword / omitted / literal 0.0 / numpy default), `and` / `or` / `not` / `== False` / `is True`,
branches on boolean attributes, `for` loops over elements with an early `return`, `raise`.  Everything else is NUMERIC and opaque:
a boolean-valued expression that is not glue becomes a primitive `BPrim id holes`; `id` indexes `gen_templates`, the canonical
source text (ast.unparse) of the expression preceded by the numeric statements it depends on, in which every tolerance-valued
sub-expression is replaced by a numbered hole `<k>`; `holes` are the tolerance expressions.  coq/gen/C01_Equiv.v pins the template
table and gives each template its meaning (a numeric primitive of Model/C01_Verdicts.v or the evaluation of another regenerated
function), then proves that the regenerated glue evaluates to the hand-written verdict model for ALL tolerance arguments.

ACCEPTED SUBSET (anything else raises Unsupported -> exit code 3; never a silent skip):
  statements : docstring | `return <bool expr>` | `raise ...` | NAME = <tolerance expr> for a tolerance name (only before any numeric
               statement) | `if NAME is None: NAME = <tolerance expr>` (same meaning as the conditional expression) | NAME = <bool expr> for a name that is later used as a condition | if / else | `for ... in <iter>:` whose
               body may `return` (no else, no break / continue) | numeric statements: Assign / AugAssign / tuple-unpacking Assign /
               `for` loops without return-raise-break-continue, none of which may assign a tolerance or boolean name
  tolerance expr: NAME | Settings.get_atol() | A if NAME is None else B | 0.0 | None
  tolerance names: parameters / locals called atol, rtol, atol_eq_const, atol_ineq_const
  bool expr  : and / or / not | X == False | X is False | X == True | X is True | True / False | boolean local | attribute whose
               name starts with `is_` (not called) | anything else = primitive template
  in templates: np.isclose / np.allclose / allclose / isclose / mutil.allclose / mutil.isclose calls get their atol= / rtol= keywords
               made explicit (missing keyword -> hole filled with numpy's default), more than two positional arguments are rejected;
               any other mention of `Settings` is rejected.
  _generate_origin_obj / _generate_zero_obj of the four classes: symbolic evaluation of `np.zeros(..)`, `X[i] = s` / `X[i][j] = s` / `X[i, j] = s`,
               `X.copy()`, `np.hstack([np.array([s], dtype=np.float64), np.zeros(..)])`, a nested `def f(): return <expr>`, a list comprehension over
               self.vecs / self.hss / range(len(..)) whose element does not depend on the loop variable; scalars s: 1, np.sqrt(self.dim),
               len(self.vecs|self.hss), quotients -> [arr] / [scal] of C01_Glue.v (shapes are not interpreted)
TRUSTED: this file; the reading of the templates in coq/gen/C01_Equiv.v.
"""
import ast
import copy
import os
import sys

TOLNAMES = ("atol", "rtol", "atol_eq_const", "atol_ineq_const")
CLOSE_FUNCS = ("np.isclose", "np.allclose", "allclose", "isclose", "mutil.allclose", "mutil.isclose")


class Unsupported(Exception):
    pass


def fail(node, msg):
    raise Unsupported("%s (line %s): %s" % (type(node).__name__, getattr(node, "lineno", "?"), msg))


def coq_str(s):
    if any(ord(ch) < 32 or ord(ch) > 126 for ch in s.replace("\n", " ")):
        raise Unsupported("non-printable character in %r" % s)
    return '"%s"' % s.replace('"', '""').replace("\n", " ;; ")


def src(node):
    return ast.unparse(node)


def is_settings_get(node):
    return isinstance(node, ast.Call) and src(node.func) == "Settings.get_atol" and not node.args and not node.keywords


def names_loaded(node):
    return {n.id for n in ast.walk(node) if isinstance(n, ast.Name)}


def targets_of(stmt):
    out = set()
    for n in ast.walk(stmt):
        if isinstance(n, (ast.Assign, ast.AugAssign, ast.AnnAssign, ast.For)):
            tg = n.targets if isinstance(n, ast.Assign) else [n.target]
            for t in tg:
                for m in ast.walk(t):
                    if isinstance(m, ast.Name):
                        out.add(m.id)
    return out


def has_control(stmt):
    return any(isinstance(n, (ast.Return, ast.Raise, ast.Break, ast.Continue, ast.Yield, ast.YieldFrom)) for n in ast.walk(stmt))


class Fn:
    """translation of one function body"""

    def __init__(self, tr, fdef, label):
        self.tr, self.f, self.label = tr, fdef, label
        allargs = [a.arg for a in fdef.args.args]
        self.params = [a for a in allargs if a in TOLNAMES]
        self.boolvars = self.find_boolvars(fdef)
        for n in ast.walk(fdef):
            if isinstance(n, (ast.Lambda, ast.FunctionDef, ast.ClassDef, ast.With, ast.Try, ast.While, ast.Global, ast.Nonlocal)) and n is not fdef:
                fail(n, "construct not in the subset")

    # ---- names used in boolean position and assigned in the function
    def find_boolvars(self, fdef):
        used = set()

        def cond(e):
            if isinstance(e, ast.Name):
                used.add(e.id)
            elif isinstance(e, ast.BoolOp):
                for v in e.values:
                    cond(v)
            elif isinstance(e, ast.UnaryOp) and isinstance(e.op, ast.Not):
                cond(e.operand)
            elif isinstance(e, ast.Compare) and len(e.ops) == 1 and isinstance(e.comparators[0], ast.Constant) and e.comparators[0].value in (True, False):
                cond(e.left)
        for n in ast.walk(fdef):
            if isinstance(n, ast.If):
                cond(n.test)
            elif isinstance(n, ast.Return) and n.value is not None:
                cond(n.value)
        assigned = set()
        for n in ast.walk(fdef):
            if isinstance(n, ast.Assign) and len(n.targets) == 1 and isinstance(n.targets[0], ast.Name):
                assigned.add(n.targets[0].id)
        return (used & assigned) - set(TOLNAMES)

    # ---- tolerance expressions
    def tol(self, e):
        if isinstance(e, ast.Name) and e.id in TOLNAMES:
            return 'TVar "%s"' % e.id
        if is_settings_get(e):
            return "TSettings"
        if isinstance(e, ast.Constant) and e.value is None:
            return "TNone"
        if isinstance(e, ast.Constant) and isinstance(e.value, (int, float)) and not isinstance(e.value, bool) and e.value == 0:
            return "TZero"
        if (isinstance(e, ast.IfExp) and isinstance(e.test, ast.Compare) and len(e.test.ops) == 1 and isinstance(e.test.ops[0], ast.Is)
                and isinstance(e.test.left, ast.Name) and e.test.left.id in TOLNAMES
                and isinstance(e.test.comparators[0], ast.Constant) and e.test.comparators[0].value is None):
            return '(TIfNone "%s" %s %s)' % (e.test.left.id, self.wrap(self.tol(e.body)), self.wrap(self.tol(e.orelse)))
        fail(e, "tolerance expression not in the subset: %s" % src(e))

    @staticmethod
    def wrap(s):
        return s if s.startswith("(") or " " not in s else "(%s)" % s

    # ---- templates
    def holeify(self, node, holes):
        """returns a copy of `node` in which tolerance-valued sub-expressions are replaced by hole markers; appends their tol terms"""
        fn = self

        class T(ast.NodeTransformer):
            def hole(self, t):
                holes.append(t)
                return ast.Name(id="__H%d__" % (len(holes) - 1), ctx=ast.Load())

            def visit_Name(self, n):
                if n.id in TOLNAMES:
                    if not isinstance(n.ctx, ast.Load):
                        fail(n, "a numeric statement assigns the tolerance name %s" % n.id)
                    return self.hole('TVar "%s"' % n.id)
                if n.id == "Settings":
                    fail(n, "use of Settings outside `Settings.get_atol()`")
                return n

            def visit_IfExp(self, n):
                if any(isinstance(m, ast.Name) and m.id in TOLNAMES for m in ast.walk(n.test)):
                    return self.hole(fn.tol(n))
                return self.generic_visit(n)

            def visit_Call(self, n):
                if is_settings_get(n):
                    return self.hole("TSettings")
                n.func = self.visit(n.func)
                n.args = [self.visit(a) for a in n.args]
                if src(n.func) in CLOSE_FUNCS:
                    if len(n.args) != 2:
                        fail(n, "%s with %d positional arguments" % (src(n.func), len(n.args)))
                    kws = {}
                    other = []
                    for k in n.keywords:
                        if k.arg in ("atol", "rtol"):
                            if k.arg in kws:
                                fail(n, "duplicate keyword")
                            kws[k.arg] = k.value
                        elif k.arg is None:
                            fail(n, "**kwargs")
                        else:
                            other.append(ast.keyword(arg=k.arg, value=self.visit(k.value)))
                    new = []
                    for nm, dflt in (("atol", "TDefaultAtol"), ("rtol", "TDefaultRtol")):
                        if nm in kws:
                            v = kws[nm]
                            new.append(ast.keyword(arg=nm, value=self.hole(fn.tol(v))))
                        else:
                            new.append(ast.keyword(arg=nm, value=self.hole(dflt)))
                    n.keywords = other + new
                    return n
                newk = []
                for k in n.keywords:
                    if k.arg is None:
                        fail(n, "**kwargs")
                    if k.arg in TOLNAMES and isinstance(k.value, ast.Constant):
                        newk.append(ast.keyword(arg=k.arg, value=self.hole(fn.tol(k.value))))
                    else:
                        newk.append(ast.keyword(arg=k.arg, value=self.visit(k.value)))
                n.keywords = newk
                return n
        return T().visit(copy.deepcopy(node))

    def template(self, e, prelude):
        """primitive for the boolean-valued expression e; prelude: list of numeric statements (ast) in scope, in order"""
        need = names_loaded(e)
        chosen = []
        for st in reversed(prelude):
            if isinstance(st, str):                 # loop header marker
                chosen.append(st)
                continue
            if targets_of(st) & need:
                chosen.append(st)
                need |= names_loaded(st)
        chosen.reverse()
        holes = []
        parts = []
        for st in chosen:
            parts.append(st if isinstance(st, str) else src(self.holeify(st, holes)))
        parts.append(src(self.holeify(e, holes)))
        text = "\n".join(parts)
        for k in range(len(holes)):
            text = text.replace("__H%d__" % k, "<%d>" % k)
        if "__H" in text or "Settings" in text:
            fail(e, "internal: unresolved marker")
        tid = self.tr.template_id(text, self.label)
        return "(BPrim @@T%d@@ [%s])" % (tid, "; ".join(holes))

    # ---- boolean expressions
    def bexp(self, e, prelude):
        if isinstance(e, ast.BoolOp):
            op = "BAnd" if isinstance(e.op, ast.And) else "BOr"
            out = self.bexp(e.values[-1], prelude)
            for v in reversed(e.values[:-1]):
                out = "(%s %s %s)" % (op, self.bexp(v, prelude), out)
            return out
        if isinstance(e, ast.UnaryOp) and isinstance(e.op, ast.Not):
            return "(BNot %s)" % self.bexp(e.operand, prelude)
        if isinstance(e, ast.Compare) and len(e.ops) == 1 and isinstance(e.comparators[0], ast.Constant) and e.comparators[0].value in (True, False) \
                and isinstance(e.comparators[0].value, bool) and isinstance(e.ops[0], (ast.Eq, ast.Is)):
            inner = self.bexp(e.left, prelude)
            return "(%s %s)" % ("BIsTrue" if e.comparators[0].value else "BEqFalse", inner)
        if isinstance(e, ast.Constant) and isinstance(e.value, bool):
            return "BTrue" if e.value else "BFalse"
        if isinstance(e, ast.Name) and e.id in self.boolvars:
            return '(BVar "%s")' % e.id
        if isinstance(e, ast.Name) and e.id in TOLNAMES:
            fail(e, "tolerance used as a condition")
        if isinstance(e, ast.Attribute) and e.attr.startswith("is_"):
            return "(BFlag %s)" % coq_str(src(e))
        return self.template(e, prelude)

    # ---- statements
    @staticmethod
    def terminates(body):
        if not body:
            return False
        last = body[-1]
        if isinstance(last, (ast.Return, ast.Raise)):
            return True
        if isinstance(last, ast.If) and last.orelse:
            return Fn.terminates(last.body) and Fn.terminates(last.orelse)
        return False

    def block(self, stmts, prelude, in_loop=False):
        if not stmts:
            return "SPass"
        s, rest = stmts[0], stmts[1:]
        if isinstance(s, ast.Expr) and isinstance(s.value, ast.Constant) and isinstance(s.value.value, str):
            return self.block(rest, prelude, in_loop)
        if isinstance(s, ast.Return):
            if s.value is None:
                fail(s, "bare return")
            return "(SRet %s)" % self.bexp(s.value, prelude)
        if isinstance(s, ast.Raise):
            return "SRaise"
        if isinstance(s, ast.Assign) and len(s.targets) == 1 and isinstance(s.targets[0], ast.Name) and s.targets[0].id in TOLNAMES:
            if any(not isinstance(p, str) for p in prelude):
                fail(s, "tolerance name assigned after numeric statements")
            return '(SLetTol "%s" %s %s)' % (s.targets[0].id, self.wrap(self.tol(s.value)), self.block(rest, prelude, in_loop))
        if isinstance(s, ast.Assign) and len(s.targets) == 1 and isinstance(s.targets[0], ast.Name) and s.targets[0].id in self.boolvars:
            return '(SLetBool "%s" %s %s)' % (s.targets[0].id, self.bexp(s.value, prelude), self.block(rest, prelude, in_loop))
        if (isinstance(s, ast.If) and not s.orelse and len(s.body) == 1 and isinstance(s.body[0], ast.Assign)
                and isinstance(s.test, ast.Compare) and len(s.test.ops) == 1 and isinstance(s.test.ops[0], ast.Is)
                and isinstance(s.test.left, ast.Name) and s.test.left.id in TOLNAMES
                and isinstance(s.test.comparators[0], ast.Constant) and s.test.comparators[0].value is None
                and len(s.body[0].targets) == 1 and isinstance(s.body[0].targets[0], ast.Name) and s.body[0].targets[0].id == s.test.left.id):
            # `if atol is None: atol = <tol>`  ==  `atol = <tol> if atol is None else atol`
            if any(not isinstance(p, str) for p in prelude):
                fail(s, "tolerance name assigned after numeric statements")
            x = s.test.left.id
            return '(SLetTol "%s" (TIfNone "%s" %s (TVar "%s")) %s)' % (x, x, self.wrap(self.tol(s.body[0].value)), x, self.block(rest, prelude, in_loop))
        if isinstance(s, ast.If):
            c = self.bexp(s.test, prelude)
            th = self.block(list(s.body) + ([] if self.terminates(s.body) else list(rest)), list(prelude), in_loop)
            el = self.block(list(s.orelse) + ([] if (s.orelse and self.terminates(s.orelse)) else list(rest)), list(prelude), in_loop)
            return "(SIf %s %s %s)" % (c, th, el)
        if isinstance(s, ast.For) and has_control(s):
            if in_loop:
                fail(s, "nested loop with return")
            if s.orelse or any(isinstance(n, (ast.Break, ast.Continue)) for n in ast.walk(s)):
                fail(s, "for-else / break / continue")
            if targets_of(s) & (set(TOLNAMES) | self.boolvars) - self.boolvars_assigned_in(s):
                fail(s, "loop assigns a tolerance name")
            head = "for %s in %s:" % (src(s.target), src(s.iter))
            body = self.block(list(s.body), list(prelude) + [head], True)
            return "(SLoop %s %s %s)" % (coq_str(src(s.iter)), body, self.block(rest, prelude, in_loop))
        if isinstance(s, (ast.Assign, ast.AugAssign, ast.For)) and not has_control(s):
            if targets_of(s) & (set(TOLNAMES) | self.boolvars):
                fail(s, "numeric statement assigns a tolerance / boolean name")
            return self.block(rest, list(prelude) + [s], in_loop)
        fail(s, "statement not in the subset: %s" % src(s).splitlines()[0])

    def boolvars_assigned_in(self, node):
        return {t for t in targets_of(node) if t in self.boolvars}


class Translator:
    def __init__(self, root):
        self.root = root
        self.templates = []
        self.where = []
        self.defs = []
        self.const_defs = []

    def template_id(self, text, label):
        if text in self.templates:
            return self.templates.index(text)
        self.templates.append(text)
        self.where.append(label)
        return len(self.templates) - 1

    @staticmethod
    def renumber(body, newid):
        import re
        return re.sub(r"@@T(\d+)@@", lambda m: str(newid[int(m.group(1))]), body)

    def load(self, rel):
        return ast.parse(open(os.path.join(self.root, rel)).read())

    @staticmethod
    def find(tree, cls, name):
        scope = tree.body
        if cls:
            cs = [n for n in tree.body if isinstance(n, ast.ClassDef) and n.name == cls]
            if len(cs) != 1:
                raise Unsupported("class %s not found exactly once" % cls)
            scope = cs[0].body
        fs = [n for n in scope if isinstance(n, ast.FunctionDef) and n.name == name]
        if len(fs) != 1:
            raise Unsupported("%s.%s not found exactly once" % (cls or "<module>", name))
        return fs[0]

    def function(self, tree, cls, name, coq):
        f = self.find(tree, cls, name)
        if f.decorator_list and [src(d) for d in f.decorator_list] != ["abstractmethod"]:
            raise Unsupported("%s is decorated" % coq)
        if f.args.vararg or f.args.kwarg or f.args.kwonlyargs or f.args.posonlyargs:
            raise Unsupported("%s: *args / **kwargs / keyword-only parameters" % coq)
        for a, d in zip(reversed(f.args.args), reversed(f.args.defaults)):
            if a.arg in TOLNAMES and not (isinstance(d, ast.Constant) and d.value is None):
                raise Unsupported("%s: default of %s is not None" % (coq, a.arg))
        fn = Fn(self, f, coq)
        body = fn.block(list(f.body), [])
        self.defs.append((coq, fn.params, body))

    def ctor_guards(self, tree, cls, coq):
        """the guards of __init__ that mention is_physical / the basis flag; the physicality guard must be the LAST statement"""
        f = self.find(tree, cls, "__init__")
        fn = Fn.__new__(Fn)
        fn.tr, fn.f, fn.label, fn.params, fn.boolvars = self, f, coq, [], set()
        guards = []
        for i, s in enumerate(f.body):
            if isinstance(s, ast.Expr) and isinstance(s.value, ast.Constant) and isinstance(s.value.value, str):
                continue                # docstring
            txt = src(s)
            if "is_physical" in txt or "is_orthonormal_hermitian_0thprop_identity" in txt or "is_physicality_required" in txt:
                if isinstance(s, ast.Expr) and isinstance(s.value, ast.Call) and src(s.value.func) == "super().__init__":
                    continue            # keyword forwarding of is_physicality_required to QOperation.__init__
                if not isinstance(s, ast.If) or s.orelse or len(s.body) != 1 or not isinstance(s.body[0], ast.Raise):
                    raise Unsupported("%s: statement mentioning physicality is not `if ...: raise`: %s" % (coq, txt.splitlines()[0]))
                guards.append((i, s))
        if not guards or "is_physical" not in src(guards[-1][1].test) or guards[-1][0] != len(f.body) - 1:
            raise Unsupported("%s: the physicality guard is not the last statement of __init__" % coq)
        body = "SPass"
        for _, s in reversed(guards):
            body = "(SIf %s SRaise %s)" % (fn.bexp(s.test, []), body)
        self.defs.append((coq, [], body))

    def run(self):
        q = self.load("quara/objects/qoperation.py")
        self.function(q, "QOperation", "is_physical", "gen_QOperation_is_physical")
        mu = self.load("quara/utils/matrix_util.py")
        self.function(mu, None, "is_hermitian", "gen_mutil_is_hermitian")
        self.function(mu, None, "is_positive_semidefinite", "gen_mutil_is_positive_semidefinite")
        st = self.load("quara/objects/state.py")
        for n in ("is_eq_constraint_satisfied", "is_ineq_constraint_satisfied", "is_trace_one", "is_hermitian", "is_positive_semidefinite"):
            self.function(st, "State", n, "gen_State_" + n)
        self.ctor_guards(st, "State", "gen_State_init_guards")
        pv = self.load("quara/objects/povm.py")
        for n in ("is_eq_constraint_satisfied", "is_ineq_constraint_satisfied", "is_identity_sum", "is_positive_semidefinite"):
            self.function(pv, "Povm", n, "gen_Povm_" + n)
        self.ctor_guards(pv, "Povm", "gen_Povm_init_guards")
        gt = self.load("quara/objects/gate.py")
        for n in ("is_eq_constraint_satisfied", "is_ineq_constraint_satisfied", "is_tp", "is_cp"):
            self.function(gt, "Gate", n, "gen_Gate_" + n)
        self.function(gt, None, "is_tp", "gen_gate_is_tp")
        self.function(gt, None, "is_cp", "gen_gate_is_cp")
        self.ctor_guards(gt, "Gate", "gen_Gate_init_guards")
        mp = self.load("quara/objects/mprocess.py")
        for n in ("is_eq_constraint_satisfied", "is_ineq_constraint_satisfied", "is_sum_tp", "is_cp"):
            self.function(mp, "MProcess", n, "gen_MProcess_" + n)
        self.ctor_guards(mp, "MProcess", "gen_MProcess_init_guards")
        self.settings()
        for tree, cls in ((st, "State"), (pv, "Povm"), (gt, "Gate"), (mp, "MProcess")):
            self.const_array(tree, cls, "_generate_origin_obj", "gen_%s_origin" % cls)
            self.const_array(tree, cls, "_generate_zero_obj", "gen_%s_zero" % cls)

    def settings(self):
        """quara/settings.py: Settings.get_atol / Settings.set_atol (classmethods over one name-mangled class attribute)"""
        tree = self.load("quara/settings.py")
        out = []
        for name in ("get_atol", "set_atol"):
            f = self.find(tree, "Settings", name)
            if [src(d) for d in f.decorator_list] != ["classmethod"]:
                raise Unsupported("Settings.%s is not a plain classmethod" % name)
            body = [b for b in f.body if not (isinstance(b, ast.Expr) and isinstance(b.value, ast.Constant) and isinstance(b.value.value, str))]
            args = [a.arg for a in f.args.args]
            if name == "get_atol":
                if args != ["cls"] or len(body) != 1 or not isinstance(body[0], ast.Return) or not isinstance(body[0].value, ast.Attribute) \
                        or src(body[0].value.value) != "cls":
                    raise Unsupported("Settings.get_atol is not `return cls.<attr>`")
                out.append(("gen_Settings_get_atol", 'SsRet "%s"' % body[0].value.attr))
            else:
                if args != ["cls", "atol"] or f.args.defaults:
                    raise Unsupported("Settings.set_atol signature")
                term = None
                st = body[-1] if body else None
                if not (isinstance(st, ast.Assign) and len(st.targets) == 1 and isinstance(st.targets[0], ast.Attribute)
                        and src(st.targets[0].value) == "cls" and isinstance(st.value, ast.Name) and st.value.id == "atol"):
                    raise Unsupported("Settings.set_atol does not end with `cls.<attr> = atol`")
                term = 'SsStore "%s" "atol"' % st.targets[0].attr
                for g in reversed(body[:-1]):
                    if (isinstance(g, ast.If) and not g.orelse and len(g.body) == 1 and isinstance(g.body[0], ast.Raise)
                            and src(g.test) == "type(atol) != float" and src(g.body[0].exc.func) == "TypeError"):
                        term = 'SsRequireFloat "atol" (%s)' % term
                    else:
                        raise Unsupported("Settings.set_atol: statement not in the subset: %s" % src(g).splitlines()[0])
                out.append(("gen_Settings_set_atol", term))
        # the default: class-level  __first_default_atol = <float literal> ; __atol = __first_default_atol
        cls = [n for n in tree.body if isinstance(n, ast.ClassDef) and n.name == "Settings"][0]
        consts = {}
        for n in cls.body:
            if isinstance(n, ast.Assign) and len(n.targets) == 1 and isinstance(n.targets[0], ast.Name):
                v = n.value
                if isinstance(v, ast.Name) and v.id in consts:
                    consts[n.targets[0].id] = consts[v.id]
                elif isinstance(v, ast.Constant) and isinstance(v.value, float):
                    consts[n.targets[0].id] = repr(v.value)
                else:
                    raise Unsupported("Settings: class attribute %s is not a float literal / alias" % n.targets[0].id)
        self.settings_defs = out
        self.settings_consts = consts

    # ---- _generate_origin_obj / _generate_zero_obj: symbolic evaluation of "zeros with one entry set"
    def const_array(self, tree, cls, name, coq):
        f = self.find(tree, cls, name)
        if f.decorator_list or [a.arg for a in f.args.args] != ["self"]:
            raise Unsupported("%s: signature" % coq)
        env, funcs = {}, {}

        def scal(e):
            if isinstance(e, ast.Constant) and isinstance(e.value, (int, float)) and not isinstance(e.value, bool) and e.value == 1:
                return "SOne"
            if isinstance(e, ast.Call) and src(e.func) == "np.sqrt" and len(e.args) == 1 and not e.keywords and src(e.args[0]) == "self.dim":
                return "SSqrtDim"
            if isinstance(e, ast.Call) and src(e.func) == "len" and len(e.args) == 1 and src(e.args[0]) in ("self.vecs", "self.hss"):
                return "SLen"
            if isinstance(e, ast.BinOp) and isinstance(e.op, ast.Div):
                return "(SDiv %s %s)" % (scal(e.left), scal(e.right))
            fail(e, "scalar expression not in the subset: %s" % src(e))

        def is_zeros(e):
            return isinstance(e, ast.Call) and src(e.func) == "np.zeros" and len(e.args) == 1 and all(k.arg == "dtype" and src(k.value) == "np.float64" for k in e.keywords)

        def val(e):
            """-> ("arr", {index tuple: scalar}) | ("rep", arrvalue, iter source) | ("opaque",)"""
            if is_zeros(e):
                return ("arr", {})
            if isinstance(e, ast.Name):
                if e.id not in env:
                    fail(e, "unbound name %s" % e.id)
                return env[e.id]
            if isinstance(e, ast.Call) and isinstance(e.func, ast.Attribute) and e.func.attr == "copy" and not e.args and not e.keywords:
                v = val(e.func.value)
                if v[0] != "arr":
                    fail(e, ".copy() of a non-array")
                return ("arr", dict(v[1]))
            if isinstance(e, ast.Call) and isinstance(e.func, ast.Name) and e.func.id in funcs and not e.args and not e.keywords:
                return val(funcs[e.func.id])
            if isinstance(e, ast.Call) and src(e.func) == "np.hstack" and len(e.args) == 1 and not e.keywords and isinstance(e.args[0], ast.List) and len(e.args[0].elts) == 2:
                a, z = e.args[0].elts
                if (isinstance(a, ast.Call) and src(a.func) == "np.array" and len(a.args) == 1 and isinstance(a.args[0], ast.List) and len(a.args[0].elts) == 1
                        and all(k.arg == "dtype" and src(k.value) == "np.float64" for k in a.keywords) and is_zeros(z)):
                    return ("arr", {(0,): scal(a.args[0].elts[0])})
                fail(e, "np.hstack pattern")
            if isinstance(e, ast.ListComp) and len(e.generators) == 1 and not e.generators[0].ifs and isinstance(e.generators[0].target, ast.Name):
                g = e.generators[0]
                if g.target.id in names_loaded(e.elt):
                    fail(e, "list element depends on the loop variable")
                it = src(g.iter)
                if it not in ("self.hss", "self.vecs", "range(len(self.vecs))", "range(len(self.hss))"):
                    fail(e, "list comprehension over %s" % it)
                v = val(e.elt)
                if v[0] != "arr":
                    fail(e, "list of non-arrays")
                return ("rep", v, it)
            return ("opaque",)

        result = None
        for st in f.body:
            if isinstance(st, ast.Expr) and isinstance(st.value, ast.Constant) and isinstance(st.value.value, str):
                continue
            if result is not None:
                fail(st, "statement after return")
            if isinstance(st, ast.FunctionDef):
                body = [b for b in st.body if not (isinstance(b, ast.Expr) and isinstance(b.value, ast.Constant))]
                if st.args.args or len(body) != 1 or not isinstance(body[0], ast.Return):
                    fail(st, "nested function is not `def f(): return <expr>`")
                funcs[st.name] = body[0].value
            elif isinstance(st, ast.Assign) and len(st.targets) == 1 and isinstance(st.targets[0], ast.Name):
                env[st.targets[0].id] = val(st.value)
            elif isinstance(st, ast.Assign) and len(st.targets) == 1 and isinstance(st.targets[0], ast.Subscript):
                idx, base = [], st.targets[0]
                while isinstance(base, ast.Subscript):
                    sl = base.slice
                    parts = list(sl.elts) if isinstance(sl, ast.Tuple) else [sl]
                    if not all(isinstance(q, ast.Constant) and isinstance(q.value, int) and q.value >= 0 for q in parts):
                        fail(st, "index is not a non-negative integer literal")
                    idx = [q.value for q in parts] + idx
                    base = base.value
                if not isinstance(base, ast.Name) or env.get(base.id, ("x",))[0] != "arr":
                    fail(st, "subscript assignment to a non-array")
                env[base.id][1][tuple(idx)] = scal(st.value)
            elif isinstance(st, ast.Return) and st.value is not None:
                result = val(st.value)
            else:
                fail(st, "statement not in the subset: %s" % src(st).splitlines()[0])
        if result is None or result[0] == "opaque":
            raise Unsupported("%s: result is not a constant array / list of constant arrays" % coq)
        it = ""
        if result[0] == "rep":
            it, result = result[2], result[1]
        ent = result[1]
        if len(ent) == 0:
            term = "AZeros"
        elif len(ent) == 1:
            (ix, sc), = ent.items()
            term = ("ASet1 %d %s" % (ix[0], sc)) if len(ix) == 1 else ("ASet2 %d %d %s" % (ix[0], ix[1], sc)) if len(ix) == 2 else None
            if term is None:
                raise Unsupported("%s: index of rank %d" % (coq, len(ix)))
        else:
            raise Unsupported("%s: more than one entry set" % coq)
        self.const_defs.append((coq, term, it))

    def emit(self):
        # canonical numbering: position in the SORTED table, so that merely reordering operands / functions does not renumber
        order = sorted(range(len(self.templates)), key=lambda i: self.templates[i])
        newid = {old: new for new, old in enumerate(order)}
        self.defs = [(c, p, self.renumber(b, newid)) for c, p, b in self.defs]
        self.where = [self.where[i] for i in order]
        self.templates = [self.templates[i] for i in order]
        out = ["(* GENERATED by gen/c01_py2coq.py from the current quara source -- do not edit *)",
               "From Coq Require Import String List.", "From QV.Model Require Import C01_Glue.", "Import ListNotations.",
               "Local Open Scope string_scope.", ""]
        out.append("Definition gen_templates : list string := [")
        for i, (t, w) in enumerate(zip(self.templates, self.where)):
            out.append("  (* %d, used in %s *) %s%s" % (i, w, coq_str(t), ";" if i + 1 < len(self.templates) else ""))
        out.append("].")
        out.append("")
        for coq, params, body in self.defs:
            out.append("Definition %s_params : list string := [%s]." % (coq, "; ".join('"%s"' % p for p in params)))
            out.append("Definition %s : stmt := %s." % (coq, body))
            out.append("")
        for coq, term, it in self.const_defs:
            out.append("Definition %s : arr := %s." % (coq, term))
            out.append("Definition %s_iter : string := %s." % (coq, coq_str(it)))
        out.append("")
        for coq, term in self.settings_defs:
            out.append("Definition %s : sstmt := %s." % (coq, term))
        out.append("Definition gen_Settings_class_attrs : list (string * string) := [%s]."
                   % "; ".join('(%s, %s)' % (coq_str(k), coq_str(v)) for k, v in sorted(self.settings_consts.items())))
        out.append("")
        return "\n".join(out)


def main():
    root, dst = sys.argv[1], sys.argv[2]
    tr = Translator(root)
    try:
        tr.run()
        text = tr.emit()
    except Unsupported as e:
        print("UNSUPPORTED: %s" % e)
        sys.exit(3)
    with open(dst, "w") as f:
        f.write(text)
    print("translated %d functions, %d templates" % (len(tr.defs), len(tr.templates)))


if __name__ == "__main__":
    main()
