#!/usr/bin/env python3
"""Fail-closed translator (property C14) from a small imperative subset of Python to Gallina over the combinators of
coq/theories/Model/C14_PySem.v.  Used to REGENERATE, on every run, from /repo's CURRENT source

  quara/qcircuit/data_generator.py       calc_empi_dist_sequence(measurement_num, data, num_sums)
  quara/utils/number_util.py             to_stream(seed_or_generator)
  quara/qcircuit/experiment.py           Experiment.reset_seed_data(self, seed_data), Experiment.seed_data (property)
  quara/protocol/qtomography/qtomography.py   QTomography.reset_seed(self, seed)

coq/gen/C14_Equiv2.v then re-proves that the regenerated definitions equal the hand-written models (empi_seq, to_stream,
reset_seed_data, tomo_reset_seed).  Anything outside the subset raises Unsupported: the tie is reported broken, never skipped.

Every function becomes  gen_<name> : ... -> pyres T   (PyVal v = returned v, PyExc cls msg = raised cls(msg...); msg is the
leading literal part of the message expression).

Subset
  statements   docstring; NAME = e; NAME op= e (+ - *); NAME = LIST[e]  (Python index semantics, IndexError);
               NAME = np.zeros((e), dtype=int) (ValueError for a negative size); LIST[e] += e (IndexError);
               LIST.append(e); if / elif / else (any nesting); one level of `for x in LIST` / `for i, x in enumerate(LIST)` with
               `return` / `raise` anywhere inside (-> fold_left over (carried variables, finished?)); return e;
               raise Cls(<str constant | f-string | name bound to one>); attribute stores / effect calls listed in the signature
               (`self._seed_data = e`, `np.random.seed(e)`, `self._experiment.reset_seed_data(e)`) -> an effect list
  expressions  int / None / True / False constants, names, + - *, comparisons (chained too), `is None` / `is not None`, and / or / not,
               len(LIST), [], tuples, ARRAY / (int), isinstance(x, (int, np.integer)), source expressions listed in the signature
               as abstractions (`np.random`, `np.random.Generator(np.random.MT19937(x))`, `self._experiment.seed_data`)
  types        Z, bool, F (field), optZ (None or int), pyval (a Python value), list:T, prod:T,..., str
  monadic functions (signature key "monadic"): calls / stores listed in the signature as operations ("ops": AST patterns with holes
               _0 .., kinds pure / monadic / store) become operations of the state-and-exception monad SM W of C14_PySem.v
               (mret / mbind / mraise / mfor); `x = A if c else B`; `if x is None` on optional values (match with the payload
               rebound); `for ... in zip(A, B)` / `enumerate(zip(A, B))` / `range(e)`; non-empty list literals; LIST * int;
               `return LIST[e]`; a nested one-parameter `def f(x): return e` (closure over the variables in scope) and calls `f(a)`
A function without `return` must be an effect function (signature key "effect_function"): it returns (final attributes..., effects).
"""
import ast, json, os, sys


class Unsupported(Exception):
    pass


def fail(node, msg):
    raise Unsupported("%s (line %s): %s" % (type(node).__name__, getattr(node, "lineno", "?"), msg))


def coq_str(s):
    if any(ord(ch) < 32 or ord(ch) > 126 for ch in s):
        raise Unsupported("non-printable character in string constant %r" % s)
    return '"%s"%%string' % s.replace('"', '""')


ATOMS = {"Z", "bool", "F", "pyval", "nat", "unit"}          # + the abstract types named in a signature ("atoms")


def coq_type(t):
    if t in ATOMS:
        return t
    if t.startswith("opt:"):
        return "(option %s)" % coq_type(t[4:])
    if t.startswith("fun:"):
        a, b = t[4:].split(">", 1)
        return "(%s -> %s)" % (coq_type(a), coq_type(b))
    if t == "optZ":
        return "(option Z)"
    if t == "str":
        return "string"
    if t == "eff":
        return "eff"
    if t.startswith("list:"):
        return "(list %s)" % coq_type(t[5:])
    if t.startswith("prod:"):
        return "(" + " * ".join(coq_type(x) for x in t[5:].split(",")) + ")"
    raise Unsupported("type " + t)


CLASH = {"length", "rev", "map", "seq", "combine", "fold_left", "fst", "snd", "negb", "nil", "cons", "app", "Some", "None", "F", "kleb",
         "cadd", "csub", "cmul", "c0", "c1", "repeat", "nth", "fin_", "effs_", "PyVal", "PyExc", "tt", "string", "list", "option"}


class Fn:
    def __init__(self, fdef, sig):
        self.f, self.sig = fdef, sig
        self.abstr = sig.get("abstractions", {})          # source text (with {0} hole or without) -> [coq, result type, (arg type)]
        self.effects = sig.get("effects", {})             # source pattern with {0} -> constructor
        self.attrs = sig.get("attrs", {})                 # "self._seed_data" -> type   (readable / writable attribute, part of the result)
        self.types = {}
        self.loop = None                                  # names of the carried variables while inside a loop body
        self.is_effect = bool(sig.get("effect_function"))
        self.monadic = bool(sig.get("monadic"))           # the function runs in the state-and-exception monad SM W of C14_PySem.v
        self.ops = []                                     # (pattern AST, spec): calls / expressions mapped to operations of the model
        for spec in sig.get("ops", []):
            self.ops.append((ast.parse(spec["pattern"], mode="eval").body, spec))
        called = {id(n.func) for n in ast.walk(fdef) if isinstance(n, ast.Call)}
        for n in ast.walk(fdef):
            if isinstance(n, ast.Name) and n.id in CLASH and id(n) not in called:
                n.id += "_py"
            if isinstance(n, ast.arg) and n.arg in CLASH:
                n.arg += "_py"
            if isinstance(n, ast.FunctionDef) and n is not fdef and n.name in sig.get("local_funs", {}):
                continue
            if isinstance(n, (ast.While, ast.Try, ast.With, ast.FunctionDef, ast.Lambda, ast.Global, ast.Nonlocal, ast.Yield, ast.YieldFrom,
                              ast.Await, ast.ClassDef, ast.Delete, ast.Import, ast.ImportFrom, ast.Assert, ast.Break, ast.Continue)) and n is not fdef:
                fail(n, "construct outside the subset")

    def mangle(self, src):
        return src.replace(".", "_").replace("self__", "self_")

    # ------------------------------------------------------------------ expressions (total): (coq, type)
    def hole_match(self, e, table):
        """table: pattern -> spec; a pattern is source text, possibly with one hole {0}"""
        src = ast.unparse(e)
        for pat, spec in table.items():
            if "{0}" not in pat:
                if pat == src:
                    return spec, None
                continue
            for n in ast.walk(e):
                if isinstance(n, ast.expr) and n is not e and pat.format(ast.unparse(n)) == src:
                    return spec, n
        return None, None

    def unify(self, pat, e, binds):
        """pattern AST (holes are the names _0 .. _9) against an expression AST"""
        if isinstance(pat, ast.Name) and len(pat.id) == 2 and pat.id[0] == "_" and pat.id[1].isdigit():
            if pat.id in binds:
                return ast.unparse(binds[pat.id]) == ast.unparse(e)
            binds[pat.id] = e
            return True
        if type(pat) is not type(e):
            return False
        for f in pat._fields:
            if f in ("ctx", "lineno", "col_offset", "end_lineno", "end_col_offset", "type_comment", "kind"):
                continue
            a, b = getattr(pat, f, None), getattr(e, f, None)
            if isinstance(a, list):
                if not isinstance(b, list) or len(a) != len(b) or not all(self.unify_any(x, y, binds) for x, y in zip(a, b)):
                    return False
            elif not self.unify_any(a, b, binds):
                return False
        return True

    def unify_any(self, a, b, binds):
        if isinstance(a, ast.AST):
            return isinstance(b, ast.AST) and self.unify(a, b, binds)
        return a == b

    def match_op(self, e, kinds):
        for pat, spec in self.ops:
            if spec["kind"] not in kinds:
                continue
            binds = {}
            if self.unify(pat, e, binds):
                holes = [binds["_%d" % i] for i in range(len(spec["args"]))]
                if spec.get("overloaded"):            # several operations share the pattern: the argument types decide
                    saved = dict(self.types)
                    try:
                        self.op_call(e, spec, holes)
                    except Unsupported:
                        self.types = saved
                        continue
                    self.types = saved
                return spec, holes
        return None, None

    def op_call(self, e, spec, holes):
        args = []
        for h, want in zip(holes, spec["args"]):
            a, ta = self.expr(h)
            if ta == "none" and want == "pyval":
                a, ta = "VNone", "pyval"
            if ta == "none" and want.startswith("opt:"):
                a, ta = "None", want
            if ta == "list:?" and want.startswith("list:"):
                ta = want
            if ta != want:
                fail(e, "operation %s expects %s, got %s" % (spec["coq"], want, ta))
            args.append(a)
        c = "(%s%s)" % (spec["coq"], "".join(" " + a for a in args))
        if spec.get("lift"):                      # a translated function without effects (result pyres T) used inside a monadic one
            c = "(mlift %s)" % c
        return c, spec["result"]

    def expr(self, e):
        spec, holes = self.match_op(e, ("pure",))
        if spec is not None:
            return self.op_call(e, spec, holes)
        src = ast.unparse(e)
        if src in self.attrs:
            nm = self.mangle(src)
            return nm, self.types[nm]
        spec, hole = self.hole_match(e, self.abstr)
        if spec is not None:
            if hole is None:
                return spec[0], spec[1]
            a, ta = self.expr(hole)
            if ta != spec[2]:
                fail(e, "abstraction %s expects %s, got %s" % (src, spec[2], ta))
            return "(%s %s)" % (spec[0], a), spec[1]
        if isinstance(e, ast.Constant):
            if e.value is None:
                return "None", "none"
            if isinstance(e.value, bool):
                return ("true" if e.value else "false"), "bool"
            if type(e.value) is int:
                return "(%d)%%Z" % e.value, "Z"
            fail(e, "constant %r" % (e.value,))
        if isinstance(e, ast.Name):
            if e.id not in self.types:
                fail(e, "unknown variable %s" % e.id)
            return e.id, self.types[e.id]
        if isinstance(e, ast.BinOp):
            a, ta = self.expr(e.left)
            b, tb = self.expr(e.right)
            if isinstance(e.op, ast.Div) and ta == "list:Z" and tb == "Z":
                return "(np_div F %s %s)" % (a, b), "list:F"          # numpy int array / int: elementwise true division
            if isinstance(e.op, ast.Mult) and ta.startswith("list:") and ta != "list:?" and tb == "Z":
                return "(py_list_mul %s %s)" % (a, b), ta              # LIST * int: repetition (empty for int <= 0)
            if ta != "Z" or tb != "Z":
                fail(e, "arithmetic on %s, %s" % (ta, tb))
            ops = {ast.Add: "+", ast.Sub: "-", ast.Mult: "*"}
            if type(e.op) not in ops:
                fail(e, "operator")
            return "(%s %s %s)%%Z" % (a, ops[type(e.op)], b), "Z"
        if isinstance(e, ast.UnaryOp):
            a, ta = self.expr(e.operand)
            if isinstance(e.op, ast.Not) and ta == "bool":
                return "(negb %s)" % a, "bool"
            if isinstance(e.op, ast.USub) and ta == "Z":
                return "(- %s)%%Z" % a, "Z"
            fail(e, "unary operator")
        if isinstance(e, ast.BoolOp):
            parts = [self.expr(v) for v in e.values]
            if any(t != "bool" for _, t in parts):
                fail(e, "boolean operator on non-bool")
            op = " && " if isinstance(e.op, ast.And) else " || "
            return "(" + op.join(p for p, _ in parts) + ")%bool", "bool"
        if isinstance(e, ast.Compare):
            terms = [e.left] + list(e.comparators)
            out = []
            for op, l, r in zip(e.ops, terms, terms[1:]):
                if isinstance(op, (ast.Is, ast.IsNot)):
                    a, ta = self.expr(l)
                    if not (isinstance(r, ast.Constant) and r.value is None):
                        fail(e, "is-comparison with something else than None")
                    if ta == "optZ" or ta.startswith("opt:"):
                        t = "(match %s with None => true | Some _ => false end)" % a
                    elif ta == "pyval":
                        t = "(py_is_none %s)" % a
                    else:
                        fail(e, "is None on %s" % ta)
                    out.append(t if isinstance(op, ast.Is) else "(negb %s)" % t)
                    continue
                a, ta = self.expr(l)
                b, tb = self.expr(r)
                if ta != "Z" or tb != "Z":
                    fail(e, "comparison of %s, %s" % (ta, tb))
                m = {ast.Eq: "(%s =? %s)%%Z", ast.NotEq: "(negb (%s =? %s)%%Z)", ast.Lt: "(%s <? %s)%%Z", ast.LtE: "(%s <=? %s)%%Z",
                     ast.Gt: "(%s >? %s)%%Z", ast.GtE: "(%s >=? %s)%%Z"}
                if type(op) not in m:
                    fail(e, "comparison operator")
                out.append(m[type(op)] % (a, b))
            return (out[0] if len(out) == 1 else "(" + " && ".join(out) + ")%bool"), "bool"
        if isinstance(e, ast.Tuple):
            parts = [self.expr(v) for v in e.elts]
            if len(parts) == 1:
                return parts[0]
            return "(" + ", ".join(p for p, _ in parts) + ")", "prod:" + ",".join(t for _, t in parts)
        if isinstance(e, ast.List):
            if not e.elts:
                return "[]", "list:?"
            parts = [self.expr(v) for v in e.elts]
            if any(t != parts[0][1] for _, t in parts):
                fail(e, "list literal with mixed types")
            return "[" + "; ".join(p for p, _ in parts) + "]", "list:" + parts[0][1]
        if isinstance(e, ast.Call) and isinstance(e.func, ast.Name) and str(self.types.get(e.func.id, "")).startswith("fun:") \
                and len(e.args) == 1 and not e.keywords:
            ta_, tb_ = self.types[e.func.id][4:].split(">", 1)
            a, ta = self.expr(e.args[0])
            if ta != ta_:
                fail(e, "local function %s expects %s, got %s" % (e.func.id, ta_, ta))
            return "(%s %s)" % (e.func.id, a), tb_
        if isinstance(e, ast.Call) and isinstance(e.func, ast.Name):
            fn = e.func.id
            if fn == "len" and len(e.args) == 1 and not e.keywords:
                a, ta = self.expr(e.args[0])
                if not ta.startswith("list"):
                    fail(e, "len of %s" % ta)
                return "(Z.of_nat (length %s))" % a, "Z"
            if fn == "isinstance" and len(e.args) == 2 and not e.keywords and ast.unparse(e.args[1]) in ("(int, np.integer)", "(np.integer, int)"):
                a, ta = self.expr(e.args[0])
                if ta != "pyval":
                    fail(e, "isinstance on %s" % ta)
                return "(py_is_int %s)" % a, "bool"
        fail(e, "expression %s" % src)

    # ------------------------------------------------------------------ helpers
    def tup(self, names):
        return "(" + ", ".join(names) + ")" if len(names) != 1 else names[0]

    def pat(self, names):
        return "'(" + ", ".join(names) + ")" if len(names) != 1 else names[0]

    def finish(self, res):
        """`res` : pyres T terminates the function (pure mode)"""
        if self.loop is not None:
            return self.tup(self.loop + ["Some %s" % res])
        return res

    def ret(self, v):
        if self.monadic:
            return "(mret (inr %s))" % v if self.loop is not None else "(mret %s)" % v
        return self.finish("(PyVal %s)" % v)

    def exc(self, cls, msg):
        if self.monadic:
            return "(mraise %s %s)" % (coq_str(cls), coq_str(msg))
        return self.finish("(PyExc %s %s)" % (coq_str(cls), coq_str(msg)))

    def fall(self, carried):
        """the loop body reaches its end"""
        if self.monadic:
            return "(mret (inl %s))" % self.tup(carried) if carried else "(mret (inl tt))"
        return self.tup(carried + ["None"])

    def bind(self, name, typ, node):
        if typ == "none":
            typ = "optZ"
        old = self.types.get(name)
        if old is not None and old != typ:
            if old == "list:?" and typ.startswith("list:"):
                pass
            elif old.startswith("list:") and typ == "list:?":
                typ = old
            elif self.loop is None and name in self.sig.get("retyped", []):
                pass                                      # straight-line shadowing (listed in the signature), e.g. atol: Optional[float] -> float
            else:
                fail(node, "variable %s changes type %s -> %s" % (name, old, typ))
        self.types[name] = typ

    def assigned(self, stmts):
        out = []
        for s in stmts:
            for n in ast.walk(s):
                tg = None
                if isinstance(n, ast.Assign):
                    for t in n.targets:
                        if isinstance(t, ast.Name):
                            tg = t.id
                        elif isinstance(t, ast.Attribute) and ast.unparse(t) in self.attrs:
                            tg = self.mangle(ast.unparse(t))
                        if tg and tg not in out:
                            out.append(tg)
                elif isinstance(n, ast.AugAssign):
                    if isinstance(n.target, ast.Name):
                        tg = n.target.id
                    elif isinstance(n.target, ast.Subscript) and isinstance(n.target.value, ast.Name):
                        tg = n.target.value.id
                    if tg and tg not in out:
                        out.append(tg)
                elif isinstance(n, ast.Expr) and isinstance(n.value, ast.Call):
                    if isinstance(n.value.func, ast.Attribute) and n.value.func.attr == "append" and isinstance(n.value.func.value, ast.Name):
                        tg = n.value.func.value.id
                    elif self.hole_match(n.value, self.effects)[0] is not None:
                        tg = "effs_"
                    if tg and tg not in out:
                        out.append(tg)
        return out

    def partial(self, s):
        """statements that can raise by themselves"""
        if isinstance(s, ast.Assign) and isinstance(s.value, ast.Subscript):
            return True
        if isinstance(s, ast.Assign) and ast.unparse(s.value).startswith("np.zeros("):
            return True
        if isinstance(s, ast.AugAssign) and isinstance(s.target, ast.Subscript):
            return True
        if isinstance(s, (ast.Assign, ast.Expr, ast.Return)) and s.value is not None:
            if self.match_op(s.value, ("monadic",))[0] is not None:
                return True
            if isinstance(s, ast.Assign) and isinstance(s.value, ast.IfExp) and self.match_op(s.value, ("pure",))[0] is None:
                return True
            if isinstance(s, ast.Assign) and len(s.targets) == 1 and self.match_store(s.targets[0])[0] is not None:
                return True
        return False

    def match_store(self, tg):
        """an assignment TARGET that is an operation of the model (e.g. `exp.states[i] = x`): spec, holes (value is the last argument)"""
        for pat, spec in self.ops:
            if spec["kind"] != "store":
                continue
            binds = {}
            if self.unify(pat, tg, binds):
                return spec, [binds["_%d" % i] for i in range(len(spec["args"]) - 1)]
        return None, None

    def terminates(self, stmts):
        return any(isinstance(n, (ast.Return, ast.Raise)) or self.partial(n) for s in stmts for n in ast.walk(s))

    def message(self, e):
        if isinstance(e, ast.Constant) and isinstance(e.value, str):
            return e.value
        if isinstance(e, ast.JoinedStr):
            if e.values and isinstance(e.values[0], ast.Constant) and isinstance(e.values[0].value, str):
                return e.values[0].value
            return ""
        fail(e, "exception message")

    # ------------------------------------------------------------------ statements; k() = Coq text of what follows the block
    def stmts(self, sts, k):
        if not sts:
            return k()
        s, rest = sts[0], sts[1:]
        cont = lambda: self.stmts(rest, k)
        if isinstance(s, ast.Expr) and isinstance(s.value, ast.Constant) and isinstance(s.value.value, str):
            return cont()
        if isinstance(s, ast.FunctionDef):
            spec = self.sig.get("local_funs", {}).get(s.name)
            body = [b for b in s.body if not (isinstance(b, ast.Expr) and isinstance(b.value, ast.Constant))]
            if spec is None or self.loop is not None or len(body) != 1 or not isinstance(body[0], ast.Return) or s.decorator_list \
                    or len(s.args.args) != 1 or s.args.vararg or s.args.kwarg or s.args.kwonlyargs or s.args.defaults:
                fail(s, "nested function form")
            x = s.args.args[0].arg
            if x in self.types:
                fail(s, "parameter %s of the nested function shadows a variable" % x)
            self.types[x] = spec["param"]
            v, t = self.expr(body[0].value)
            del self.types[x]
            self.types[s.name] = "fun:%s>%s" % (spec["param"], t)
            return "let %s := (fun %s : %s => %s) in\n  %s" % (s.name, x, coq_type(spec["param"]), v, cont())
        if isinstance(s, ast.Return):
            if s.value is None or self.is_effect:
                fail(s, "bare return / return in an effect function")
            spec, holes = self.match_op(s.value, ("monadic",))
            if spec is not None:
                c, _ = self.op_call(s.value, spec, holes)
                return c if self.loop is None else "(mbind %s (fun r_ => mret (inr r_)))" % c
            if isinstance(s.value, ast.Subscript) and isinstance(s.value.value, ast.Name):
                l, tl = self.expr(s.value.value)
                i, ti = self.expr(s.value.slice)
                if not tl.startswith("list:") or tl == "list:?" or ti != "Z":
                    fail(s, "indexing %s[%s]" % (tl, ti))
                return "match py_nth %s %s with\n  | Some v_ => %s\n  | None => %s end" % (l, i, self.ret("v_"), self.exc("IndexError", "list index out of range"))
            v, t = self.expr(s.value)
            return self.ret(v)
        if isinstance(s, ast.Raise):
            if not (isinstance(s.exc, ast.Call) and isinstance(s.exc.func, ast.Name) and len(s.exc.args) == 1 and not s.exc.keywords and s.cause is None):
                fail(s, "raise form")
            return self.exc(s.exc.func.id, self.message(s.exc.args[0]))
        if isinstance(s, ast.Assign):
            if len(s.targets) != 1:
                fail(s, "multiple targets")
            tg = s.targets[0]
            sspec, sholes = self.match_store(tg)
            if sspec is not None:
                if not self.monadic:
                    fail(s, "store operation outside a monadic function")
                c, _ = self.op_call(s, sspec, sholes + [s.value])
                return "(mbind %s (fun _ =>\n  %s))" % (c, cont())
            if isinstance(s.value, ast.IfExp) and self.match_op(s.value, ("pure",))[0] is None:
                # x = A if c else B   ==   if c: x = A else: x = B
                fake = ast.If(test=s.value.test, body=[ast.Assign(targets=[tg], value=s.value.body)], orelse=[ast.Assign(targets=[tg], value=s.value.orelse)])
                for n in ast.walk(fake):
                    ast.copy_location(n, s)
                ast.fix_missing_locations(fake)
                return self.stmts([fake] + rest, k)
            mspec, mholes = self.match_op(s.value, ("monadic",))
            if mspec is not None:
                if not self.monadic or not isinstance(tg, ast.Name):
                    fail(s, "monadic operation outside a monadic function / into a non-variable")
                c, t = self.op_call(s.value, mspec, mholes)
                self.bind(tg.id, t, s)
                return "(mbind %s (fun %s =>\n  %s))" % (c, tg.id, cont())
            if isinstance(tg, ast.Attribute) and ast.unparse(tg) in self.attrs:
                name = self.mangle(ast.unparse(tg))
            elif isinstance(tg, ast.Name):
                name = tg.id
            else:
                fail(s, "assignment target")
            if isinstance(s.value, ast.Subscript):
                if not isinstance(s.value.value, ast.Name):
                    fail(s, "indexing of a non-variable")
                l, tl = self.expr(s.value.value)
                i, ti = self.expr(s.value.slice)
                if not tl.startswith("list:") or tl == "list:?" or ti != "Z":
                    fail(s, "indexing %s[%s]" % (tl, ti))
                self.bind(name, tl[5:], s)
                return "match py_nth %s %s with\n  | Some v_ => let %s := v_ in\n  %s\n  | None => %s end" % (
                    l, i, name, cont(), self.exc("IndexError", "list index out of range"))
            if ast.unparse(s.value).startswith("np.zeros("):
                c = s.value
                if not (len(c.args) == 1 and len(c.keywords) == 1 and c.keywords[0].arg == "dtype" and ast.unparse(c.keywords[0].value) == "int"):
                    fail(s, "np.zeros form")
                m, tm = self.expr(c.args[0])
                if tm != "Z":
                    fail(s, "np.zeros size of type %s" % tm)
                self.bind(name, "list:Z", s)
                return "match py_zeros %s with\n  | Some v_ => let %s := v_ in\n  %s\n  | None => %s end" % (
                    m, name, cont(), self.exc("ValueError", "negative dimensions are not allowed"))
            v, t = self.expr(s.value)
            if t == "none" and self.sig.get("var_types", {}).get(name) == "pyval":
                v, t = "VNone", "pyval"
            if t == "none":
                v = "(@None Z)"
            if t == "Z" and self.types.get(name) == "optZ":
                v, t = "(Some %s)" % v, "optZ"
            self.bind(name, t, s)
            return "let %s := %s in\n  %s" % (name, v, cont())
        if isinstance(s, ast.AugAssign):
            if isinstance(s.target, ast.Name):
                fake = ast.Assign(targets=[ast.Name(id=s.target.id, ctx=ast.Store())],
                                  value=ast.BinOp(left=ast.Name(id=s.target.id, ctx=ast.Load()), op=s.op, right=s.value))
                ast.copy_location(fake, s); ast.fix_missing_locations(fake)
                return self.stmts([fake] + rest, k)
            if isinstance(s.target, ast.Subscript) and isinstance(s.target.value, ast.Name) and isinstance(s.op, ast.Add):
                l, tl = self.expr(s.target.value)
                i, ti = self.expr(s.target.slice)
                c, tc = self.expr(s.value)
                if tl != "list:Z" or ti != "Z" or tc != "Z":
                    fail(s, "LIST[i] += c on %s[%s] += %s" % (tl, ti, tc))
                return "match py_upd_add %s %s %s with\n  | Some v_ => let %s := v_ in\n  %s\n  | None => %s end" % (
                    l, i, c, l, cont(), self.exc("IndexError", "index out of bounds"))
            fail(s, "augmented assignment form")
        if isinstance(s, ast.Expr) and isinstance(s.value, ast.Call):
            c = s.value
            if isinstance(c.func, ast.Attribute) and c.func.attr == "append" and isinstance(c.func.value, ast.Name) and len(c.args) == 1 and not c.keywords:
                lst = c.func.value.id
                v, t = self.expr(c.args[0])
                lt = self.types.get(lst, "")
                if lt == "list:?":
                    self.types[lst] = "list:" + t
                elif lt != "list:" + t:
                    fail(s, "append of %s to %s" % (t, lt))
                return "let %s := (%s ++ [%s]) in\n  %s" % (lst, lst, v, cont())
            mspec, mholes = self.match_op(c, ("monadic",))
            if mspec is not None:
                if not self.monadic:
                    fail(s, "monadic operation outside a monadic function")
                cc, _ = self.op_call(c, mspec, mholes)
                return "(mbind %s (fun _ =>\n  %s))" % (cc, cont())
            spec, hole = self.hole_match(c, self.effects)
            if spec is not None and hole is not None:
                a, ta = self.expr(hole)
                if ta == "Z":
                    a, ta = "(Some %s)" % a, "optZ"
                if ta != "optZ":
                    fail(s, "effect argument of type %s" % ta)
                return "let effs_ := (effs_ ++ [%s %s]) in\n  %s" % (spec, a, cont())
            fail(s, "call statement %s" % ast.unparse(c)[:60])
        if isinstance(s, ast.If) and isinstance(s.test, ast.Compare) and len(s.test.ops) == 1 and isinstance(s.test.ops[0], (ast.Is, ast.IsNot)) \
                and isinstance(s.test.left, ast.Name) and str(self.types.get(s.test.left.id, "")).startswith("opt:") \
                and isinstance(s.test.comparators[0], ast.Constant) and s.test.comparators[0].value is None:
            # `if x is None:` / `if x is not None:` on an optional value: inside the not-None branch x IS the payload
            import copy as _copy
            x = s.test.left.id
            self.fresh = getattr(self, "fresh", 0) + 1
            xv = "%s_v%d" % (x, self.fresh)
            topt = self.types[x]
            some_b, none_b = (list(s.orelse), s.body) if isinstance(s.test.ops[0], ast.Is) else (s.body, list(s.orelse))
            some_b = [_copy.deepcopy(st) for st in some_b]
            for st in some_b:
                for n in ast.walk(st):
                    if isinstance(n, ast.Name) and n.id == x:
                        if isinstance(n.ctx, ast.Store):
                            fail(s, "assignment to %s inside its not-None branch" % x)
                        n.id = xv
            saved = dict(self.types)
            self.types[xv] = topt[4:]
            if xv in saved:
                fail(s, "name clash %s" % xv)
            a = self.stmts(some_b + rest, k)
            self.types = dict(saved)
            b = self.stmts(list(none_b) + rest, k)
            self.types = saved
            return "match %s with\n  | Some %s =>\n  %s\n  | None =>\n  %s end" % (x, xv, a, b)
        if isinstance(s, ast.If):
            c, tc = self.expr(s.test)
            if tc != "bool":
                fail(s, "if condition of type %s" % tc)
            if self.terminates(s.body) or self.terminates(s.orelse):
                saved = dict(self.types)
                a = self.stmts(s.body + rest, k)
                self.types = dict(saved)
                b = self.stmts(list(s.orelse) + rest, k)
                self.types = saved
                return "(if %s then\n  %s\n  else\n  %s)" % (c, a, b)
            asg = self.assigned(s.body + list(s.orelse))
            both = [v for v in self.assigned(s.body) if v in self.assigned(list(s.orelse))]
            vs = []
            for v in asg:
                if v in self.types or v in both:
                    vs.append(v)
                else:
                    fail(s, "variable %s first assigned in one branch of an if" % v)
            if not vs:
                fail(s, "if without effect")
            saved = dict(self.types)
            a = self.stmts(s.body, lambda: self.tup(vs))
            ta = dict(self.types)
            self.types = dict(saved)
            b = self.stmts(list(s.orelse), lambda: self.tup(vs))
            for v in vs:
                if self.types.get(v) != ta.get(v):
                    fail(s, "branch types differ for %s: %s / %s" % (v, ta.get(v), self.types.get(v)))
            return "let %s := (if %s then %s else %s) in\n  %s" % (self.pat(vs), c, a, b, cont())
        if isinstance(s, ast.For):
            if s.orelse or self.loop is not None:
                fail(s, "for-else / nested loop")
            if isinstance(s.iter, ast.Call) and isinstance(s.iter.func, ast.Name) and s.iter.func.id == "enumerate" and len(s.iter.args) == 1 and not s.iter.keywords \
                    and isinstance(s.iter.args[0], ast.Call) and isinstance(s.iter.args[0].func, ast.Name) and s.iter.args[0].func.id == "zip" \
                    and len(s.iter.args[0].args) == 2 and not s.iter.args[0].keywords:
                z = s.iter.args[0]
                a_, ta_ = self.expr(z.args[0]); b_, tb_ = self.expr(z.args[1])
                if not (ta_.startswith("list:") and tb_.startswith("list:") and "?" not in ta_ + tb_):
                    fail(s, "zip of %s, %s" % (ta_, tb_))
                tg_ = s.target
                if not (isinstance(tg_, ast.Tuple) and len(tg_.elts) == 2 and isinstance(tg_.elts[0], ast.Name) and isinstance(tg_.elts[1], ast.Tuple)
                        and len(tg_.elts[1].elts) == 2 and all(isinstance(x, ast.Name) for x in tg_.elts[1].elts)):
                    fail(s, "loop target")
                it = "(combine (map Z.of_nat (seq 0 (length (combine %s %s)))) (combine %s %s))" % (a_, b_, a_, b_)
                lv = [(tg_.elts[0].id, "Z"), (tg_.elts[1].elts[0].id, ta_[5:]), (tg_.elts[1].elts[1].id, tb_[5:])]
                lpat = "'(%s, (%s, %s))" % (lv[0][0], lv[1][0], lv[2][0])
            elif isinstance(s.iter, ast.Call) and isinstance(s.iter.func, ast.Name) and s.iter.func.id == "enumerate" and len(s.iter.args) == 1 and not s.iter.keywords:
                l, tl = self.expr(s.iter.args[0])
                if not (tl.startswith("list:") and tl != "list:?"):
                    fail(s, "enumerate of %s" % tl)
                if not (isinstance(s.target, ast.Tuple) and len(s.target.elts) == 2 and all(isinstance(x, ast.Name) for x in s.target.elts)):
                    fail(s, "loop target")
                it = "(combine (map Z.of_nat (seq 0 (length %s))) %s)" % (l, l)
                lv = [(s.target.elts[0].id, "Z"), (s.target.elts[1].id, tl[5:])]
                lpat = "'(%s, %s)" % (lv[0][0], lv[1][0])
            elif isinstance(s.iter, ast.Call) and isinstance(s.iter.func, ast.Name) and s.iter.func.id == "range" and len(s.iter.args) == 1 and not s.iter.keywords:
                n_, tn = self.expr(s.iter.args[0])
                if tn != "Z" or not isinstance(s.target, ast.Name):
                    fail(s, "range loop")
                it = "(map Z.of_nat (seq 0 (Z.to_nat %s)))" % n_
                lv = [(s.target.id, "Z")]
                lpat = s.target.id
            elif isinstance(s.iter, ast.Call) and isinstance(s.iter.func, ast.Name) and s.iter.func.id == "zip" and len(s.iter.args) == 3 and not s.iter.keywords:
                parts = [self.expr(a) for a in s.iter.args]
                if not all(t.startswith("list:") and "?" not in t for _, t in parts):
                    fail(s, "zip of %s" % [t for _, t in parts])
                if not (isinstance(s.target, ast.Tuple) and len(s.target.elts) == 3 and all(isinstance(x, ast.Name) for x in s.target.elts)):
                    fail(s, "loop target")
                it = "(combine %s (combine %s %s))" % (parts[0][0], parts[1][0], parts[2][0])
                lv = [(x.id, t[5:]) for x, (_, t) in zip(s.target.elts, parts)]
                lpat = "'(%s, (%s, %s))" % (lv[0][0], lv[1][0], lv[2][0])
            elif isinstance(s.iter, ast.Call) and isinstance(s.iter.func, ast.Name) and s.iter.func.id == "zip" and len(s.iter.args) == 2 and not s.iter.keywords:
                a_, ta_ = self.expr(s.iter.args[0]); b_, tb_ = self.expr(s.iter.args[1])
                if not (ta_.startswith("list:") and tb_.startswith("list:") and "?" not in ta_ + tb_):
                    fail(s, "zip of %s, %s" % (ta_, tb_))
                if not (isinstance(s.target, ast.Tuple) and len(s.target.elts) == 2 and all(isinstance(x, ast.Name) for x in s.target.elts)):
                    fail(s, "loop target")
                it = "(combine %s %s)" % (a_, b_)
                lv = [(s.target.elts[0].id, ta_[5:]), (s.target.elts[1].id, tb_[5:])]
                lpat = "'(%s, %s)" % (lv[0][0], lv[1][0])
            else:
                l, tl = self.expr(s.iter)
                if not (tl.startswith("list:") and tl != "list:?") or not isinstance(s.target, ast.Name):
                    fail(s, "iteration over %s" % tl)
                it = l
                lv = [(s.target.id, tl[5:])]
                lpat = s.target.id
            outer = dict(self.types)
            carried = [v for v in self.assigned(s.body) if v in outer]
            names = carried + ["fin_"]
            body = None
            for _ in range(2):                      # two passes so that list:? types settle
                self.types = dict(outer)
                for n, t in lv:
                    self.types[n] = t
                self.loop = carried
                body = self.stmts(s.body, lambda: self.fall(carried))
                self.loop = None
                for v in carried:
                    outer[v] = self.types[v]
            self.types = outer
            after = cont()
            if self.monadic:
                cpat = self.pat(carried) if carried else "_"
                return ("(mbind (mfor %s %s (fun %s %s =>\n    %s))\n  (fun r_ => match r_ with\n  | inl %s =>\n  %s\n  | inr v_ => mret v_ end))"
                        % (it, self.tup(carried) if carried else "tt", cpat, lpat, body, cpat, after))
            return ("let %s := fold_left (fun %s %s =>\n    match fin_ with Some _ => %s | None =>\n    %s end)\n    %s %s in\n  match fin_ with Some r_ => r_ | None =>\n  %s end"
                    % (self.pat(names), self.pat(names), lpat, self.tup(names), body, it, self.tup(carried + ["None"]), after))
        fail(s, "statement")

    def translate(self):
        f = self.f
        params = []
        ptypes = self.sig["params"]
        drop = set(self.sig.get("drop", []))
        for a in f.args.args:
            if a.arg in drop:
                continue
            if a.arg not in ptypes:
                fail(f, "no type for parameter %s in the signature table" % a.arg)
            self.types[a.arg] = ptypes[a.arg]
            params.append((a.arg, ptypes[a.arg]))
        if f.args.vararg or f.args.kwarg or f.args.kwonlyargs:
            fail(f, "parameter kinds")
        for src, t in self.attrs.items():
            nm = self.mangle(src)
            self.types[nm] = t
            params.append((nm, t))
        for src, spec in self.abstr.items():
            if len(spec) > 3 and spec[3] == "param":          # an abstraction that is an input of the model (e.g. another object's attribute)
                params.append((spec[0], spec[1]))
        for n, t in self.sig.get("extra_params", []):
            self.types[n] = t
        if self.is_effect:
            self.types["effs_"] = "list:eff"
            res = [self.mangle(a) for a in self.attrs] + ["effs_"]
            end = lambda: "(PyVal %s)" % self.tup(res)
            body = "let effs_ := ([] : list eff) in\n  " + self.stmts(f.body, end)
        else:
            body = self.stmts(f.body, lambda: fail(f, "function falls off its end"))
        for n, t in self.sig.get("extra_params", []):
            params.append((n, t))
        ret = self.sig.get("returns")
        return "Definition %s %s%s :=\n  %s." % (self.sig["coq_name"], " ".join("(%s : %s)" % (n, coq_type(t)) for n, t in params),
                                                 " : " + ret if ret else "", body)


HEADER = """(* GENERATED by /verif/gen/c14_py2coq.py from the repository's CURRENT source - do not edit, not committed. *)
From Coq Require Import String ZArith List Bool.
From QV.Core Require Import OF.
From QV.Model Require Import C14_DataGen C14_PySem C14_Streams.
Import ListNotations.
Section Gen.
Context (F : OF).
"""


def find_def(tree, entry):
    cls = entry.get("class")
    scope = tree
    if cls:
        scope = next((n for n in ast.walk(tree) if isinstance(n, ast.ClassDef) and n.name == cls), None)
        if scope is None:
            raise Unsupported("class %s not found in %s" % (cls, entry["file"]))
    cands = [n for n in (scope.body if cls else ast.walk(scope)) if isinstance(n, ast.FunctionDef) and n.name == entry["function"]]
    if entry.get("decorator"):
        cands = [n for n in cands if any(ast.unparse(d) == entry["decorator"] for d in n.decorator_list)]
    elif cls:
        cands = [n for n in cands if not n.decorator_list]
    if len(cands) != 1:
        raise Unsupported("%d definitions of %s in %s" % (len(cands), entry["function"], entry["file"]))
    return cands[0]


def main():
    repo, sigfile, outpath = sys.argv[1], sys.argv[2], sys.argv[3]
    table = json.load(open(sigfile))
    context = ""
    if isinstance(table, dict):
        ATOMS.update(table.get("atoms", []))
        context = table.get("context", "")
        table = table["functions"]
    out = [HEADER + context]
    try:
        for entry in table:
            src = open(os.path.join(repo, entry["file"])).read()
            fdef = find_def(ast.parse(src), entry)
            out.append("(* from %s : %s%s *)" % (entry["file"], entry.get("class", "") + "." if entry.get("class") else "", entry["function"]))
            try:
                out.append(Fn(fdef, entry).translate())
            except Unsupported as e:
                raise Unsupported("in function %s (%s): %s" % (entry["function"], entry["file"], e))
            out.append("")
    except Unsupported as e:
        print("UNSUPPORTED: %s" % e)
        sys.exit(3)
    out.append("End Gen.\n")
    open(outpath, "w").write("\n".join(out))
    print("ok: %d functions -> %s" % (len(table), outpath))


if __name__ == "__main__":
    main()
