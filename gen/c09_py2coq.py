#!/usr/bin/env python3
"""Fail-closed translator for the pure glue of quara's linear estimator (property C09): Python `ast` -> Gallina over the
vocabulary of coq/theories/Model/C09_PySem.v.

usage: c09_py2coq.py <repo root> <out.v>

Translated on every run from the CURRENT source:
  quara/protocol/qtomography/standard/standard_qtomography.py            StandardQTomography.is_fullrank_matA
  quara/protocol/qtomography/standard/linear_estimator.py                LinearEstimator.calc_estimate_sequence, .calc_estimate
  quara/protocol/qtomography/standard/standard_qtomography_estimator.py  StandardQTomographyEstimationResult.estimated_var,
                                                                         .estimated_var_sequence, .estimated_qoperation,
                                                                         .estimated_qoperation_sequence  (+ the two constructors
                                                                         are CHECKED to store their first argument unchanged;
                                                                         self._template_qoperation.generate_from_var is an
                                                                         abstract function parameter `gfv` of the generated code)
Accepted subset (anything else raises Unsupported -> the tie is reported broken, never skipped):
  statements   docstring; NAME = <expr>; NAME = []; NAME.append(<expr>); `if <bool>: raise <builtin exception>` (no else);
               `for NAME in <sequence parameter>:` with exactly one list that is appended to (the loop state); return <expr>;
               the computation-time bookkeeping in exactly these forms (it cannot influence any other value: its names are
               never admitted into an expression):  T = [] if FLAG else None;  if FLAG: S = time.time();
               if FLAG: C = time.time() - S; T.append(C)
  expressions  names; Q.calc_matA() / Q.calc_vecB() / Q.is_fullrank_matA(); X.T; X @ Y (matrix-matrix, matrix-vector);
               X - Y (vectors); np.linalg.inv(X); np.linalg.matrix_rank(X); X.shape[0|1]; min(X.shape); A == B on ints;
               not B; np.hstack(L); np.vstack(L).flatten(); [t[1] for t in D]; [D];
               self.calc_estimate_sequence(Q, S, FLAG); LinearEstimationResult(L, <timing name | None>, Q._template_qoperation);
               self._estimated_var_sequence; self._estimated_var_sequence[0];
               self._template_qoperation.generate_from_var(V); [self._template_qoperation.generate_from_var(v) for v in L]
The class of the exception raised at the guard is NOT translated (every accepted builtin exception class maps to ExException).
"""
import ast
import os
import sys

F_QT = "quara/protocol/qtomography/standard/standard_qtomography.py"
F_LE = "quara/protocol/qtomography/standard/linear_estimator.py"
F_ER = "quara/protocol/qtomography/standard/standard_qtomography_estimator.py"
GUARD_EXCEPTIONS = {"Exception", "ValueError", "RuntimeError", "ArithmeticError", "AssertionError", "TypeError"}
ELEM = {"seq": "dataset", "dataset": None}
COQ_TYPE = {"qt": "qtomo F", "seq": "list (dataset F)", "dataset": "dataset F", "bool": "bool", "result": "est_result F"}


class Unsupported(Exception):
    pass


def fail(node, msg):
    raise Unsupported("%s (line %s): %s" % (type(node).__name__, getattr(node, "lineno", "?"), msg))


def is_doc(s):
    return isinstance(s, ast.Expr) and isinstance(s.value, ast.Constant) and type(s.value.value) is str


def find_method(tree, cls, name, prop=False):
    for c in tree.body:
        if isinstance(c, ast.ClassDef) and c.name == cls:
            for f in c.body:
                if isinstance(f, ast.FunctionDef) and f.name == name:
                    decs = [ast.unparse(d) for d in f.decorator_list]
                    if decs != (["property"] if prop else []):
                        fail(f, "unexpected decorators %s" % decs)
                    return f
    raise Unsupported("%s.%s not found" % (cls, name))


def params(f, n, defaults):
    a = f.args
    if a.vararg or a.kwarg or a.kwonlyargs or a.posonlyargs or len(a.args) != n:
        fail(f, "signature: expected %d plain parameters" % n)
    got = [ast.unparse(d) for d in a.defaults]
    if got != defaults:
        fail(f, "signature: defaults %s, expected %s" % (got, defaults))
    return [x.arg for x in a.args]


class Fn:
    """one function body -> Gallina"""

    def __init__(self, fdef, env, monadic, flag=None, self_name=None, self_kind=None):
        self.f, self.monadic, self.flag = fdef, monadic, flag
        self.env = dict(env)              # python name -> type tag
        self.self_name, self.self_kind = self_name, self_kind     # self_kind: 'estimator' | 'qt' | 'result'
        self.timing = set()
        self.fresh = 0
        self.state = None                 # inside a loop: the list that is appended to

    def v(self, name):
        return "v_" + name

    def tmp(self):
        self.fresh += 1
        return "t%d" % self.fresh

    # ------------------------------------------------------------------ expressions -> (code, type, monadic?)
    def is_np(self, e, *path):
        """e is np.<path...>"""
        for attr in reversed(path):
            if not (isinstance(e, ast.Attribute) and e.attr == attr):
                return False
            e = e.value
        return isinstance(e, ast.Name) and e.id == "np"

    def seq2(self, parts, build):
        """parts: list of (code, type, monadic); build(list of pure codes) -> (code, type, monadic)"""
        names, binds = [], []
        for code, _, mon in parts:
            if mon:
                t = self.tmp(); binds.append((t, code)); names.append(t)
            else:
                names.append("(%s)" % code)
        code, ty, mon = build(names)
        if binds and not mon:
            code, mon = "py_ret (%s)" % code, True
        for t, c in reversed(binds):
            code = "py_bind (%s) (fun %s => %s)" % (c, t, code)
        if binds and not self.monadic:
            raise Unsupported("an operation that can raise inside a function translated as pure")
        return code, ty, mon

    def gfv_arg(self, e):
        """e is self._template_qoperation.generate_from_var(<one positional argument>) -> that argument, else None"""
        if isinstance(e, ast.Call) and len(e.args) == 1 and not e.keywords and isinstance(e.func, ast.Attribute) and e.func.attr == "generate_from_var":
            t = e.func.value
            if isinstance(t, ast.Attribute) and t.attr == "_template_qoperation" and isinstance(t.value, ast.Name) and t.value.id == self.self_name \
                    and self.self_kind == "result":
                return e.args[0]
        return None

    def expr(self, e):
        if isinstance(e, ast.Name):
            if e.id in self.env:
                return self.v(e.id), self.env[e.id], False
            fail(e, "name %s is not bound to a translated value here" % e.id)
        if isinstance(e, ast.Attribute):
            if e.attr == "T":
                c = self.expr(e.value)
                if c[1] != "arr2":
                    fail(e, ".T of a non-matrix")
                return self.seq2([c], lambda n: ("np_T %s" % n[0], "arr2", False))
            if isinstance(e.value, ast.Name) and e.value.id == self.self_name and self.self_kind == "result" and e.attr == "_estimated_var_sequence":
                return "r_vars %s" % self.v(self.self_name), "varlist", False
            fail(e, "attribute %s" % ast.unparse(e))
        if isinstance(e, ast.Call):
            return self.call(e)
        if isinstance(e, ast.BinOp):
            l, r = self.expr(e.left), self.expr(e.right)
            if isinstance(e.op, ast.MatMult) and (l[1], r[1]) == ("arr2", "arr2"):
                return self.seq2([l, r], lambda n: ("np_matmul %s %s" % (n[0], n[1]), "arr2", True))
            if isinstance(e.op, ast.MatMult) and (l[1], r[1]) == ("arr2", "vec"):
                return self.seq2([l, r], lambda n: ("np_matvec %s %s" % (n[0], n[1]), "vec", True))
            if isinstance(e.op, ast.Sub) and (l[1], r[1]) == ("vec", "vec"):
                return self.seq2([l, r], lambda n: ("np_vsub %s %s" % (n[0], n[1]), "vec", True))
            fail(e, "operator %s on (%s, %s)" % (type(e.op).__name__, l[1], r[1]))
        if isinstance(e, ast.UnaryOp) and isinstance(e.op, ast.Not):
            c = self.expr(e.operand)
            if c[1] != "bool":
                fail(e, "not of a non-bool")
            return self.seq2([c], lambda n: ("negb %s" % n[0], "bool", False))
        if isinstance(e, ast.Compare) and len(e.ops) == 1 and isinstance(e.ops[0], ast.Eq):
            l, r = self.expr(e.left), self.expr(e.comparators[0])
            if (l[1], r[1]) != ("nat", "nat"):
                fail(e, "== on (%s, %s)" % (l[1], r[1]))
            return self.seq2([l, r], lambda n: ("Nat.eqb %s %s" % (n[0], n[1]), "bool", False))
        if isinstance(e, ast.Subscript):
            # X.shape[k]
            if isinstance(e.value, ast.Attribute) and e.value.attr == "shape" and isinstance(e.slice, ast.Constant) and e.slice.value in (0, 1) and type(e.slice.value) is int:
                c = self.expr(e.value.value)
                if c[1] != "arr2":
                    fail(e, ".shape of a non-matrix")
                return self.seq2([c], lambda n: ("np_shape%d %s" % (e.slice.value, n[0]), "nat", False))
            # L[0]
            if isinstance(e.slice, ast.Constant) and type(e.slice.value) is int and e.slice.value == 0:
                c = self.expr(e.value)
                if c[1] == "varlist":
                    return self.seq2([c], lambda n: ("py_getitem0 %s" % n[0], "vec", True))
            fail(e, "subscript %s" % ast.unparse(e))
        if isinstance(e, ast.ListComp):
            if len(e.generators) != 1 or e.generators[0].ifs or e.generators[0].is_async or not isinstance(e.generators[0].target, ast.Name):
                fail(e, "list comprehension shape")
            g = e.generators[0]
            src = self.expr(g.iter)
            el = e.elt
            if src[1] == "dataset" and isinstance(el, ast.Subscript) and isinstance(el.value, ast.Name) and el.value.id == g.target.id \
                    and isinstance(el.slice, ast.Constant) and type(el.slice.value) is int and el.slice.value == 1:
                return self.seq2([src], lambda n: ("map snd %s" % n[0], "veclist", False))
            a = self.gfv_arg(el)
            if src[1] == "varlist" and a is not None and isinstance(a, ast.Name) and a.id == g.target.id:
                return self.seq2([src], lambda n: ("map gfv %s" % n[0], "objlist", False))
            fail(e, "list comprehension %s" % ast.unparse(e))
        if isinstance(e, ast.List) and len(e.elts) == 1:
            c = self.expr(e.elts[0])
            if c[1] == "dataset":
                return self.seq2([c], lambda n: ("[%s]" % n[0], "seq", False))
            fail(e, "list literal of a %s" % c[1])
        fail(e, "expression %s" % ast.unparse(e)[:80])

    def call(self, e):
        f = e.func
        a = self.gfv_arg(e)
        if a is not None:
            c = self.expr(a)
            if c[1] != "vec":
                fail(e, "generate_from_var of a %s" % c[1])
            return self.seq2([c], lambda n: ("gfv %s" % n[0], "obj", False))
        # Q.calc_matA() / Q.calc_vecB() / Q.is_fullrank_matA()
        if isinstance(f, ast.Attribute) and isinstance(f.value, ast.Name) and f.attr in ("calc_matA", "calc_vecB", "is_fullrank_matA") \
                and not e.args and not e.keywords and (self.env.get(f.value.id) == "qt"):
            q = self.v(f.value.id)
            return {"calc_matA": ("qt_calc_matA %s" % q, "arr2", False), "calc_vecB": ("qt_calc_vecB %s" % q, "vec", False),
                    "is_fullrank_matA": ("gen_is_fullrank_matA %s" % q, "bool", False)}[f.attr]
        if self.is_np(f, "linalg", "inv") and len(e.args) == 1 and not e.keywords:
            c = self.expr(e.args[0])
            if c[1] != "arr2":
                fail(e, "inv of a non-matrix")
            return self.seq2([c], lambda n: ("np_inv %s" % n[0], "arr2", True))
        if self.is_np(f, "linalg", "matrix_rank") and len(e.args) == 1 and not e.keywords:
            c = self.expr(e.args[0])
            if c[1] != "arr2":
                fail(e, "matrix_rank of a non-matrix")
            return self.seq2([c], lambda n: ("np_matrix_rank %s" % n[0], "nat", False))
        if self.is_np(f, "hstack") and len(e.args) == 1 and not e.keywords:
            c = self.expr(e.args[0])
            if c[1] != "veclist":
                fail(e, "hstack of a %s" % c[1])
            return self.seq2([c], lambda n: ("np_hstack %s" % n[0], "vec", True))
        # np.vstack(L).flatten()
        if isinstance(f, ast.Attribute) and f.attr == "flatten" and not e.args and not e.keywords and isinstance(f.value, ast.Call) \
                and self.is_np(f.value.func, "vstack") and len(f.value.args) == 1 and not f.value.keywords:
            c = self.expr(f.value.args[0])
            if c[1] != "veclist":
                fail(e, "vstack of a %s" % c[1])
            return self.seq2([c], lambda n: ("np_vstack_flatten %s" % n[0], "vec", True))
        # min(X.shape)
        if isinstance(f, ast.Name) and f.id == "min" and len(e.args) == 1 and not e.keywords and isinstance(e.args[0], ast.Attribute) and e.args[0].attr == "shape":
            c = self.expr(e.args[0].value)
            if c[1] != "arr2":
                fail(e, ".shape of a non-matrix")
            return self.seq2([c], lambda n: ("np_min_shape %s" % n[0], "nat", False))
        # self.calc_estimate_sequence(Q, S, FLAG)
        if isinstance(f, ast.Attribute) and isinstance(f.value, ast.Name) and f.value.id == self.self_name and self.self_kind == "estimator" \
                and f.attr == "calc_estimate_sequence":
            args = list(e.args)
            kws = {k.arg: k.value for k in e.keywords}
            if len(args) == 2 and set(kws) == {"is_computation_time_required"}:
                args.append(kws["is_computation_time_required"])
            elif not (len(args) == 3 and not kws):
                fail(e, "arguments of calc_estimate_sequence")
            cs = [self.expr(a) for a in args]
            if [c[1] for c in cs] != ["qt", "seq", "bool"]:
                fail(e, "argument types %s of calc_estimate_sequence" % [c[1] for c in cs])
            return self.seq2(cs, lambda n: ("gen_calc_estimate_sequence %s %s %s" % tuple(n), "result", True))
        # LinearEstimationResult(L, <timing | None>, Q._template_qoperation)
        if isinstance(f, ast.Name) and f.id == "LinearEstimationResult" and len(e.args) == 3 and not e.keywords:
            c = self.expr(e.args[0])
            if c[1] != "varlist":
                fail(e, "first argument of LinearEstimationResult is a %s" % c[1])
            t = e.args[1]
            if not ((isinstance(t, ast.Name) and t.id in self.timing) or (isinstance(t, ast.Constant) and t.value is None)):
                fail(e, "second argument of LinearEstimationResult must be the computation-time list or None")
            q = e.args[2]
            if not (isinstance(q, ast.Attribute) and q.attr == "_template_qoperation" and isinstance(q.value, ast.Name) and self.env.get(q.value.id) == "qt"):
                fail(e, "third argument of LinearEstimationResult must be <tomography>._template_qoperation")
            return self.seq2([c], lambda n: ("mkResult %s" % n[0], "result", False))
        fail(e, "call %s" % ast.unparse(e)[:80])

    # ------------------------------------------------------------------ computation-time bookkeeping (recognised, dropped)
    def is_time_call(self, e):
        return isinstance(e, ast.Call) and not e.args and not e.keywords and isinstance(e.func, ast.Attribute) and e.func.attr == "time" \
            and isinstance(e.func.value, ast.Name) and e.func.value.id == "time"

    def timing_stmt(self, s):
        """True if s is a bookkeeping statement (then its names are recorded), False if it is not; never partially"""
        if isinstance(s, ast.Assign) and len(s.targets) == 1 and isinstance(s.targets[0], ast.Name):
            tgt, val = s.targets[0].id, s.value
            if tgt in self.env:
                return False
            if isinstance(val, ast.IfExp) and isinstance(val.test, ast.Name) and val.test.id == self.flag and isinstance(val.body, ast.List) and not val.body.elts \
                    and isinstance(val.orelse, ast.Constant) and val.orelse.value is None:
                self.timing.add(tgt); return True
            if self.is_time_call(val):
                self.timing.add(tgt); return True
            if isinstance(val, ast.BinOp) and isinstance(val.op, ast.Sub) and self.is_time_call(val.left) and isinstance(val.right, ast.Name) and val.right.id in self.timing:
                self.timing.add(tgt); return True
            return False
        if isinstance(s, ast.Expr) and isinstance(s.value, ast.Call) and isinstance(s.value.func, ast.Attribute) and s.value.func.attr == "append" \
                and isinstance(s.value.func.value, ast.Name) and s.value.func.value.id in self.timing:
            a = s.value.args
            if len(a) == 1 and not s.value.keywords and isinstance(a[0], ast.Name) and a[0].id in self.timing:
                return True
            fail(s, "append to the computation-time list of something else")
        if isinstance(s, ast.If) and isinstance(s.test, ast.Name) and s.test.id == self.flag and self.flag is not None and not s.orelse:
            if all(self.timing_stmt(b) for b in s.body):
                return True
            fail(s, "`if %s:` may only contain computation-time bookkeeping" % self.flag)
        return False

    # ------------------------------------------------------------------ statements
    def block(self, stmts, end):
        if not stmts:
            return end()
        s, rest = stmts[0], stmts[1:]
        if is_doc(s):
            return self.block(rest, end)
        if self.timing_stmt(s):
            return self.block(rest, end)
        if isinstance(s, ast.Return):
            if rest or s.value is None:
                fail(s, "return must be last and return a value")
            if self.state is not None:
                fail(s, "return inside a loop")
            code, ty, mon = self.expr(s.value)
            self.ret_type = ty
            if self.monadic and not mon:
                return "py_ret (%s)" % code
            return code
        if isinstance(s, ast.Assign) and len(s.targets) == 1 and isinstance(s.targets[0], ast.Name):
            name = s.targets[0].id
            if name in self.timing or name == self.flag or name == self.self_name:
                fail(s, "assignment to %s" % name)
            if isinstance(s.value, ast.List) and not s.value.elts:
                if self.state is not None:
                    fail(s, "new list inside a loop")
                self.env[name] = "varlist"
                return "let %s := @nil (list F) in\n  %s" % (self.v(name), self.block(rest, end))
            code, ty, mon = self.expr(s.value)
            if self.state is not None:
                self.loop_locals.add(name)
                if name == self.state:
                    fail(s, "assignment to the loop state")
            self.env[name] = ty
            if mon:
                return "py_bind (%s) (fun %s =>\n  %s)" % (code, self.v(name), self.block(rest, end))
            return "let %s := %s in\n  %s" % (self.v(name), code, self.block(rest, end))
        if isinstance(s, ast.Expr) and isinstance(s.value, ast.Call) and isinstance(s.value.func, ast.Attribute) and s.value.func.attr == "append" \
                and isinstance(s.value.func.value, ast.Name) and len(s.value.args) == 1 and not s.value.keywords:
            name = s.value.func.value.id
            if self.env.get(name) != "varlist":
                fail(s, "append to %s" % name)
            if self.state is not None and name != self.state:
                fail(s, "append to a second list inside the loop")
            code, ty, mon = self.expr(s.value.args[0])
            if ty != "vec":
                fail(s, "append of a %s" % ty)
            t = self.tmp()
            body = "let %s := %s ++ [%s] in\n  %s" % (self.v(name), self.v(name), t, self.block(rest, end))
            if mon:
                return "py_bind (%s) (fun %s =>\n  %s)" % (code, t, body)
            return "let %s := %s in\n  %s" % (t, code, body)
        if isinstance(s, ast.If) and not s.orelse and len(s.body) == 1 and isinstance(s.body[0], ast.Raise):
            r = s.body[0]
            exc = r.exc.func if isinstance(r.exc, ast.Call) else r.exc
            if r.cause is not None or not isinstance(exc, ast.Name) or exc.id not in GUARD_EXCEPTIONS:
                fail(r, "raise of something that is not a plain builtin exception")
            if isinstance(r.exc, ast.Call) and not all(isinstance(a, ast.Constant) and type(a.value) is str for a in r.exc.args) or (isinstance(r.exc, ast.Call) and r.exc.keywords):
                fail(r, "exception arguments must be string constants")
            if not self.monadic or self.state is not None:
                fail(s, "raise in a pure function / inside the loop")
            code, ty, mon = self.expr(s.test)
            if ty != "bool" or mon:
                fail(s, "guard condition")
            return "if %s then PyRaise ExException else\n  %s" % (code, self.block(rest, end))
        if isinstance(s, ast.For) and not s.orelse and isinstance(s.target, ast.Name) and isinstance(s.iter, ast.Name):
            if self.state is not None:
                fail(s, "nested loop")
            it = s.iter.id
            if self.env.get(it) != "seq":
                fail(s, "loop over %s" % it)
            # the loop state: the one non-bookkeeping list that is appended to in the body
            apps = set()
            for n in ast.walk(ast.Module(body=s.body, type_ignores=[])):
                if isinstance(n, ast.Call) and isinstance(n.func, ast.Attribute) and n.func.attr == "append" and isinstance(n.func.value, ast.Name):
                    apps.add(n.func.value.id)
            apps = {a for a in apps if self.env.get(a) == "varlist"}
            if len(apps) != 1:
                fail(s, "the loop must append to exactly one result list (found %s)" % sorted(apps))
            st = apps.pop()
            outer = dict(self.env)
            self.state, self.loop_locals = st, set()
            self.env[s.target.id] = "dataset"
            body = self.block(list(s.body), lambda: "py_ret %s" % self.v(st))
            self.state = None
            # names bound in the body do not survive the loop in the translation -> they must not be used afterwards
            self.env = {k: v_ for k, v_ in outer.items() if k not in self.loop_locals and k != s.target.id}
            return "py_bind (py_for %s %s (fun %s %s =>\n  %s)) (fun %s =>\n  %s)" % (self.v(it), self.v(st), self.v(s.target.id), self.v(st), body, self.v(st), self.block(rest, end))
        fail(s, "statement %s" % ast.unparse(s)[:80])

    def body(self):
        def end():
            raise Unsupported("%s: control reaches the end of the function without return" % self.f.name)
        return self.block(list(self.f.body), end)


def check_constructors(t_le, t_er):
    """LinearEstimationResult(a, b, c) stores a unchanged as _estimated_var_sequence (justifies `mkResult a`)"""
    f = find_method(t_le, "LinearEstimationResult", "__init__")
    p = params(f, 4, [])
    body = [s for s in f.body if not is_doc(s)]
    want = "super().__init__(%s, %s, %s)" % (p[1], p[2], p[3])
    if len(body) != 1 or not isinstance(body[0], ast.Expr) or ast.unparse(body[0].value) != want:
        fail(f, "LinearEstimationResult.__init__ must be exactly `%s`" % want)
    bases = [ast.unparse(b) for c in t_le.body if isinstance(c, ast.ClassDef) and c.name == "LinearEstimationResult" for b in c.bases]
    if bases != ["StandardQTomographyEstimationResult"]:
        fail(f, "bases of LinearEstimationResult: %s" % bases)
    g = find_method(t_er, "StandardQTomographyEstimationResult", "__init__")
    q = params(g, 4, [])
    stores = [s for s in g.body if isinstance(s, (ast.Assign, ast.AnnAssign))]
    ok = False
    for s in stores:
        tgt = s.targets[0] if isinstance(s, ast.Assign) else s.target
        if ast.unparse(tgt) == "self._estimated_var_sequence":
            if ok or not isinstance(s.value, ast.Name) or s.value.id != q[1]:
                fail(s, "self._estimated_var_sequence must be assigned the first constructor argument, once")
            ok = True
    if not ok:
        fail(g, "constructor does not store _estimated_var_sequence")
    for n in ast.walk(g):
        if isinstance(n, ast.Name) and n.id == q[1] and isinstance(n.ctx, ast.Store):
            fail(g, "constructor rebinds its first argument")
    for c in t_er.body:       # nobody else writes the field
        if isinstance(c, ast.ClassDef) and c.name == "StandardQTomographyEstimationResult":
            for fn in c.body:
                if isinstance(fn, ast.FunctionDef) and fn.name != "__init__":
                    for n in ast.walk(fn):
                        if isinstance(n, ast.Attribute) and n.attr == "_estimated_var_sequence" and not isinstance(n.ctx, ast.Load):
                            fail(n, "%s writes _estimated_var_sequence" % fn.name)


def main(repo, out):
    t_qt = ast.parse(open(os.path.join(repo, F_QT)).read())
    t_le = ast.parse(open(os.path.join(repo, F_LE)).read())
    t_er = ast.parse(open(os.path.join(repo, F_ER)).read())
    defs = []
    # 1. the guard
    f = find_method(t_qt, "StandardQTomography", "is_fullrank_matA")
    (p_self,) = params(f, 1, [])
    fn = Fn(f, {p_self: "qt"}, monadic=False)
    code = fn.body()
    if fn.ret_type != "bool":
        fail(f, "is_fullrank_matA returns a %s" % fn.ret_type)
    defs.append("Definition gen_is_fullrank_matA (v_%s : qtomo F) : bool :=\n  %s." % (p_self, code))
    # 2. calc_estimate_sequence
    f = find_method(t_le, "LinearEstimator", "calc_estimate_sequence")
    p = params(f, 4, ["False"])
    fn = Fn(f, {p[1]: "qt", p[2]: "seq", p[3]: "bool"}, monadic=True, flag=p[3], self_name=p[0], self_kind="estimator")
    del fn.env[p[3]]          # the flag may only steer the bookkeeping
    code = fn.body()
    if fn.ret_type != "result":
        fail(f, "calc_estimate_sequence returns a %s" % fn.ret_type)
    defs.append("Definition gen_calc_estimate_sequence (v_%s : qtomo F) (v_%s : list (dataset F)) (v_%s : bool) : py (est_result F) :=\n  %s." % (p[1], p[2], p[3], code))
    # 3. calc_estimate
    f = find_method(t_le, "LinearEstimator", "calc_estimate")
    p = params(f, 4, ["False"])
    fn = Fn(f, {p[1]: "qt", p[2]: "dataset", p[3]: "bool"}, monadic=True, self_name=p[0], self_kind="estimator")
    code = fn.body()
    if fn.ret_type != "result":
        fail(f, "calc_estimate returns a %s" % fn.ret_type)
    defs.append("Definition gen_calc_estimate (v_%s : qtomo F) (v_%s : dataset F) (v_%s : bool) : py (est_result F) :=\n  %s." % (p[1], p[2], p[3], code))
    # 4. result accessors (+ constructors store the first argument)
    check_constructors(t_le, t_er)
    f = find_method(t_er, "StandardQTomographyEstimationResult", "estimated_var", prop=True)
    (p_self,) = params(f, 1, [])
    fn = Fn(f, {}, monadic=True, self_name=p_self, self_kind="result")
    code = fn.body()
    if fn.ret_type != "vec":
        fail(f, "estimated_var returns a %s" % fn.ret_type)
    defs.append("Definition gen_estimated_var (v_%s : est_result F) : py (list F) :=\n  %s." % (p_self, code))
    f = find_method(t_er, "StandardQTomographyEstimationResult", "estimated_var_sequence", prop=True)
    (p_self,) = params(f, 1, [])
    fn = Fn(f, {}, monadic=False, self_name=p_self, self_kind="result")
    code = fn.body()
    if fn.ret_type != "varlist":
        fail(f, "estimated_var_sequence returns a %s" % fn.ret_type)
    defs.append("Definition gen_estimated_var_sequence (v_%s : est_result F) : list (list F) :=\n  %s." % (p_self, code))
    f = find_method(t_er, "StandardQTomographyEstimationResult", "estimated_qoperation", prop=True)
    (p_self,) = params(f, 1, [])
    fn = Fn(f, {}, monadic=True, self_name=p_self, self_kind="result")
    code = fn.body()
    if fn.ret_type != "obj":
        fail(f, "estimated_qoperation returns a %s" % fn.ret_type)
    defs.append("Definition gen_estimated_qoperation (v_%s : est_result F) : py Obj :=\n  %s." % (p_self, code))
    f = find_method(t_er, "StandardQTomographyEstimationResult", "estimated_qoperation_sequence", prop=True)
    (p_self,) = params(f, 1, [])
    fn = Fn(f, {}, monadic=False, self_name=p_self, self_kind="result")
    code = fn.body()
    if fn.ret_type != "objlist":
        fail(f, "estimated_qoperation_sequence returns a %s" % fn.ret_type)
    defs.append("Definition gen_estimated_qoperation_sequence (v_%s : est_result F) : list Obj :=\n  %s." % (p_self, code))
    text = "(* GENERATED by gen/c09_py2coq.py from %s, %s, %s - do not edit *)\n" % (F_QT, F_LE, F_ER)
    text += "From Coq Require Import Arith List Bool ZArith.\nFrom QV.Core Require Import OF Sums Mat.\nFrom QV.Model Require Import C09_LinEst C09_PySem.\nImport ListNotations.\n\n"
    text += "Section Gen.\nContext (F : OF).\n(* the template object's generate_from_var: variables -> object (abstract) *)\nContext (Obj : Type) (gfv : list F -> Obj).\n\n" + "\n\n".join(defs) + "\nEnd Gen.\n"
    text += "Arguments gen_is_fullrank_matA {F}. Arguments gen_calc_estimate_sequence {F}. Arguments gen_calc_estimate {F}.\n"
    text += "Arguments gen_estimated_var {F}. Arguments gen_estimated_var_sequence {F}.\n"
    text += "Arguments gen_estimated_qoperation {F Obj} gfv. Arguments gen_estimated_qoperation_sequence {F Obj} gfv.\n"
    open(out, "w").write(text)


if __name__ == "__main__":
    try:
        main(sys.argv[1], sys.argv[2])
    except Unsupported as e:
        print("UNSUPPORTED: %s" % e)
        sys.exit(3)
