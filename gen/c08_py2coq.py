#!/usr/bin/env python3
"""C08's translator: a fail-closed translation of the index / stacking logic of quara's tomography forward model
(Python + a small numpy vocabulary) into Gallina, over the semantics of coq/theories/Model/C08_NpSem.v.

Run on every check:  c08_py2coq.py <repo> <out.v>   regenerates Gen_c08_forward.v from /repo's CURRENT source; coq/gen/C08_Equiv.v
(compiled in the same run) proves the regenerated definitions equal to the hand-written model of Model/C08_Forward.v.
Anything outside the subset raises Unsupported (exit 3): the tie is then reported broken, never silently skipped.

Typing is static: parameter / attribute types come from the TABLE below (part of the trusted base), local types are inferred.
  Z int | bool | F float | V 1-D array | M 2-D array (list of rows) | S schedule (list of item indices; the item names are
  dropped: `schedule[k][1]` is the k-th index) | L[T] list | P[T,..] tuple | D[T] dict keyed by (int, int) | DZ[T] dict keyed by int
Representation choices that are ASSUMPTIONS of the tie (stated in the manifest):
  * a State is represented by its `.vec`, a Povm by the list `.vecs` (so `.vec` / `.vecs` are identities);
  * `len(x.shape) < 2` is decided by the static type (False for M);
  * abstractions replace a source expression by a model parameter or by an in-scope expression (e.g. np.sqrt(dim) -> sd,
    int(dim * dim) -> vec_size, exact for the perfect squares that occur);
  * variables that are never read (outside abstracted expressions) and attribute stores that are not outputs are dropped; their
    right-hand sides must be syntactically pure (names, constants, arithmetic, subscripts, np.* / builtin calls) or the translator fails;
  * `assert c` becomes `if c then .. else None`.
"""
import ast, sys, os


class Unsupported(Exception):
    pass


def fail(node, msg):
    raise Unsupported("%s (line %s): %s" % (type(node).__name__, getattr(node, "lineno", "?"), msg))


# ---------------------------------------------------------------------------------------------- types
def parse_type(s):
    s = s.strip()
    for name in ("L", "P", "DZ", "D"):
        if s.startswith(name + "[") and s.endswith("]"):
            inner = s[len(name) + 1:-1]
            parts, depth, cur = [], 0, ""
            for ch in inner:
                if ch == "[":
                    depth += 1
                if ch == "]":
                    depth -= 1
                if ch == "," and depth == 0:
                    parts.append(cur); cur = ""
                else:
                    cur += ch
            parts.append(cur)
            ts = tuple(parse_type(p) for p in parts)
            return (name, ts) if name == "P" else (name, ts[0])
    if s in ("Z", "bool", "F", "V", "M", "S"):
        return (s,)
    raise Unsupported("type " + s)


Z, B, FT, V, M, S = ("Z",), ("bool",), ("F",), ("V",), ("M",), ("S",)


def coq_type(t):
    k = t[0]
    if k == "Z":
        return "Z"
    if k == "bool":
        return "bool"
    if k == "F":
        return "F"
    if k == "V":
        return "list F"
    if k == "M":
        return "list (list F)"
    if k in ("S", "SI"):
        return "list Z" if k == "S" else "Z"
    if k == "L":
        return "list (%s)" % coq_type(t[1])
    if k == "P":
        return "(" + " * ".join(coq_type(x) for x in t[1]) + ")"
    if k == "D":
        return "list ((Z * Z) * %s)" % coq_type(t[1])
    if k == "DZ":
        return "list (Z * %s)" % coq_type(t[1])
    if k == "Fn":
        return " -> ".join(coq_type(x) for x in t[1]) + " -> " + coq_type(t[2])
    raise Unsupported("type %r" % (t,))


def default(t):
    k = t[0]
    if k in ("Z", "SI"):
        return "0%Z"
    if k == "bool":
        return "false"
    if k == "F":
        return "(c0 F)"
    if k in ("V", "M", "S", "L", "D", "DZ"):
        return "[]"
    if k == "P":
        return "(" + ", ".join(default(x) for x in t[1]) + ")"
    raise Unsupported("default of %r" % (t,))


def elt_type(t):
    """element type when iterating / indexing"""
    if t == V:
        return FT
    if t == M:
        return V
    if t == S:
        return ("SI",)
    if t[0] == "L":
        return t[1]
    raise Unsupported("not a sequence: %r" % (t,))


def same(a, b):
    return coq_type(a) == coq_type(b)


PURE_CALLS = {"len", "int", "float", "list", "tuple", "dict", "range", "enumerate", "zip", "sum", "set", "sorted", "isinstance"}


# ---------------------------------------------------------------------------------------------- one function
class Fn:
    def __init__(self, fdef, sig, translated):
        self.f = fdef
        self.sig = sig
        self.translated = translated           # python name -> dict(coq, params[(name, type)], ret)
        self.abstr = {}                        # source text -> (coq text, type, is_param)
        self.varabstr = {}                     # source text -> variable name (abstraction kind "var")
        self.extra_params = []
        for src, (kind, txt, t) in sig.get("abstractions", {}).items():
            if kind == "var":                     # the expression denotes a mutable container that the function updates in place
                ty = parse_type(t)
                self.abstr[src] = (txt, ty)
                self.varabstr[src] = txt
                if (txt, ty) not in self.extra_params:
                    self.extra_params.append((txt, ty))
                continue
            if kind == "static":                  # a test decided by the declared representation (e.g. isinstance(var, QOperation))
                self.abstr[src] = (txt, ("static", txt == "true"))
                continue
            ty = parse_type(t)
            self.abstr[src] = (txt, ty)
            if kind == "param" and (txt, ty) not in self.extra_params:
                self.extra_params.append((txt, ty))
        self.calls = {}
        for src, (name, argts, rett) in sig.get("calls", {}).items():
            ty = ("Fn", tuple(parse_type(a) for a in argts), parse_type(rett))
            self.calls[src] = (name, ty)
            if (name, ty) not in self.extra_params:
                self.extra_params.append((name, ty))
        for name, argts, rett in sig.get("extra", []):
            ty = ("Fn", tuple(parse_type(a) for a in argts), parse_type(rett))
            if (name, ty) not in self.extra_params:
                self.extra_params.append((name, ty))
        self.ignore_calls = set(sig.get("ignore_calls", []))
        self.env = {}
        self.notes = []
        self.has_fail = False
        self.outputs = sig.get("outputs")
        self.vartypes = {k: parse_type(v) for k, v in sig.get("vars", {}).items()}
        self.dead = set()

    # ------------------------------------------------------------ liveness
    def vname(self, node):
        """variable name of a Name, of self.X, or of an expression abstracted as a mutable variable"""
        if isinstance(node, (ast.Call, ast.Attribute, ast.Subscript)) and self.varabstr:
            try:
                src_ = ast.unparse(node)
            except Exception:
                src_ = None
            if src_ in self.varabstr:
                return self.varabstr[src_]
        if isinstance(node, ast.Name):
            return node.id
        if isinstance(node, ast.Attribute) and isinstance(node.value, ast.Name) and node.value.id == "self":
            return "self_" + node.attr
        return None

    def loads(self, node, acc):
        """names read in `node`, not counting abstracted sub-expressions, receivers of .append and subscript-store bases"""
        if isinstance(node, ast.expr):
            try:
                src_ = ast.unparse(node)
            except Exception:
                src_ = None
            if src_ in self.abstr:
                import re
                for w in re.findall(r"[A-Za-z_]\w*", self.abstr[src_][0]):      # an in-scope replacement expression reads its names
                    acc.add(w)
                return
        if isinstance(node, ast.Assign) and len(node.targets) == 1 and self.vname(node.targets[0]) in getattr(self, "skip_dead", ()):
            return                                   # assignment to a never-read variable: its right-hand side is never needed
        if isinstance(node, (ast.Assign, ast.AugAssign)):
            tgts = node.targets if isinstance(node, ast.Assign) else [node.target]
            for t in tgts:
                if isinstance(t, ast.Subscript):
                    self.loads(t.slice, acc)         # d[k] = v reads k, not d
                    if self.vname(t.value) is None:
                        self.loads(t.value, acc)
                elif isinstance(t, (ast.Tuple, ast.List)):
                    pass
                elif self.vname(t) is None:
                    self.loads(t, acc)
            if isinstance(node, ast.AugAssign):
                n = self.vname(node.target)
                if n:
                    acc.add(n)
            self.loads(node.value, acc)
            return
        if isinstance(node, ast.Expr) and isinstance(node.value, ast.Call) and isinstance(node.value.func, ast.Attribute) \
                and node.value.func.attr in ("append", "appendleft") and self.vname(node.value.func.value):
            for a in node.value.args:
                self.loads(a, acc)
            return
        n = self.vname(node)
        if n is not None and isinstance(getattr(node, "ctx", None), ast.Load):
            acc.add(n)
            return
        for ch in ast.iter_child_nodes(node):
            self.loads(ch, acc)

    def pure(self, e):
        if isinstance(e, ast.expr) and ast.unparse(e) in self.abstr:
            return True
        for n in ast.iter_child_nodes(e):
            if not self.pure(n):
                return False
        n = e
        if True:
            if isinstance(n, ast.Call):
                fsrc = ast.unparse(n.func)
                strmeth = isinstance(n.func, ast.Attribute) and n.func.attr in ("lower", "upper", "endswith", "startswith")
                if not (fsrc.startswith("np.") or fsrc in PURE_CALLS or fsrc in self.calls or strmeth):
                    return False
            if isinstance(n, (ast.Lambda, ast.Await, ast.Yield, ast.YieldFrom, ast.NamedExpr)):
                return False
        return True

    # ------------------------------------------------------------ expressions
    def coerce(self, txt, have, want, node):
        if want is None or same(have, want):
            return txt
        if want == FT and have == Z and txt in ("(0)%Z", "(1)%Z"):
            return "(c0 F)" if txt == "(0)%Z" else "(c1 F)"
        fail(node, "type %s where %s is needed" % (coq_type(have), coq_type(want)))

    def zconst(self, e):
        if isinstance(e, ast.Constant) and isinstance(e.value, int) and not isinstance(e.value, bool):
            return e.value
        if isinstance(e, ast.UnaryOp) and isinstance(e.op, ast.USub) and isinstance(e.operand, ast.Constant) and isinstance(e.operand.value, int):
            return -e.operand.value
        if isinstance(e, ast.Name) and e.id in self.consts:
            return self.consts[e.id]
        return None

    def expr(self, e, want=None):
        txt, t = self.expr0(e, want)
        return self.coerce(txt, t, want, e), (want if want is not None else t)

    def expr0(self, e, want=None):
        src = ast.unparse(e)
        if src in self.abstr:
            return self.abstr[src]
        if isinstance(e, ast.Constant):
            if isinstance(e.value, bool):
                return ("true" if e.value else "false"), B
            if isinstance(e.value, int):
                return "(%d)%%Z" % e.value, Z
            fail(e, "constant %r" % (e.value,))
        n = self.vname(e)
        if n is not None:
            if n in self.consts:
                return "(%d)%%Z" % self.consts[n], Z
            if n not in self.env:
                fail(e, "unknown variable %s" % n)
            return n, self.env[n]
        if isinstance(e, ast.Attribute):
            a, ta = self.expr0(e.value)
            if e.attr == "vec" and ta == V:
                return a, V
            if e.attr == "vecs" and ta == ("L", V):
                return a, ta
            if e.attr == "ps" and ta == V:           # a MultinomialDistribution is represented by its .ps
                return a, V
            if e.attr == "size" and ta == V:
                return "(zlen %s)" % a, Z
            if e.attr == "shape" and ta in (V, M):
                return a, ("shape", ta)
            if e.attr == "T" and ta == M:
                return a, ("MT",)
            fail(e, "attribute .%s of %s" % (e.attr, ta))
        if isinstance(e, ast.Subscript):
            return self.subscript(e)
        if isinstance(e, ast.BinOp):
            return self.binop(e)
        if isinstance(e, ast.UnaryOp):
            a, ta = self.expr0(e.operand)
            if isinstance(e.op, ast.Not) and ta == B:
                return "(negb %s)" % a, B
            if isinstance(e.op, ast.USub):
                if ta == Z:
                    return "(- %s)%%Z" % a, Z
                if ta == FT:
                    return "(copp F %s)" % a, FT
                if ta == V:
                    return "(vec_neg F %s)" % a, V
                if ta == M:
                    return "(mat_neg F %s)" % a, M
            fail(e, "unary operator on %s" % (ta,))
        if isinstance(e, ast.BoolOp):
            parts = [self.expr(v, B)[0] for v in e.values]
            op = "&&" if isinstance(e.op, ast.And) else "||"
            return "(" + (" %s " % op).join(parts) + ")%bool", B
        if isinstance(e, ast.Compare):
            if len(e.ops) != 1:
                fail(e, "chained comparison")
            # len(x.shape) < 2 : decided by the static type
            l = e.left
            if isinstance(l, ast.Call) and ast.unparse(l.func) == "len" and isinstance(l.args[0], ast.Attribute) and l.args[0].attr == "shape":
                _, tb = self.expr0(l.args[0].value)
                rank = {V: 1, M: 2}.get(tb)
                c = self.zconst(e.comparators[0])
                if rank is None or c is None:
                    fail(e, "rank test")
                val = {ast.Lt: rank < c, ast.LtE: rank <= c, ast.Gt: rank > c, ast.GtE: rank >= c, ast.Eq: rank == c, ast.NotEq: rank != c}[type(e.ops[0])]
                self.notes.append("static: `%s` is %s by the declared type" % (src, val))
                return ("true" if val else "false"), ("static", val)
            a, ta = self.expr0(e.left)
            b, tb = self.expr0(e.comparators[0])
            if ta != Z or tb != Z:
                fail(e, "comparison of %s, %s" % (ta, tb))
            m = {ast.Eq: "(%s =? %s)%%Z", ast.NotEq: "(negb (%s =? %s)%%Z)", ast.Lt: "(%s <? %s)%%Z",
                 ast.LtE: "(%s <=? %s)%%Z", ast.Gt: "(%s >? %s)%%Z", ast.GtE: "(%s >=? %s)%%Z"}
            if type(e.ops[0]) not in m:
                fail(e, "comparison operator")
            return m[type(e.ops[0])] % (a, b), B
        if isinstance(e, ast.IfExp):
            c = self.expr(e.test, B)[0]
            a, ta = self.expr0(e.body, want)
            b = self.expr(e.orelse, ta)[0]
            return "(if %s then %s else %s)" % (c, a, b), ta
        if isinstance(e, ast.Tuple):
            parts = [self.expr0(v) for v in e.elts]
            return "(" + ", ".join(p for p, _ in parts) + ")", ("P", tuple(t for _, t in parts))
        if isinstance(e, ast.List):
            if not e.elts:
                if want is not None and want[0] == "L":
                    return "[]", want
                return "[]", ("L?",)
            parts = [self.expr0(v) for v in e.elts]
            t0 = parts[0][1]
            if any(not same(t, t0) for _, t in parts):
                fail(e, "heterogeneous list literal")
            return "[" + "; ".join(p for p, _ in parts) + "]", ("L", t0)
        if isinstance(e, ast.ListComp):
            return self.comprehension(e)
        if isinstance(e, ast.Call):
            return self.call(e, want)
        fail(e, "expression %s" % src)

    def comprehension(self, e):
        if len(e.generators) != 1 or e.generators[0].is_async:
            fail(e, "comprehension shape")
        g = e.generators[0]
        it, tit = self.iterable(g.iter)
        saved = dict(self.env)
        pat = self.bind_pattern(g.target, elt_type(tit))
        for cond in g.ifs:                       # [e for x in it if c] : map over filter
            c = self.expr(cond, B)[0]
            it = "(filter (fun %s => %s) %s)" % (pat, c, it)
        body, tb = self.expr0(e.elt)
        self.env = saved
        return "(map (fun %s => %s) %s)" % (pat, body, it), ("L", tb)

    def iterable(self, e):
        """expression used as an iterable -> (coq list, type L[..] / V / M)"""
        if isinstance(e, ast.Call) and isinstance(e.func, ast.Name):
            if e.func.id == "range" and len(e.args) == 1:
                a = self.expr(e.args[0], Z)[0]
                return "(zrange %s)" % a, ("L", Z)
            if e.func.id == "enumerate" and len(e.args) == 1:
                a, ta = self.iterable(e.args[0])
                return "(zenumerate %s)" % a, ("L", ("P", (Z, elt_type(ta))))
        a, ta = self.expr0(e)
        if ta in (V, M, S) or ta[0] == "L":
            return a, ta
        fail(e, "iteration over %s" % (ta,))

    def bind_pattern(self, target, t):
        if isinstance(target, ast.Name):
            if target.id == "_":
                return "_"
            self.env[target.id] = t
            return target.id
        if isinstance(target, ast.Tuple) and t[0] == "P" and len(t[1]) == len(target.elts):
            return "'(" + ", ".join(self.bind_pattern(x, tt) for x, tt in zip(target.elts, t[1])) + ")"
        fail(target, "binding pattern for %s" % (t,))

    def slice_bound(self, s):
        return "None" if s is None else "(Some %s)" % self.expr(s, Z)[0]

    def subscript(self, e):
        sl = e.slice
        # M[:, :k] / M[:, k:]
        if isinstance(sl, ast.Tuple) and len(sl.elts) == 2 and all(isinstance(x, ast.Slice) for x in sl.elts):
            a, ta = self.expr0(e.value)
            r, c = sl.elts
            if ta != M or r.lower or r.upper or r.step or c.step:
                fail(e, "2-D slice")
            if c.lower is None and c.upper is not None:
                return "(cols_to F %s %s)" % (a, self.expr(c.upper, Z)[0]), M
            if c.upper is None and c.lower is not None:
                return "(cols_from F %s %s)" % (a, self.expr(c.lower, Z)[0]), M
            fail(e, "2-D slice bounds")
        a, ta = self.expr0(e.value)
        if isinstance(sl, ast.Slice):
            if sl.step is not None:
                fail(e, "slice step")
            if ta in (V, M) or ta[0] == "L":
                return "(py_slice %s %s %s)" % (a, self.slice_bound(sl.lower), self.slice_bound(sl.upper)), ta
            fail(e, "slice of %s" % (ta,))
        if ta[0] == "shape":
            c = self.zconst(sl)
            if ta[1] == M and c in (0, 1):
                return "(shape%d F %s)" % (c, a), Z
            if ta[1] == V and c == 0:
                return "(zlen %s)" % a, Z
            fail(e, "shape index")
        if ta == ("MT",):
            if self.zconst(sl) == 0:
                return "(col0 F %s)" % a, V
            fail(e, ".T index")
        if ta[0] == "P":
            c = self.zconst(sl)
            n = len(ta[1])
            if c is None or not (0 <= c < n):
                fail(e, "tuple index")
            return "(let '(%s) := %s in x%d_)" % (", ".join("x%d_" % i for i in range(n)), a, c), ta[1][c]
        if ta == ("SI",):
            if self.zconst(sl) == 1:
                return a, Z
            fail(e, "schedule item component (only [1], the index, is modelled)")
        if ta[0] == "DZ":
            return "(dictz_get %s %s %s)" % (default(ta[1]), a, self.expr(sl, Z)[0]), ta[1]
        if ta in (V, M, S) or ta[0] == "L":
            et = elt_type(ta)
            return "(znth %s %s %s)" % (default(et), a, self.expr(sl, Z)[0]), et
        fail(e, "subscript of %s" % (ta,))

    def binop(self, e):
        a, ta = self.expr0(e.left)
        b, tb = self.expr0(e.right)
        op = type(e.op)
        if ta == Z and tb == Z:
            if op is ast.Pow:
                c = self.zconst(e.right)
                if c not in (2, 4):
                    fail(e, "only ** 2 and ** 4")
                return "(" + " * ".join([a] * c) + ")%Z", Z
            ops = {ast.Add: "+", ast.Sub: "-", ast.Mult: "*", ast.FloorDiv: "/", ast.Mod: "mod"}
            if op not in ops:
                fail(e, "int operator")
            return "(%s %s %s)%%Z" % (a, ops[op], b), Z
        if ta == FT and tb == FT:
            ops = {ast.Add: "cadd F", ast.Sub: "csub F", ast.Mult: "cmul F", ast.Div: "kdiv F"}
            if op not in ops:
                fail(e, "float operator")
            return "(%s %s %s)" % (ops[op], a, b), FT
        if ta == V and tb == V and op in (ast.Add, ast.Sub):
            return "(%s F %s %s)" % ("vec_add" if op is ast.Add else "vec_sub", a, b), V
        if ta == M and tb == V and op is ast.MatMult:
            return "(matvec F %s %s)" % (a, b), V
        if ta[0] == "L" and tb == Z and op is ast.Mult:
            return "(list_repeat %s %s)" % (a, b), ta
        if ta[0] == "L" and tb[0] == "L" and op is ast.Add and same(ta, tb):
            return "(%s ++ %s)" % (a, b), ta
        fail(e, "operator %s on %s, %s" % (op.__name__, ta, tb))

    def call(self, e, want):
        fsrc = ast.unparse(e.func)
        args = e.args
        if fsrc in self.calls:
            name, ty = self.calls[fsrc]
            if not e.keywords and len(args) == 1 and isinstance(args[0], ast.Starred) and len(ty[1]) == 1:
                return "(%s %s)" % (name, self.expr(args[0].value, ty[1][0])[0]), ty[2]      # f(*list)
            if e.keywords or len(args) != len(ty[1]):
                fail(e, "arity of %s" % fsrc)
            return "(%s %s)" % (name, " ".join(self.expr(a, t)[0] for a, t in zip(args, ty[1]))), ty[2]
        if fsrc in self.translated:
            tr = self.translated[fsrc]
            given = {}
            for (pn, pt), a in zip(tr["params"], args):
                given[pn] = a
            for kw in e.keywords:
                given[kw.arg] = kw.value
            if set(given) != set(pn for pn, _ in tr["params"]):
                fail(e, "arguments of %s" % fsrc)
            return "(%s F %s)" % (tr["coq"], " ".join(self.expr(given[pn], pt)[0] for pn, pt in tr["params"])), tr["ret"]
        if isinstance(e.func, ast.Attribute) and e.func.attr == "keys" and not args and not e.keywords:
            a, ta = self.expr0(e.func.value)
            if ta[0] == "D":
                return "(map fst %s)" % a, ("L", ("P", (Z, Z)))
        if fsrc == "np.array" and len(args) == 1 and [k.arg for k in e.keywords] == ["dtype"] and ast.unparse(e.keywords[0].value) == "np.float64":
            a, ta = self.expr0(args[0])
            if ta == ("L", FT):
                return a, V                       # np.array(list of floats, dtype=np.float64)
            fail(e, "np.array of %s" % (ta,))
        if e.keywords:
            fail(e, "keyword arguments of %s" % fsrc)
        if fsrc == "np.stack" and len(args) == 1:
            a, ta = self.expr0(args[0])
            if ta == ("L", V):
                return "(np_vstack1 F %s)" % a, M
            fail(e, "np.stack of %s" % (ta,))
        if fsrc == "all" and len(args) == 1:
            a = self.expr(args[0], ("L", B))[0]
            return "(forallb (fun b_ : bool => b_) %s)" % a, B
        if fsrc == "len" and len(args) == 1:
            if isinstance(args[0], ast.Call) and ast.unparse(args[0].func) == "set" and len(args[0].args) == 1:
                a = self.expr(args[0].args[0], ("L", Z))[0]
                return "(zlen (nodupz %s))" % a, Z
            a, ta = self.expr0(args[0])
            if ta in (V, M, S) or ta[0] == "L":
                return "(zlen %s)" % a, Z
            fail(e, "len of %s" % (ta,))
        if fsrc == "sum" and len(args) == 1 and isinstance(args[0], ast.GeneratorExp):
            g = args[0]
            lc = ast.ListComp(elt=g.elt, generators=g.generators)
            ast.copy_location(lc, g)
            a, ta = self.comprehension(lc)
            if ta != ("L", Z):
                fail(e, "sum of %s" % (ta,))
            return "(zsum %s)" % a, Z
        if fsrc == "collections.deque" and not args:
            if want is not None and want[0] == "L":
                return "[]", want
            return "[]", ("L?",)
        if fsrc == "dict" and not args:
            if want is not None and want[0] in ("D", "DZ"):
                return "[]", want
            return "[]", ("D?",)
        if fsrc == "sorted" and len(args) == 1 and isinstance(args[0], ast.Call) and isinstance(args[0].func, ast.Attribute) \
                and args[0].func.attr == "items" and not args[0].args:
            a, ta = self.expr0(args[0].func.value)
            if ta[0] != "D":
                fail(e, "sorted(items) of %s" % (ta,))
            return "(dict_sorted_items %s)" % a, ("L", ("P", (("P", (Z, Z)), ta[1])))
        if fsrc == "np.zeros" and len(args) == 1:
            if isinstance(args[0], ast.Tuple) and len(args[0].elts) == 2:
                r = self.expr(args[0].elts[0], Z)[0]; c = self.expr(args[0].elts[1], Z)[0]
                return "(np_zeros2 F %s %s)" % (r, c), M
            a, ta = self.expr0(args[0])
            if ta == Z:
                return "(np_zeros1 F %s)" % a, V
            if ta == ("P", (Z, Z)):
                return "(np_zeros2 F (fst %s) (snd %s))" % (a, a), M
            fail(e, "np.zeros of %s" % (ta,))
        if fsrc in ("np.hstack", "np.vstack", "np.array") and len(args) == 1:
            a, ta = self.expr0(args[0])
            if ta == ("L", V):
                if fsrc == "np.hstack":
                    return "(np_hstack1 F %s)" % a, V
                return "(np_vstack1 F %s)" % a, M
            if ta == ("L", M) and fsrc != "np.array":
                return "(np_%s2 F %s)" % (fsrc[3:], a), M
            fail(e, "%s of %s" % (fsrc, ta))
        if fsrc == "np.split" and len(args) == 2:
            a = self.expr(args[0], V)[0]
            if isinstance(args[1], ast.List) and len(args[1].elts) == 1:
                return "(np_split1 F %s %s)" % (a, self.expr(args[1].elts[0], Z)[0]), ("P", (V, V))
            return "(np_split F %s %s)" % (a, self.expr(args[1], ("L", Z))[0]), ("L", V)
        if fsrc == "np.cumsum" and len(args) == 1:
            return "(np_cumsum %s)" % self.expr(args[0], ("L", Z))[0], ("L", Z)
        if fsrc == "np.tile" and len(args) == 2:
            return "(np_tile1 F %s %s)" % (self.expr(args[0], V)[0], self.expr(args[1], Z)[0]), V
        if fsrc == "np.outer" and len(args) == 2:
            return "(np_outer F %s %s)" % (self.expr(args[0], V)[0], self.expr(args[1], V)[0]), M
        if fsrc == "block_diag" and len(args) == 1 and isinstance(args[0], ast.Starred):
            return "(sp_block_diag F %s)" % self.expr(args[0].value, ("L", M))[0], M
        if isinstance(e.func, ast.Attribute) and e.func.attr == "flatten" and not args:
            a, ta = self.expr0(e.func.value)
            if ta == M:
                return "(np_flatten F %s)" % a, V
            if ta == V:
                return a, V
        fail(e, "call %s" % ast.unparse(e))

    # ------------------------------------------------------------ statements
    def assigned(self, stmts):
        """live variable names (Name or self.X, dict-set bases, append receivers) assigned in stmts, in order"""
        out = []

        def add(n):
            if n and n != "_" and n not in out and n not in self.dead:
                out.append(n)

        def tg(t):
            if isinstance(t, (ast.Tuple, ast.List)):
                for x in t.elts:
                    tg(x)
            elif isinstance(t, ast.Subscript):
                add(self.vname(t.value))
            else:
                add(self.vname(t))
        for s in stmts:
            for n in ast.walk(s):
                if isinstance(n, ast.Assign):
                    for t in n.targets:
                        tg(t)
                elif isinstance(n, ast.AugAssign):
                    tg(n.target)
                elif isinstance(n, ast.Expr) and isinstance(n.value, ast.Call) and isinstance(n.value.func, ast.Attribute) \
                        and n.value.func.attr in ("append", "appendleft"):
                    add(self.vname(n.value.func.value))
        return out

    def has_ctrl(self, stmts, kinds):
        """does any statement that can execute contain a node of `kinds`? (branches decided statically by an abstraction are not entered)"""
        for st in stmts:
            if isinstance(st, kinds):
                return True
            if isinstance(st, ast.If):
                src = ast.unparse(st.test)
                if src in self.abstr and self.abstr[src][1][0] == "static":
                    if self.has_ctrl(st.body if self.abstr[src][1][1] else st.orelse, kinds):
                        return True
                    continue
                if self.has_ctrl(st.body, kinds) or self.has_ctrl(st.orelse, kinds):
                    return True
            elif isinstance(st, (ast.For, ast.While, ast.With, ast.Try)):
                for fld in ("body", "orelse", "finalbody"):
                    if self.has_ctrl(getattr(st, fld, []) or [], kinds):
                        return True
        return False

    def tuple_of(self, names):
        return names[0] if len(names) == 1 else "(" + ", ".join(names) + ")"

    def pat_of(self, names):
        return names[0] if len(names) == 1 else "'(" + ", ".join(names) + ")"

    def ret(self, v):
        return "(Some %s)" % v if self.has_fail else v

    def finish(self):
        if self.outputs is None:
            fail(self.f, "function falls off its end and declares no outputs")
        outs = []
        for o in self.outputs:
            n = o.replace("self.", "self_")
            if n not in self.env:
                fail(self.f, "output %s is never assigned" % o)
            outs.append(n)
        self.ret_type = self.env[outs[0]] if len(outs) == 1 else ("P", tuple(self.env[n] for n in outs))
        return self.ret(self.tuple_of(outs))

    def drop_dead(self, s, n, rhs):
        if not self.pure(rhs):
            fail(s, "right-hand side of the unread variable %s is not syntactically pure" % n)
        self.notes.append("dropped (never read): %s  [line %s]" % (n, s.lineno))

    def block(self, stmts, k):
        if not stmts:
            return k()
        s, rest = stmts[0], stmts[1:]
        cont = lambda: self.block(rest, k)
        if isinstance(s, ast.Expr) and isinstance(s.value, ast.Constant) and isinstance(s.value.value, str):
            return cont()
        if isinstance(s, ast.Pass):
            return cont()
        if isinstance(s, ast.Return):
            if s.value is None:
                fail(s, "bare return")
            v, t = self.expr0(s.value)
            self.ret_type = t
            return self.ret(v)
        if isinstance(s, ast.Assert):
            c = self.expr(s.test, B)[0]
            return "if %s then %s\n  else None" % (c, cont())
        if isinstance(s, ast.Assign):
            if len(s.targets) != 1:
                fail(s, "multiple targets")
            tg = s.targets[0]
            n = self.vname(tg)
            if n is not None:
                if n in self.dead:
                    self.drop_dead(s, n, s.value)
                    return cont()
                if isinstance(s.value, ast.Constant) and isinstance(s.value.value, int) and not isinstance(s.value.value, bool) \
                        and n.isupper() and n not in self.env:
                    self.consts[n] = s.value.value            # NAMED_CONSTANT = 2
                    return cont()
                v, t = self.expr0(s.value, self.vartypes.get(n))
                if t in (("L?",), ("D?",)):
                    if n not in self.vartypes:
                        fail(s, "type of the empty container %s is not declared in the table" % n)
                    t = self.vartypes[n]
                if n in self.env and not same(self.env[n], t):
                    fail(s, "variable %s changes type %s -> %s" % (n, coq_type(self.env[n]), coq_type(t)))
                self.env[n] = t
                return "let %s := %s in\n  %s" % (n, v, cont())
            if isinstance(tg, ast.Tuple):
                v, t = self.expr0(s.value)
                if t[0] != "P" or len(t[1]) != len(tg.elts):
                    fail(s, "tuple assignment from %s" % (t,))
                names = []
                for x, tt in zip(tg.elts, t[1]):
                    xn = self.vname(x)
                    if xn is None:
                        fail(s, "tuple target")
                    if xn == "_" or xn in self.dead:
                        names.append("_")
                    else:
                        self.env[xn] = tt
                        names.append(xn)
                return "let '(%s) := %s in\n  %s" % (", ".join(names), v, cont())
            if isinstance(tg, ast.Subscript):
                n = self.vname(tg.value)
                if n is None:
                    fail(s, "subscript store base")
                if n in self.dead:
                    self.drop_dead(s, n, s.value)
                    return cont()
                if n not in self.env:
                    fail(s, "store into unknown %s" % n)
                t = self.env[n]
                if t[0] == "D":
                    if not (isinstance(tg.slice, ast.Tuple) and len(tg.slice.elts) == 2):
                        fail(s, "dict key")
                    k1 = self.expr(tg.slice.elts[0], Z)[0]; k2 = self.expr(tg.slice.elts[1], Z)[0]
                    v = self.expr(s.value, t[1])[0]
                    return "let %s := dict_set %s (%s, %s) %s in\n  %s" % (n, n, k1, k2, v, cont())
                if t[0] == "DZ":
                    k1 = self.expr(tg.slice, Z)[0]
                    v = self.expr(s.value, t[1])[0]
                    return "let %s := dictz_set %s %s %s in\n  %s" % (n, n, k1, v, cont())
                if t[0] == "L" and not isinstance(tg.slice, ast.Slice):
                    k1 = self.expr(tg.slice, Z)[0]
                    v = self.expr(s.value, t[1])[0]
                    return "let %s := py_list_set %s %s %s in\n  %s" % (n, n, k1, v, cont())
                fail(s, "store into %s" % (t,))
            fail(s, "assignment target")
        if isinstance(s, ast.Expr) and isinstance(s.value, ast.Call) and ast.unparse(s.value.func) in self.ignore_calls:
            self.notes.append("dropped validation call %s [line %s]" % (ast.unparse(s.value.func), s.lineno))
            return cont()
        if isinstance(s, ast.Expr) and isinstance(s.value, ast.Call) and isinstance(s.value.func, ast.Attribute) \
                and s.value.func.attr in ("append", "appendleft") and len(s.value.args) == 1:
            left = s.value.func.attr == "appendleft"
            n = self.vname(s.value.func.value)
            if n is None:
                fail(s, "append receiver")
            if n in self.dead:
                self.drop_dead(s, n, s.value.args[0])
                return cont()
            if n not in self.env or self.env[n][0] != "L":
                fail(s, "append to %s" % n)
            v = self.expr(s.value.args[0], self.env[n][1])[0]
            if left:
                return "let %s := (%s :: %s) in\n  %s" % (n, v, n, cont())
            return "let %s := (%s ++ [%s]) in\n  %s" % (n, n, v, cont())
        if isinstance(s, ast.If):
            c, tc = self.expr0(s.test)
            if tc[0] == "static":
                self.notes.append("branch decided statically at line %s" % s.lineno)
                return self.block((s.body if tc[1] else s.orelse) + rest, k)
            if tc != B:
                fail(s, "if condition of type %s" % (tc,))
            if ends(s.body) and isinstance(s.body[-1], ast.Return) and not any(isinstance(n, ast.Raise) for b in s.body + s.orelse for n in ast.walk(b)) \
                    and (not s.orelse or (ends(s.orelse) and isinstance(s.orelse[-1], ast.Return))):
                # if c: ...; return X   [else: ...; return Y]   followed by the rest
                saved = dict(self.env)
                a = self.block(s.body, lambda: fail(s, "fallthrough"))
                self.env = dict(saved)
                b = self.block(s.orelse, lambda: fail(s, "fallthrough")) if s.orelse else cont()
                return "if %s then %s\n  else %s" % (c, a, b)
            if any(isinstance(n, (ast.Return, ast.Raise)) for b in s.body + s.orelse for n in ast.walk(b)):
                fail(s, "return / raise inside an if")
            ab, ae = self.assigned(s.body), self.assigned(s.orelse)
            before = set(self.env)
            export = [v for v in ab + [x for x in ae if x not in ab] if v in before or (v in ab and v in ae)]
            saved = dict(self.env)
            a = self.block(s.body, lambda: self.tuple_of(export)) if export else None
            env_a = self.env
            self.env = dict(saved)
            b = self.block(s.orelse, lambda: self.tuple_of(export)) if export else None
            env_b = self.env
            self.env = dict(saved)
            if not export:
                return cont()
            for v in export:
                if v not in env_a or v not in env_b or not same(env_a[v], env_b[v]):
                    fail(s, "branches disagree on %s" % v)
                self.env[v] = env_a[v]
            return "let %s := (if %s then %s else %s) in\n  %s" % (self.pat_of(export), c, a, b, cont())
        if isinstance(s, ast.For):
            if s.orelse:
                fail(s, "for-else")
            if self.has_ctrl(s.body, (ast.Return, ast.Raise, ast.Break, ast.Continue)):
                fail(s, "return / raise / break / continue inside a loop")
            it, tit = self.iterable(s.iter)
            saved = dict(self.env)
            carried = [v for v in self.assigned(s.body) if v in saved]
            if not carried:
                fail(s, "loop without carried state")
            pat = self.bind_pattern(s.target, elt_type(tit))
            body = self.block(s.body, lambda: self.tuple_of(carried))
            for v in carried:
                if not same(self.env[v], saved[v]):
                    fail(s, "loop changes the type of %s" % v)
            self.env = saved
            st = self.pat_of(carried)
            return "let %s := fold_left (fun st_ it_ => let %s := st_ in let %s := it_ in\n      %s) %s %s in\n  %s" % (
                st, st, pat, body, it, self.tuple_of(carried), cont())
        fail(s, "statement")

    def translate(self, stmts=None):
        f = self.f
        params = []
        drop = set(self.sig.get("drop", [])) | {"self"}
        ptypes = {k: parse_type(v) for k, v in self.sig.get("params", {}).items()}
        self.consts = {}
        if stmts is None:
            for a in f.args.args:
                if a.arg in drop:
                    continue
                if a.arg not in ptypes:
                    fail(f, "no type for parameter %s in the table" % a.arg)
                self.env[a.arg] = ptypes[a.arg]
                params.append((a.arg, ptypes[a.arg]))
            stmts = f.body
        else:
            for n, t in ptypes.items():
                self.env[n] = t
                params.append((n, t))
        for n, t in self.extra_params:
            self.env.setdefault(n, t)
        self.has_fail = any(isinstance(n, ast.Assert) for st in stmts for n in ast.walk(st))
        # fail closed: every abstraction of the table must still occur in the source (otherwise the code it stood for was rewritten)
        present = set()
        for st in stmts:
            for nd in ast.walk(st):
                if isinstance(nd, ast.expr):
                    try:
                        present.add(ast.unparse(nd))
                    except Exception:
                        pass
        for src in self.abstr:
            if src not in present:
                fail(f, "the abstracted expression `%s` no longer occurs in the source" % src)
        # liveness (transitive: a variable read only by statements that assign never-read variables is itself never read)
        self.dead = set()
        allv = set(self.assigned(stmts))
        outs = {o.replace("self.", "self_") for o in (self.outputs or [])}
        dead = set()
        while True:
            self.skip_dead = dead
            live = set(outs)
            for st in stmts:
                self.loads(st, live)
            new_dead = {v for v in allv if v not in live}
            if new_dead == dead:
                break
            dead = new_dead
        self.skip_dead = set()
        self.dead = dead
        self.ret_type = None
        body = self.block(stmts, self.finish)
        allp = self.extra_params + params
        name = self.sig["coq_name"]
        rt = self.ret_type
        hdr = "Definition %s (F : OF) %s :=\n  %s." % (name, " ".join("(%s : %s)" % (n, coq_type(t)) for n, t in allp), body)
        info = dict(coq=name, params=params, ret=(("Opt", rt) if self.has_fail else rt), extra=self.extra_params)
        return hdr, info


def ends(stmts):
    return bool(stmts) and isinstance(stmts[-1], (ast.Return, ast.Raise))


def find_function(tree, sig):
    cls = sig.get("class")
    scope = tree
    if cls:
        scope = next((n for n in ast.walk(tree) if isinstance(n, ast.ClassDef) and n.name == cls), None)
        if scope is None:
            raise Unsupported("class %s not found" % cls)
        cands = [n for n in scope.body if isinstance(n, ast.FunctionDef) and n.name == sig["function"]]
    else:
        cands = [n for n in tree.body if isinstance(n, ast.FunctionDef) and n.name == sig["function"]]
    if len(cands) != 1:
        raise Unsupported("function %s%s: %d definitions" % ((cls + ".") if cls else "", sig["function"], len(cands)))
    return cands[0]


def fragment(fdef, attr):
    """the unique top-level statement of fdef that contains every assignment to self.<attr>"""
    def assigns(node):
        for n in ast.walk(node):
            if isinstance(n, (ast.Assign, ast.AugAssign)):
                for t in (n.targets if isinstance(n, ast.Assign) else [n.target]):
                    for m in ast.walk(t):
                        if isinstance(m, ast.Attribute) and isinstance(m.value, ast.Name) and m.value.id == "self" and m.attr == attr:
                            return True
        return False
    hits = [s for s in fdef.body if assigns(s)]
    if len(hits) != 1:
        raise Unsupported("self.%s is assigned in %d top-level statements of %s" % (attr, len(hits), fdef.name))
    return hits[0]


HEADER = """(* GENERATED by /verif/gen/c08_py2coq.py from /repo's current source -- do not edit, not committed. *)
From Coq Require Import ZArith List Bool.
From QV.Core Require Import OF.
From QV.Model Require Import C08_NpSem.
Import ListNotations.
"""

STD = "quara/protocol/qtomography/standard/"
NUMVAR = lambda cls, file, abstr: dict(file=STD + file, **{"class": cls}, function="__init__", fragment="_num_variables",
                                       coq_name="gen_%s_num_variables" % cls.lower().replace("standard", ""),
                                       params={"on_para_eq_constraint": "bool"}, abstractions=abstr, outputs=["self._num_variables"])
SCHED = {"self._experiment.schedules": ("param", "schedules", "L[S]")}
TABLE = [
    # ---- num_variables formulas (the `if on_para_eq_constraint:` statement of the four constructors)
    NUMVAR("StandardQst", "standard_qst.py", {"state.dim": ("param", "dim", "Z")}),
    NUMVAR("StandardPovmt", "standard_povmt.py", {"povm.dim": ("param", "dim", "Z"), "len(vecs)": ("param", "m", "Z")}),
    NUMVAR("StandardQpt", "standard_qpt.py", {"gate.dim": ("param", "dim", "Z")}),
    NUMVAR("StandardQmpt", "standard_qmpt.py", {"mprocess.dim": ("param", "dim", "Z"), "num_outcomes": ("param", "m", "Z")}),
    # ---- num_outcomes(schedule_index): schedule -> tester lookup
    dict(file=STD + "standard_qst.py", **{"class": "StandardQst"}, function="num_outcomes", coq_name="gen_qst_num_outcomes",
         params={"schedule_index": "Z"},
         abstractions=dict(SCHED, **{"self.num_schedules": ("expr", "(zlen schedules)", "Z"), "self._experiment._povms": ("param", "povms", "L[L[V]]")})),
    dict(file=STD + "standard_povmt.py", **{"class": "StandardPovmt"}, function="num_outcomes", coq_name="gen_povmt_num_outcomes",
         params={"schedule_index": "Z"},
         abstractions={"self.num_schedules": ("param", "num_schedules", "Z"), "self._num_outcomes": ("param", "m", "Z")}),
    dict(file=STD + "standard_qpt.py", **{"class": "StandardQpt"}, function="num_outcomes", coq_name="gen_qpt_num_outcomes",
         params={"schedule_index": "Z"},
         abstractions=dict(SCHED, **{"self.num_schedules": ("expr", "(zlen schedules)", "Z"), "self._experiment._povms": ("param", "povms", "L[L[V]]")})),
    dict(file=STD + "standard_qmpt.py", **{"class": "StandardQmpt"}, function="num_outcomes", coq_name="gen_qmpt_num_outcomes",
         params={"schedule_index": "Z"},
         abstractions=dict(SCHED, **{"self.num_schedules": ("expr", "(zlen schedules)", "Z"), "self._experiment._povms": ("param", "povms", "L[L[V]]"),
                                    "self._num_outcomes": ("param", "m", "Z")})),
    # ---- the coefficient dictionaries
    dict(file=STD + "standard_qst.py", **{"class": "StandardQst"}, function="_set_coeffs", coq_name="gen_qst_set_coeffs",
         params={"on_para_eq_constraint": "bool"}, drop=["experiment", "dim"],
         abstractions=dict(SCHED, **{"self._experiment.povms": ("param", "povms", "L[L[V]]"), "np.sqrt(dim)": ("param", "sd", "F")}),
         vars={"self__coeffs_0th": "D[F]", "self__coeffs_1st": "D[V]"}, outputs=["self._coeffs_0th", "self._coeffs_1st"]),
    dict(file=STD + "standard_povmt.py", **{"class": "StandardPovmt"}, function="_set_coeffs", coq_name="gen_povmt_set_coeffs",
         params={"on_para_eq_constraint": "bool"}, drop=["experiment"],
         abstractions=dict(SCHED, **{"self._experiment.states": ("param", "states", "L[V]"), "self._num_outcomes": ("param", "m_outcomes", "Z"),
                                    "np.sqrt(dim)": ("param", "sd", "F")}),
         vars={"self__coeffs_0th": "D[F]", "self__coeffs_1st": "D[V]", "stack_list": "L[V]"}, outputs=["self._coeffs_0th", "self._coeffs_1st"]),
    dict(file=STD + "standard_qpt.py", function="calc_c_qpt", coq_name="gen_calc_c_qpt",
         params={"states": "L[V]", "povms": "L[L[V]]", "schedules": "L[S]", "on_para_eq_constraint": "bool"},
         abstractions={"int(dim * dim)": ("expr", "vec_size", "Z")},
         vars={"coeffs_0th": "D[F]", "coeffs_1st": "D[V]", "c_dict": "DZ[M]", "schedule_c_list": "L[V]"}),
    dict(file=STD + "standard_qpt.py", **{"class": "StandardQpt"}, function="_set_coeffs", coq_name="gen_qpt_set_coeffs",
         params={"on_para_eq_constraint": "bool"}, drop=["experiment"],
         abstractions=dict(SCHED, **{"self._experiment.states": ("param", "states", "L[V]"), "self._experiment.povms": ("param", "povms", "L[L[V]]")}),
         outputs=["self._coeffs_0th", "self._coeffs_1st"]),
    dict(file=STD + "standard_qmpt.py", function="cqpt_to_cqmpt", coq_name="gen_cqpt_to_cqmpt",
         params={"c_qpt": "M", "m_mprocess": "Z", "dim": "Z", "on_para_eq_constraint": "bool"}),
    dict(file=STD + "standard_qmpt.py", **{"class": "StandardQmpt"}, function="_set_coeffs", coq_name="gen_qmpt_set_coeffs",
         params={"on_para_eq_constraint": "bool"}, drop=["experiment"],
         abstractions=dict(SCHED, **{"self._experiment.states": ("param", "states", "L[V]"), "self._experiment.povms": ("param", "povms", "L[L[V]]"),
                                    "self.num_outcomes_estimate": ("param", "m_outcomes", "Z"), "self._experiment.states[0].dim": ("param", "dim", "Z")}),
         vars={"self__coeffs_0th": "D[F]", "self__coeffs_1st": "D[V]"}, outputs=["self._coeffs_0th", "self._coeffs_1st"]),
    # ---- Experiment.calc_prob_dists: one circuit evaluation per schedule INDEX, in schedule order (calc_prob_dist is an uninterpreted callee)
    dict(file="quara/qcircuit/experiment.py", **{"class": "Experiment"}, function="calc_prob_dists", coq_name="gen_experiment_calc_prob_dists",
         params={}, abstractions={"self.schedules": ("param", "schedules", "L[S]")},
         calls={"self.calc_prob_dist": ("calc_prob_dist", ["Z"], "V")}, vars={"prob_dists": "L[V]"}),
    dict(file="quara/qcircuit/experiment.py", **{"class": "Experiment"}, function="calc_prob_dist", coq_name="gen_experiment_calc_prob_dist",
         params={"schedule_index": "Z"},
         # a schedule item is (kind code, index); objects are opaque ids; key_map[k][i] is the lookup of object i of kind k
         abstractions={"self.schedules": ("param", "schedules", "L[L[P[Z,Z]]]"), "key_map[k][i]": ("expr", "(lookup k i)", "Z"),
                       "not target": ("static", "false", "bool")},
         extra=[("lookup", ["Z", "Z"], "Z")], calls={"op.compose_qoperations": ("compose", ["L[Z]"], "V")},
         ignore_calls=["self._validate_schedule_index"], vars={"targets": "L[Z]"}),
    # ---- the validity test of the constructors: every later tester's CompositeSystem must be == (CompositeSystem.__eq__, uninterpreted) the first one's
    dict(file=STD + "standard_qtomography.py", **{"class": "StandardQTomography"}, function="is_all_same_composite_systems",
         coq_name="gen_is_all_same_composite_systems", params={"targets": "L[Z]"},
         abstractions={"targets[0]._composite_system == target._composite_system": ("expr", "(same_csys (znth 0%Z targets 0%Z) target)", "bool")},
         extra=[("same_csys", ["Z", "Z"], "bool")]),
    # ---- generate_prob_dists_sequence: on a COPY of the experiment, the unknown's slot of every schedule is replaced by the true object,
    #      then every schedule is evaluated. slots = the copy's list of objects of the estimated kind (opaque ids); the attribute NAME
    #      dispatch (class name -> "states"/"povms"/"gates"/"mprocesses") stays differential; _get_target_index / calc_prob_dists uninterpreted
    dict(file=STD + "standard_qtomography.py", **{"class": "StandardQTomography"}, function="generate_prob_dists_sequence",
         coq_name="gen_generate_prob_dists_sequence", params={"true_object": "Z"},
         abstractions={"self._experiment.copy()": ("param", "experiment_copy", "Z"),
                       "tmp_experiment.schedules": ("param", "schedules", "L[S]"),
                       "getattr(tmp_experiment, attribute_name)": ("var", "slots", "L[Z]"),
                       "self._get_target_index(tmp_experiment, schedule_index)": ("expr", "(get_target_index schedule_index)", "Z"),
                       "tmp_experiment.calc_prob_dists()": ("expr", "(calc_prob_dists_of slots)", "L[V]")},
         extra=[("get_target_index", ["Z"], "Z"), ("calc_prob_dists_of", ["L[Z]"], "L[V]")]),
    # ---- is_valid_experiment of the four classes: which tester lists are tested for a common CompositeSystem (objects are opaque ids)
    dict(file=STD + "standard_qst.py", **{"class": "StandardQst"}, function="is_valid_experiment", coq_name="gen_qst_is_valid_experiment",
         params={}, abstractions={"self._experiment.povms": ("param", "povms", "L[Z]")}, calls={"self.is_all_same_composite_systems": ("all_same", ["L[Z]"], "bool")}),
    dict(file=STD + "standard_povmt.py", **{"class": "StandardPovmt"}, function="is_valid_experiment", coq_name="gen_povmt_is_valid_experiment",
         params={}, abstractions={"self._experiment.states": ("param", "states", "L[Z]")}, calls={"self.is_all_same_composite_systems": ("all_same", ["L[Z]"], "bool")}),
    dict(file=STD + "standard_qpt.py", **{"class": "StandardQpt"}, function="is_valid_experiment", coq_name="gen_qpt_is_valid_experiment",
         params={}, abstractions={"self._experiment.states": ("param", "states", "L[Z]"), "self._experiment.povms": ("param", "povms", "L[Z]")}, calls={"self.is_all_same_composite_systems": ("all_same", ["L[Z]"], "bool")}),
    dict(file=STD + "standard_qmpt.py", **{"class": "StandardQmpt"}, function="is_valid_experiment", coq_name="gen_qmpt_is_valid_experiment",
         params={}, abstractions={"self._experiment.states": ("param", "states", "L[Z]"), "self._experiment.povms": ("param", "povms", "L[Z]")}, calls={"self.is_all_same_composite_systems": ("all_same", ["L[Z]"], "bool")}),
    # ---- which object of a schedule is the unknown
    dict(file=STD + "standard_qst.py", **{"class": "StandardQst"}, function="_get_target_index", coq_name="gen_qst_get_target_index",
         params={"schedule_index": "Z"}, drop=["experiment"], abstractions={"experiment.schedules": ("param", "schedules", "L[S]")}),
    dict(file=STD + "standard_povmt.py", **{"class": "StandardPovmt"}, function="_get_target_index", coq_name="gen_povmt_get_target_index",
         params={"schedule_index": "Z"}, drop=["experiment"], abstractions={"experiment.schedules": ("param", "schedules", "L[S]")}),
    dict(file=STD + "standard_qpt.py", **{"class": "StandardQpt"}, function="_get_target_index", coq_name="gen_qpt_get_target_index",
         params={"schedule_index": "Z"}, drop=["experiment"], abstractions={"experiment.schedules": ("param", "schedules", "L[S]")}),
    dict(file=STD + "standard_qmpt.py", **{"class": "StandardQmpt"}, function="_get_target_index", coq_name="gen_qmpt_get_target_index",
         params={"schedule_index": "Z"}, drop=["experiment"], abstractions={"experiment.schedules": ("param", "schedules", "L[S]")}),
    # ---- calc_prob_dist(qope, j) = calc_prob_dists(qope)[j] ; the full-rank guard (np.linalg.matrix_rank uninterpreted)
    dict(file=STD + "standard_qtomography.py", **{"class": "StandardQTomography"}, function="calc_prob_dist", coq_name="gen_calc_prob_dist",
         params={"schedule_index": "Z"}, drop=["qope"], abstractions={"self.calc_prob_dists(qope)": ("param", "all_prob_dists", "L[V]")}),
    dict(file=STD + "standard_qtomography.py", **{"class": "StandardQTomography"}, function="is_fullrank_matA", coq_name="gen_is_fullrank_matA",
         params={}, abstractions={"self.calc_matA()": ("param", "matA", "M")}, calls={"np.linalg.matrix_rank": ("matrix_rank", ["M"], "Z")}),
    # ---- per-schedule accessors: the values of the keys (j, x) of schedule j, in dictionary insertion order
    dict(file=STD + "standard_qtomography.py", **{"class": "StandardQTomography"}, function="get_coeffs_0th_vec", coq_name="gen_get_coeffs_0th_vec",
         params={"schedule_index": "Z"}, abstractions={"self._coeffs_0th": ("param", "dict_0th", "D[F]")},
         calls={"self.get_coeffs_0th": ("get_coeffs_0th", ["Z", "Z"], "F")}, vars={"l": "L[F]"}),
    dict(file=STD + "standard_qtomography.py", **{"class": "StandardQTomography"}, function="get_coeffs_1st_mat", coq_name="gen_get_coeffs_1st_mat",
         params={"schedule_index": "Z"}, abstractions={"self._coeffs_0th": ("param", "dict_0th", "D[F]")},
         calls={"self.get_coeffs_1st": ("get_coeffs_1st", ["Z", "Z"], "V")}, vars={"ll": "L[V]"}),
    # ---- stacking
    dict(file=STD + "standard_qtomography.py", **{"class": "StandardQTomography"}, function="calc_matA", coq_name="gen_calc_matA",
         params={}, abstractions={"self._coeffs_1st": ("param", "coeffs_1st", "D[V]")}),
    dict(file=STD + "standard_qtomography.py", **{"class": "StandardQTomography"}, function="calc_vecB", coq_name="gen_calc_vecB",
         params={}, abstractions={"self._coeffs_0th": ("param", "coeffs_0th", "D[F]"),
                                  # np.vstack of the scalar offsets followed by .flatten(): the list of the offsets
                                  "np.vstack(sorted_values).flatten()": ("expr", "sorted_values", "V")}),
    # ---- the split of calc_prob_dists and the slice of calc_fisher_matrix
    dict(file=STD + "standard_qtomography.py", **{"class": "StandardQTomography"}, function="calc_prob_dists", coq_name="gen_calc_prob_dists",
         params={}, drop=["qope"],
         abstractions={"self._on_para_eq_constraint": ("param", "para", "bool"), "self.calc_matA()": ("param", "matA", "M"), "self.calc_vecB()": ("param", "vecB", "V"),
                       "qope.to_var()": ("param", "var", "V"), "qope.to_stacked_vector()": ("param", "var", "V"),
                       "self.num_schedules": ("param", "num_schedules", "Z")},
         calls={"self.num_outcomes": ("num_outcomes", ["Z"], "Z"), "matrix_util.truncate_and_normalize": ("truncate_and_normalize", ["V"], "V")}),
    dict(file=STD + "standard_qtomography.py", **{"class": "StandardQTomography"}, function="calc_fisher_matrix", coq_name="gen_calc_fisher_matrix",
         params={"j": "Z", "var": "V"},
         abstractions={"isinstance(var, QOperation)": ("static", "false", "bool"), "self.calc_matA()": ("param", "matA", "M"), "self.calc_vecB()": ("param", "vecB", "V")},
         calls={"self.num_outcomes": ("num_outcomes", ["Z"], "Z"), "matrix_util.calc_fisher_matrix": ("ext_calc_fisher_matrix", ["V", "M"], "M")}),
]


def main():
    repo, outpath = sys.argv[1], sys.argv[2]
    out = [HEADER]
    translated = {}
    try:
        for sig in TABLE:
            tree = ast.parse(open(os.path.join(repo, sig["file"])).read())
            fdef = find_function(tree, sig)
            fn = Fn(fdef, sig, translated)
            stmts = [fragment(fdef, sig["fragment"])] if "fragment" in sig else None
            text, info = fn.translate(stmts)
            out.append("(* from %s : %s%s%s *)" % (sig["file"], (sig["class"] + ".") if sig.get("class") else "", sig["function"],
                                                   (" (statement assigning self.%s)" % sig["fragment"]) if "fragment" in sig else ""))
            for n in fn.notes:
                out.append("(*   %s *)" % n.replace("(*", "( *").replace("*)", "* )"))
            out.append(text)
            out.append("")
            if not info["extra"] and not sig.get("class"):
                translated[sig["function"]] = info
    except Unsupported as e:
        print("UNSUPPORTED: %s: %s" % (sig.get("function"), e))
        sys.exit(3)
    open(outpath, "w").write("\n".join(out) + "\n")
    print("ok: %d definitions -> %s" % (len(TABLE), outpath))


if __name__ == "__main__":
    main()
