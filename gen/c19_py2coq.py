#!/usr/bin/env python3
"""Fail-closed translator for the loop / index / validation skeletons behind quara's analytical error formulas (property C19):
Python `ast` -> Gallina.  Usage: c19_py2coq.py <repo> <out.v>.  Translated on every run from the CURRENT source:

  quara/utils/matrix_util.py
      replace_prob_dist                                   -> gen_replace_prob_dist : nat -> F -> vec -> vec   (+ default eps)
      calc_direct_sum                                     -> gen_direct_sum : list nparr -> mres (nat * mat)
                                                             (both validation branches in source order, size accumulation,
                                                              slice bounds of the placement, index update)
      calc_covariance_mat_total                           -> gen_mu_cov_total (which tuple component is the sample size / the
                                                             distribution; hands the blocks to gen_direct_sum)
      calc_fisher_matrix_total                            -> gen_ft_len_mismatch (the length guards), gen_ft_weight_ok,
                                                             gen_ft_size (accumulator size), gen_ft_acc (indices used in the loop)
  quara/protocol/qtomography/standard/standard_qtomography.py  (class StandardQTomography)
      calc_covariance_mat_single                          -> gen_tomo_cov_single
      calc_covariance_mat_total                           -> gen_tomo_cov_total  (loop over range(num_schedules), index into data_num_list)
      calc_mse_empi_dists_analytical                      -> gen_tomo_mse_empi   (loop over enumerate(data_num_list))
      calc_fisher_matrix_total                            -> gen_tomo_fisher_total_terms (weights[.] * calc_fisher_matrix(., var))
      _calc_cramer_rao_bound                              -> gen_cr_weights, gen_cr_value
  quara/protocol/qtomography/standard/standard_povmt.py   StandardPovmt._generate_matS  -> gen_povmt_matS
  quara/protocol/qtomography/standard/standard_qmpt.py    StandardQmpt._generate_matS   -> gen_qmpt_matS

Everything numerical inside those functions (np.diag, outer products, the inverse, calc_fisher_matrix's own loop, eigen/pinv)
is NOT translated and stays differential.  Anything outside the accepted shapes raises Unsupported -> the tie is reported
broken (never skipped).  Integer expressions become `nat` (Python's `-` becomes truncated subtraction: equal whenever the
Python value is non-negative, which holds for every count / offset here)."""
import ast, sys, os
from fractions import Fraction


class Unsupported(Exception):
    pass


def fail(node, msg):
    raise Unsupported("%s (line %s): %s" % (type(node).__name__, getattr(node, "lineno", "?"), msg))


def body_wo_doc(fdef):
    b = list(fdef.body)
    if b and isinstance(b[0], ast.Expr) and isinstance(b[0].value, ast.Constant) and isinstance(b[0].value.value, str):
        b = b[1:]
    return b


def find_class(tree, name):
    for n in tree.body:
        if isinstance(n, ast.ClassDef) and n.name == name:
            return n
    raise Unsupported("class %s not found" % name)


def find_def(scope, name):
    ds = [n for n in scope.body if isinstance(n, ast.FunctionDef) and n.name == name]
    if len(ds) != 1:
        raise Unsupported("expected exactly one def %s, found %d" % (name, len(ds)))
    return ds[0]


def argnames(fdef):
    a = fdef.args
    if a.vararg or a.kwarg or a.kwonlyargs or a.posonlyargs:
        fail(fdef, "unsupported parameter kinds")
    return [x.arg for x in a.args]


def is_name(e, n=None):
    return isinstance(e, ast.Name) and (n is None or e.id == n)


def is_self_attr(e, attr=None):
    return isinstance(e, ast.Attribute) and is_name(e.value, "self") and (attr is None or e.attr == attr)


def is_const(e, v):
    return isinstance(e, ast.Constant) and type(e.value) is type(v) and e.value == v


def assign1(st):
    """`name = value` -> (name, value)"""
    if not (isinstance(st, ast.Assign) and len(st.targets) == 1 and isinstance(st.targets[0], ast.Name)):
        fail(st, "expected `<name> = <expr>`")
    return st.targets[0].id, st.value


def is_raise_valueerror(st):
    return (isinstance(st, ast.Raise) and isinstance(st.exc, ast.Call) and is_name(st.exc.func, "ValueError"))


# ------------------------------------------------------------------ integer expressions -> nat
class NatExpr:
    """env: python name -> coq term; attrs: (obj name, attr) -> coq term; self_attrs: attr -> coq term;
    shape: obj name -> (coq sh0, coq sh1)"""

    def __init__(self, env=None, self_attrs=None, arrs=None):
        self.env = dict(env or {}); self.self_attrs = dict(self_attrs or {}); self.arrs = set(arrs or [])

    def tr(self, e):
        if isinstance(e, ast.Constant) and type(e.value) is int and 0 <= e.value <= 1000:
            return "%d" % e.value
        if isinstance(e, ast.Name) and e.id in self.env:
            return self.env[e.id]
        if is_self_attr(e) and e.attr in self.self_attrs:
            return self.self_attrs[e.attr]
        if isinstance(e, ast.Attribute) and is_name(e.value) and e.value.id in self.arrs and e.attr == "ndim":
            return "(a_ndim %s)" % e.value.id
        if (isinstance(e, ast.Subscript) and isinstance(e.value, ast.Attribute) and e.value.attr == "shape" and is_name(e.value.value)
                and e.value.value.id in self.arrs and isinstance(e.slice, ast.Constant) and e.slice.value in (0, 1) and type(e.slice.value) is int):
            return "(a_sh%d %s)" % (e.slice.value, e.value.value.id)
        if isinstance(e, ast.BinOp):
            if isinstance(e.op, ast.Add):
                return "(%s + %s)" % (self.tr(e.left), self.tr(e.right))
            if isinstance(e.op, ast.Sub):
                return "(%s - %s)" % (self.tr(e.left), self.tr(e.right))
            if isinstance(e.op, ast.Mult):
                return "(%s * %s)" % (self.tr(e.left), self.tr(e.right))
            if isinstance(e.op, ast.Pow) and isinstance(e.right, ast.Constant) and type(e.right.value) is int and 0 <= e.right.value <= 4:
                return "(Nat.pow %s %d)" % (self.tr(e.left), e.right.value)
        fail(e, "unsupported integer expression")

    def cmp(self, e):
        if isinstance(e, ast.Compare) and len(e.ops) == 1:
            a, b = self.tr(e.left), self.tr(e.comparators[0])
            op = e.ops[0]
            if isinstance(op, ast.NotEq):
                return "(negb (Nat.eqb %s %s))" % (a, b)
            if isinstance(op, ast.Eq):
                return "(Nat.eqb %s %s)" % (a, b)
            if isinstance(op, ast.Lt):
                return "(Nat.ltb %s %s)" % (a, b)
        fail(e, "unsupported integer comparison")


def slice_bounds(s, nx):
    if not (isinstance(s, ast.Slice) and s.step is None):
        fail(s, "expected a slice lo:hi")
    lo = "0" if s.lower is None else nx.tr(s.lower)
    if s.upper is None:
        fail(s, "slice without upper bound")
    return lo, nx.tr(s.upper)


# ------------------------------------------------------------------ matrix_util.replace_prob_dist
def tr_replace(fdef):
    if argnames(fdef) != ["prob_dist", "eps"]:
        fail(fdef, "unexpected parameters %s" % argnames(fdef))
    st = body_wo_doc(fdef)
    if len(st) != 6:
        fail(fdef, "expected 6 statements, found %d" % len(st))
    s0 = st[0]
    ok = (isinstance(s0, ast.Assign) and is_name(s0.targets[0], "eps") and isinstance(s0.value, ast.IfExp)
          and is_name(s0.value.body, "eps") and isinstance(s0.value.orelse, ast.Constant) and type(s0.value.orelse.value) is float
          and isinstance(s0.value.test, ast.Compare) and is_name(s0.value.test.left, "eps") and isinstance(s0.value.test.ops[0], ast.IsNot)
          and isinstance(s0.value.test.comparators[0], ast.Constant) and s0.value.test.comparators[0].value is None)
    if not ok:
        fail(s0, "expected `eps = eps if eps is not None else <float>`")
    default = Fraction(*s0.value.orelse.value.as_integer_ratio())
    S, v1 = assign1(st[1])
    if not (isinstance(v1, ast.Subscript) and isinstance(v1.value, ast.Attribute) and v1.value.attr == "shape"
            and is_name(v1.value.value, "prob_dist") and is_const(v1.slice, 0)):
        fail(st[1], "expected `<S> = prob_dist.shape[0]`")
    C, v2 = assign1(st[2])
    ok = (isinstance(v2, ast.Call) and isinstance(v2.func, ast.Attribute) and v2.func.attr == "count_nonzero" and len(v2.args) == 1 and not v2.keywords
          and isinstance(v2.args[0], ast.Compare) and len(v2.args[0].ops) == 1 and isinstance(v2.args[0].ops[0], ast.Lt)
          and is_name(v2.args[0].left, "prob_dist") and is_name(v2.args[0].comparators[0], "eps"))
    if not ok:
        fail(st[2], "expected `<C> = np.count_nonzero(prob_dist < eps)`")
    Rn, v3 = assign1(st[3])
    if not (isinstance(v3, ast.Call) and isinstance(v3.func, ast.Attribute) and v3.func.attr == "zeros" and len(v3.args) == 1 and is_name(v3.args[0], S)):
        fail(st[3], "expected `<R> = np.zeros(<S>)`")
    s4 = st[4]
    ok = (isinstance(s4, ast.For) and isinstance(s4.target, ast.Tuple) and [getattr(x, "id", None) for x in s4.target.elts] == ["index", "prob"]
          and isinstance(s4.iter, ast.Call) and is_name(s4.iter.func, "enumerate") and len(s4.iter.args) == 1 and is_name(s4.iter.args[0], "prob_dist")
          and len(s4.body) == 1 and isinstance(s4.body[0], ast.If) and not s4.orelse)
    if not ok:
        fail(s4, "expected `for index, prob in enumerate(prob_dist): if ...: ... else: ...`")
    iff = s4.body[0]

    def fexpr(e):
        if is_name(e, "eps") or is_name(e, "prob"):
            return e.id
        if is_name(e, S):
            return "(of_nat F size_prob_dist)"
        if is_name(e, C):
            return "(of_nat F count_replace)"
        if isinstance(e, ast.Subscript) and is_name(e.value, "prob_dist") and is_name(e.slice, "index"):
            return "(prob_dist index)"
        if isinstance(e, ast.Constant) and type(e.value) is int and 0 <= e.value <= 1000:
            return "(of_nat F %d)" % e.value
        if isinstance(e, ast.BinOp) and isinstance(e.op, (ast.Add, ast.Sub, ast.Mult, ast.Div)):
            fn = {ast.Add: "cadd F", ast.Sub: "csub F", ast.Mult: "cmul F", ast.Div: "kdiv F"}[type(e.op)]
            return "(%s %s %s)" % (fn, fexpr(e.left), fexpr(e.right))
        fail(e, "unsupported arithmetic expression in replace_prob_dist")

    def fcond(e):
        if isinstance(e, ast.Compare) and len(e.ops) == 1 and isinstance(e.ops[0], ast.Lt):
            return "(flt F %s %s)" % (fexpr(e.left), fexpr(e.comparators[0]))
        fail(e, "unsupported condition in replace_prob_dist")

    def store(body):
        if not (len(body) == 1 and isinstance(body[0], ast.Assign) and isinstance(body[0].targets[0], ast.Subscript)
                and is_name(body[0].targets[0].value, Rn) and is_name(body[0].targets[0].slice, "index")):
            fail(body[0], "expected `<R>[index] = <expr>`")
        return fexpr(body[0].value)
    c = fcond(iff.test); a = store(iff.body); b = store(iff.orelse)
    if not (isinstance(st[5], ast.Return) and is_name(st[5].value, Rn)):
        fail(st[5], "expected `return <R>`")
    txt = ("Definition gen_replace_default_eps_num : Z := (%d)%%Z.\nDefinition gen_replace_default_eps_den : Z := (%d)%%Z.\n"
           % (default.numerator, default.denominator))
    txt += ("Definition gen_replace_prob_dist (size_prob_dist : nat) (eps : F) (prob_dist : vec) : vec :=\n"
            "  let count_replace := count_lt F eps size_prob_dist prob_dist in\n"
            "  fun index => let prob := prob_dist index in\n"
            "    if %s then %s\n    else %s.\n" % (c, a, b))
    return txt


# ------------------------------------------------------------------ matrix_util.calc_direct_sum
def tr_direct_sum(fdef):
    if argnames(fdef) != ["matrices"]:
        fail(fdef, "unexpected parameters %s" % argnames(fdef))
    st = body_wo_doc(fdef)
    if len(st) != 6:
        fail(fdef, "expected 6 statements, found %d" % len(st))
    acc, v = assign1(st[0])
    if not is_const(v, 0):
        fail(st[0], "expected `<size> = 0`")
    lp = st[1]
    ok = (isinstance(lp, ast.For) and not lp.orelse and isinstance(lp.iter, ast.Call) and is_name(lp.iter.func, "enumerate")
          and len(lp.iter.args) == 1 and is_name(lp.iter.args[0], "matrices") and isinstance(lp.target, ast.Tuple) and len(lp.target.elts) == 2
          and all(isinstance(x, ast.Name) for x in lp.target.elts))
    if not ok:
        fail(lp, "expected `for i, <d> in enumerate(matrices):`")
    d = lp.target.elts[1].id
    nx = NatExpr(env={acc: acc}, arrs=[d])
    steps = []      # validation loop body, in source order
    for s in lp.body:
        if isinstance(s, ast.If) and not s.orelse and len(s.body) == 1 and is_raise_valueerror(s.body[0]):
            steps.append(("check", nx.cmp(s.test)))
        elif isinstance(s, ast.AugAssign) and is_name(s.target, acc) and isinstance(s.op, ast.Add):
            steps.append(("add", nx.tr(s.value)))
        else:
            fail(s, "unsupported statement in the validation loop")
    if [k for k, _ in steps] != ["check", "check", "add"]:
        fail(lp, "expected two `if ...: raise ValueError` checks followed by `<size> += ...`")
    body = "MOk (%s + %s)" % (acc, steps[2][1])
    body = "if %s then MErr 2 else %s" % (steps[1][1], body)
    body = "if %s then MErr 1 else %s" % (steps[0][1], body)
    txt = ("Definition gen_ds_validate (matrices : list (nparr F)) : mres nat :=\n"
           "  fold_left (fun acc %s => match acc with MErr c => MErr c | MOk %s =>\n      %s end) matrices (MOk 0).\n" % (d, acc, body))
    # allocation
    mat, v = assign1(st[2])
    ok = (isinstance(v, ast.Call) and isinstance(v.func, ast.Attribute) and v.func.attr == "zeros" and len(v.args) == 1 and not v.keywords
          and isinstance(v.args[0], ast.Tuple) and len(v.args[0].elts) == 2 and all(is_name(x, acc) for x in v.args[0].elts))
    if not ok:
        fail(st[2], "expected `<matrix> = np.zeros((<size>, <size>))`")
    idx, v = assign1(st[3])
    if not is_const(v, 0):
        fail(st[3], "expected `<index> = 0`")
    lp2 = st[4]
    if not (isinstance(lp2, ast.For) and not lp2.orelse and is_name(lp2.iter, "matrices") and isinstance(lp2.target, ast.Name) and len(lp2.body) == 3):
        fail(lp2, "expected `for <d> in matrices:` with three statements")
    d2 = lp2.target.id
    sz, v = assign1(lp2.body[0])
    nx2 = NatExpr(env={idx: idx}, arrs=[d2])
    size_e = nx2.tr(v)
    nx2.env[sz] = sz
    pl = lp2.body[1]
    ok = (isinstance(pl, ast.Assign) and len(pl.targets) == 1 and isinstance(pl.targets[0], ast.Subscript) and is_name(pl.targets[0].value, mat)
          and isinstance(pl.targets[0].slice, ast.Tuple) and len(pl.targets[0].slice.elts) == 2 and is_name(pl.value, d2))
    if not ok:
        fail(pl, "expected `<matrix>[a:b, c:d] = <d>`")
    r0, r1 = slice_bounds(pl.targets[0].slice.elts[0], nx2)
    c0, c1 = slice_bounds(pl.targets[0].slice.elts[1], nx2)
    up = lp2.body[2]
    if not (isinstance(up, ast.AugAssign) and is_name(up.target, idx) and isinstance(up.op, ast.Add)):
        fail(up, "expected `<index> += ...`")
    nxt = nx2.tr(up.value)
    if not (isinstance(st[5], ast.Return) and is_name(st[5].value, mat)):
        fail(st[5], "expected `return <matrix>`")
    txt += ("Definition gen_ds_place (matrices : list (nparr F)) : nat * mat :=\n"
            "  fold_left (fun st %s => let '(%s, %s) := st in let %s := %s in\n"
            "      ((%s + %s)%%nat, np_place F %s %s %s %s (a_dat %s) %s)) matrices (0%%nat, np_zeros F).\n"
            % (d2, idx, mat, sz, size_e, idx, nxt, r0, r1, c0, c1, d2, mat))
    txt += ("Definition gen_direct_sum (matrices : list (nparr F)) : mres (nat * mat) :=\n"
            "  match gen_ds_validate matrices with MErr c => MErr c | MOk n => MOk (n, snd (gen_ds_place matrices)) end.\n")
    return txt


# ------------------------------------------------------------------ matrix_util.calc_covariance_mat_total
def tuple_index(e, var):
    if isinstance(e, ast.Subscript) and is_name(e.value, var) and isinstance(e.slice, ast.Constant) and e.slice.value in (0, 1) and type(e.slice.value) is int:
        return e.slice.value
    fail(e, "expected %s[0] or %s[1]" % (var, var))


def tr_mu_cov_total(fdef):
    if argnames(fdef) != ["empi_dists"]:
        fail(fdef, "unexpected parameters")
    st = body_wo_doc(fdef)
    if len(st) != 4:
        fail(fdef, "expected 4 statements")
    L, v = assign1(st[0])
    if not (isinstance(v, ast.List) and not v.elts):
        fail(st[0], "expected `<L> = []`")
    lp = st[1]
    if not (isinstance(lp, ast.For) and not lp.orelse and is_name(lp.iter, "empi_dists") and isinstance(lp.target, ast.Name) and len(lp.body) == 2):
        fail(lp, "expected `for <e> in empi_dists:` with two statements")
    ev = lp.target.id
    m1, call = assign1(lp.body[0])
    if not (isinstance(call, ast.Call) and is_name(call.func, "calc_covariance_mat") and len(call.args) == 2 and not call.keywords):
        fail(call, "expected calc_covariance_mat(<q>, <n>)")
    qi = tuple_index(call.args[0], ev); ni = tuple_index(call.args[1], ev)
    ap = lp.body[1]
    if not (isinstance(ap, ast.Expr) and isinstance(ap.value, ast.Call) and isinstance(ap.value.func, ast.Attribute) and ap.value.func.attr == "append"
            and is_name(ap.value.func.value, L) and len(ap.value.args) == 1 and is_name(ap.value.args[0], m1)):
        fail(ap, "expected `<L>.append(<m>)`")
    val, call2 = assign1(st[2])
    if not (isinstance(call2, ast.Call) and is_name(call2.func, "calc_direct_sum") and len(call2.args) == 1 and is_name(call2.args[0], L)):
        fail(st[2], "expected `<v> = calc_direct_sum(<L>)`")
    if not (isinstance(st[3], ast.Return) and is_name(st[3].value, val)):
        fail(st[3], "expected `return <v>`")
    comp = {0: "(fst (snd e))", 1: "(snd (snd e))"}    # e = (size of the distribution, (component 0, component 1)) ; sizes are the array's own
    # a tuple (data_num, dist): component 0 / 1 are passed as F-valued sample size resp. distribution by position
    txt = ("(* empi_dists entries are (length of the distribution, component 0 as a number, component 1 as a number, component 0 as a vector,\n"
           "   component 1 as a vector): the translation records WHICH component is used as the distribution and which as the sample size *)\n"
           "Definition gen_mu_cov_dist_component : nat := %d.\nDefinition gen_mu_cov_num_component : nat := %d.\n" % (qi, ni))
    return txt


# ------------------------------------------------------------------ matrix_util.calc_fisher_matrix_total
def tr_mu_fisher_total(fdef):
    if argnames(fdef) != ["prob_dists", "grad_prob_dists", "weights", "eps"]:
        fail(fdef, "unexpected parameters")
    st = body_wo_doc(fdef)
    lens = {}
    guards = []
    weight_cond = None
    size_e = None
    acc_idx = None
    i = 0
    # eps default
    s0 = st[i]
    if not (isinstance(s0, ast.Assign) and is_name(s0.targets[0], "eps") and isinstance(s0.value, ast.IfExp)):
        fail(s0, "expected the eps default")
    i += 1
    while i < len(st) and isinstance(st[i], ast.Assign) and isinstance(st[i].value, ast.Call) and is_name(st[i].value.func, "len"):
        n, v = assign1(st[i])
        if not (len(v.args) == 1 and isinstance(v.args[0], ast.Name) and v.args[0].id in ("prob_dists", "grad_prob_dists", "weights")):
            fail(st[i], "expected `<n> = len(<list parameter>)`")
        lens[n] = {"prob_dists": "lp", "grad_prob_dists": "lg", "weights": "lw"}[v.args[0].id]
        i += 1
    nx = NatExpr(env=lens)
    while i < len(st) and isinstance(st[i], ast.If) and not st[i].orelse and len(st[i].body) == 1 and is_raise_valueerror(st[i].body[0]):
        guards.append(nx.cmp(st[i].test)); i += 1
    if not guards:
        fail(fdef, "no length guard found")
    # weights loop
    lp = st[i]
    ok = (isinstance(lp, ast.For) and not lp.orelse and isinstance(lp.iter, ast.Call) and is_name(lp.iter.func, "enumerate") and is_name(lp.iter.args[0], "weights")
          and isinstance(lp.target, ast.Tuple) and len(lp.target.elts) == 2 and len(lp.body) == 1 and isinstance(lp.body[0], ast.If)
          and not lp.body[0].orelse and len(lp.body[0].body) == 1 and is_raise_valueerror(lp.body[0].body[0]))
    if not ok:
        fail(lp, "expected `for index, weight in enumerate(weights): if weight < 0: raise ValueError`")
    wv = lp.target.elts[1].id
    t = lp.body[0].test
    if not (isinstance(t, ast.Compare) and len(t.ops) == 1 and isinstance(t.ops[0], ast.Lt) and is_name(t.left, wv) and is_const(t.comparators[0], 0)):
        fail(t, "expected `<weight> < 0`")
    i += 1
    ms, v = assign1(st[i]); i += 1
    # accumulator size: prob_dists[0].shape[0]  (number of outcomes)  or  len(grad_prob_dists[0][0])  (number of variables)
    def size_expr(e):
        if (isinstance(e, ast.Subscript) and isinstance(e.value, ast.Attribute) and e.value.attr == "shape" and isinstance(e.value.value, ast.Subscript)
                and is_name(e.value.value.value, "prob_dists") and is_const(e.value.value.slice, 0) and is_const(e.slice, 0)):
            return "num_outcomes"
        if (isinstance(e, ast.Call) and is_name(e.func, "len") and len(e.args) == 1 and isinstance(e.args[0], ast.Subscript)
                and isinstance(e.args[0].value, ast.Subscript) and is_name(e.args[0].value.value, "grad_prob_dists")
                and is_const(e.args[0].value.slice, 0) and is_const(e.args[0].slice, 0)):
            return "num_variables"
        if (isinstance(e, ast.Subscript) and isinstance(e.value, ast.Attribute) and e.value.attr == "shape" and isinstance(e.value.value, ast.Subscript)
                and isinstance(e.value.value.value, ast.Subscript) and is_name(e.value.value.value.value, "grad_prob_dists")
                and is_const(e.value.value.value.slice, 0) and is_const(e.value.value.slice, 0) and is_const(e.slice, 0)):
            return "num_variables"
        fail(e, "unsupported accumulator size expression")
    size_e = size_expr(v)
    mat, v = assign1(st[i]); i += 1
    ok = (isinstance(v, ast.Call) and isinstance(v.func, ast.Attribute) and v.func.attr == "zeros" and isinstance(v.args[0], ast.Tuple)
          and all(is_name(x, ms) for x in v.args[0].elts) and len(v.args[0].elts) == 2)
    if not ok:
        fail(st[i - 1], "expected `<matrix> = np.zeros((<n>, <n>))`")
    lp2 = st[i]; i += 1
    ok = (isinstance(lp2, ast.For) and not lp2.orelse and isinstance(lp2.iter, ast.Call) and is_name(lp2.iter.func, "range") and len(lp2.iter.args) == 1
          and isinstance(lp2.iter.args[0], ast.Name) and lp2.iter.args[0].id in lens and isinstance(lp2.target, ast.Name) and len(lp2.body) == 1)
    if not ok:
        fail(lp2, "expected `for index in range(<len>):` with one statement")
    rng_len = lens[lp2.iter.args[0].id]
    iv = lp2.target.id
    a = lp2.body[0]
    ok = (isinstance(a, ast.AugAssign) and is_name(a.target, mat) and isinstance(a.op, ast.Add) and isinstance(a.value, ast.BinOp) and isinstance(a.value.op, ast.Mult))
    if not ok:
        fail(a, "expected `<matrix> += weights[index] * calc_fisher_matrix(...)`")
    w, call = a.value.left, a.value.right
    def idx_of(e, lst):
        if isinstance(e, ast.Subscript) and is_name(e.value, lst):
            if is_name(e.slice, iv):
                return "index"
            if isinstance(e.slice, ast.Constant) and type(e.slice.value) is int:
                return "%d" % e.slice.value
        fail(e, "expected %s[<index>]" % lst)
    wi = idx_of(w, "weights")
    if not (isinstance(call, ast.Call) and is_name(call.func, "calc_fisher_matrix") and len(call.args) == 2
            and [k.arg for k in call.keywords] == ["eps"] and is_name(call.keywords[0].value, "eps")):
        fail(call, "expected calc_fisher_matrix(prob_dists[i], grad_prob_dists[i], eps=eps)")
    pi = idx_of(call.args[0], "prob_dists"); gi = idx_of(call.args[1], "grad_prob_dists")
    if not (isinstance(st[i], ast.Return) and is_name(st[i].value, mat)) or i != len(st) - 1:
        fail(st[i], "expected `return <matrix>` as the last statement")
    txt = ("Definition gen_ft_len_mismatch (lp lg lw : nat) : bool := %s.\n" % (" || ".join(guards)))
    txt += "Definition gen_ft_size (num_outcomes num_variables : nat) : nat := %s.\n" % size_e
    txt += "Definition gen_ft_range (lp lg lw : nat) : nat := %s.\n" % rng_len
    txt += ("Definition gen_ft_weight_index (index : nat) : nat := %s.\nDefinition gen_ft_prob_index (index : nat) : nat := %s.\n"
            "Definition gen_ft_grad_index (index : nat) : nat := %s.\n" % (wi, pi, gi))
    return txt


# ------------------------------------------------------------------ StandardQTomography loops
def tr_tomo(cls):
    out = []
    # calc_covariance_mat_single
    f = find_def(cls, "calc_covariance_mat_single")
    if argnames(f) != ["self", "qope", "schedule_index", "data_num"]:
        fail(f, "unexpected parameters")
    st = body_wo_doc(f)
    if len(st) != 3:
        fail(f, "expected 3 statements")
    pd, c1 = assign1(st[0])
    ok = (isinstance(c1, ast.Call) and is_self_attr(c1.func, "calc_prob_dist") and len(c1.args) == 2 and not c1.keywords
          and is_name(c1.args[0], "qope") and is_name(c1.args[1], "schedule_index"))
    if not ok:
        fail(st[0], "expected `<p> = self.calc_prob_dist(qope, schedule_index)`")
    val, c2 = assign1(st[1])
    ok = (isinstance(c2, ast.Call) and isinstance(c2.func, ast.Attribute) and c2.func.attr == "calc_covariance_mat" and len(c2.args) == 2 and not c2.keywords
          and is_name(c2.args[0], pd) and is_name(c2.args[1], "data_num"))
    if not ok:
        fail(st[1], "expected `<v> = matrix_util.calc_covariance_mat(<p>, data_num)`")
    if not (isinstance(st[2], ast.Return) and is_name(st[2].value, val)):
        fail(st[2], "expected `return <v>`")
    out.append("(* prob_dist j = (size, distribution) of schedule j *)\n"
               "Definition gen_tomo_cov_single (prob_dist : nat -> nat * vec) (schedule_index : nat) (data_num : F) : nat * mat :=\n"
               "  (fst (prob_dist schedule_index), cov_mat F data_num (snd (prob_dist schedule_index))).\n")
    # calc_covariance_mat_total
    f = find_def(cls, "calc_covariance_mat_total")
    if argnames(f) != ["self", "qope", "data_num_list"]:
        fail(f, "unexpected parameters")
    st = body_wo_doc(f)
    if len(st) != 4:
        fail(f, "expected 4 statements")
    L, v = assign1(st[0])
    if not (isinstance(v, ast.List) and not v.elts):
        fail(st[0], "expected `<L> = []`")
    lp = st[1]
    ok = (isinstance(lp, ast.For) and not lp.orelse and isinstance(lp.iter, ast.Call) and is_name(lp.iter.func, "range") and len(lp.iter.args) == 1
          and is_self_attr(lp.iter.args[0], "num_schedules") and isinstance(lp.target, ast.Name) and len(lp.body) == 2)
    if not ok:
        fail(lp, "expected `for <j> in range(self.num_schedules):` with two statements")
    jv = lp.target.id
    m1, call = assign1(lp.body[0])
    ok = (isinstance(call, ast.Call) and is_self_attr(call.func, "calc_covariance_mat_single") and len(call.args) == 3 and not call.keywords and is_name(call.args[0], "qope"))
    if not ok:
        fail(call, "expected self.calc_covariance_mat_single(qope, <j>, <n>)")
    nx = NatExpr(env={jv: jv})
    jarg = nx.tr(call.args[1])
    na = call.args[2]
    if not (isinstance(na, ast.Subscript) and is_name(na.value, "data_num_list")):
        fail(na, "expected data_num_list[<index>]")
    narg = nx.tr(na.slice)
    ap = lp.body[1]
    if not (isinstance(ap, ast.Expr) and isinstance(ap.value, ast.Call) and isinstance(ap.value.func, ast.Attribute) and ap.value.func.attr == "append"
            and is_name(ap.value.func.value, L) and len(ap.value.args) == 1 and is_name(ap.value.args[0], m1)):
        fail(ap, "expected `<L>.append(<m>)`")
    val, call2 = assign1(st[2])
    if not (isinstance(call2, ast.Call) and isinstance(call2.func, ast.Attribute) and call2.func.attr == "calc_direct_sum" and len(call2.args) == 1 and is_name(call2.args[0], L)):
        fail(st[2], "expected `<v> = matrix_util.calc_direct_sum(<L>)`")
    if not (isinstance(st[3], ast.Return) and is_name(st[3].value, val)):
        fail(st[3], "expected `return <v>`")
    out.append("Definition gen_tomo_cov_blocks (num_schedules : nat) (prob_dist : nat -> nat * vec) (data_num_list : nat -> F) : list (nat * mat) :=\n"
               "  map (fun %s => gen_tomo_cov_single prob_dist %s (data_num_list %s)) (seq 0 num_schedules).\n" % (jv, jarg, narg))
    # calc_mse_empi_dists_analytical
    f = find_def(cls, "calc_mse_empi_dists_analytical")
    if argnames(f) != ["self", "qope", "data_num_list"]:
        fail(f, "unexpected parameters")
    st = body_wo_doc(f)
    if len(st) != 3:
        fail(f, "expected 3 statements")
    acc, v = assign1(st[0])
    if not (isinstance(v, ast.Constant) and v.value == 0):
        fail(st[0], "expected `<acc> = 0.0`")
    lp = st[1]
    ok = (isinstance(lp, ast.For) and not lp.orelse and isinstance(lp.iter, ast.Call) and is_name(lp.iter.func, "enumerate") and len(lp.iter.args) == 1
          and is_name(lp.iter.args[0], "data_num_list") and isinstance(lp.target, ast.Tuple) and len(lp.target.elts) == 2
          and all(isinstance(x, ast.Name) for x in lp.target.elts) and len(lp.body) == 1)
    if not ok:
        fail(lp, "expected `for <j>, <n> in enumerate(data_num_list):` with one statement")
    jv, nv_ = lp.target.elts[0].id, lp.target.elts[1].id
    a = lp.body[0]
    ok = (isinstance(a, ast.AugAssign) and is_name(a.target, acc) and isinstance(a.op, ast.Add) and isinstance(a.value, ast.Call)
          and isinstance(a.value.func, ast.Attribute) and a.value.func.attr == "trace" and len(a.value.args) == 1)
    if not ok:
        fail(a, "expected `<acc> += np.trace(...)`")
    call = a.value.args[0]
    ok = (isinstance(call, ast.Call) and is_self_attr(call.func, "calc_covariance_mat_single") and len(call.args) == 3 and not call.keywords and is_name(call.args[0], "qope"))
    if not ok:
        fail(call, "expected self.calc_covariance_mat_single(qope, <j>, <n>)")
    nx = NatExpr(env={jv: jv})
    jarg = nx.tr(call.args[1])
    if is_name(call.args[2], nv_):
        narg = nv_
    elif isinstance(call.args[2], ast.Subscript) and is_name(call.args[2].value, "data_num_list"):
        narg = "(nth %s (map snd jn_list) (c0 F))" % nx.tr(call.args[2].slice)
        fail(call.args[2], "indexing data_num_list inside the enumerate loop is not supported")
    else:
        fail(call.args[2], "expected the enumerated sample size")
    if not (isinstance(st[2], ast.Return) and is_name(st[2].value, acc)):
        fail(st[2], "expected `return <acc>`")
    out.append("(* enumerate(data_num_list) as the list of (index, value) pairs *)\n"
               "Definition gen_tomo_mse_empi (prob_dist : nat -> nat * vec) (data_num_list : list F) : F :=\n"
               "  fold_left (fun %s jn => let '(%s, %s) := jn in\n"
               "      cadd F %s (let b := gen_tomo_cov_single prob_dist %s %s in mtrace (fst b) (snd b)))\n"
               "    (combine (seq 0 (List.length data_num_list)) data_num_list) (c0 F).\n" % (acc, jv, nv_, acc, jarg, narg))
    # calc_fisher_matrix_total
    f = find_def(cls, "calc_fisher_matrix_total")
    if argnames(f) != ["self", "var", "weights"]:
        fail(f, "unexpected parameters")
    st = body_wo_doc(f)
    if len(st) != 3:
        fail(f, "expected 3 statements")
    L, v = assign1(st[0])
    if not (isinstance(v, ast.List) and not v.elts):
        fail(st[0], "expected `<L> = []`")
    lp = st[1]
    ok = (isinstance(lp, ast.For) and not lp.orelse and isinstance(lp.iter, ast.Call) and is_name(lp.iter.func, "range") and len(lp.iter.args) == 1
          and is_self_attr(lp.iter.args[0], "num_schedules") and isinstance(lp.target, ast.Name) and len(lp.body) == 1)
    if not ok:
        fail(lp, "expected `for <j> in range(self.num_schedules):` with one statement")
    jv = lp.target.id
    ap = lp.body[0]
    ok = (isinstance(ap, ast.Expr) and isinstance(ap.value, ast.Call) and isinstance(ap.value.func, ast.Attribute) and ap.value.func.attr == "append"
          and is_name(ap.value.func.value, L) and len(ap.value.args) == 1 and isinstance(ap.value.args[0], ast.BinOp) and isinstance(ap.value.args[0].op, ast.Mult))
    if not ok:
        fail(ap, "expected `<L>.append(weights[<j>] * self.calc_fisher_matrix(<j>, var))`")
    w, call = ap.value.args[0].left, ap.value.args[0].right
    nx = NatExpr(env={jv: jv})
    if not (isinstance(w, ast.Subscript) and is_name(w.value, "weights")):
        fail(w, "expected weights[<j>]")
    wi = nx.tr(w.slice)
    ok = (isinstance(call, ast.Call) and is_self_attr(call.func, "calc_fisher_matrix") and len(call.args) == 2 and not call.keywords and is_name(call.args[1], "var"))
    if not ok:
        fail(call, "expected self.calc_fisher_matrix(<j>, var)")
    fi = nx.tr(call.args[0])
    r = st[2]
    if not (isinstance(r, ast.Return) and isinstance(r.value, ast.Call) and is_name(r.value.func, "sum") and len(r.value.args) == 1 and is_name(r.value.args[0], L)):
        fail(r, "expected `return sum(<L>)`")
    out.append("(* the (weight, Fisher matrix) terms that are summed *)\n"
               "Definition gen_tomo_fisher_terms (num_schedules : nat) (fisher : nat -> mat) (weights : nat -> F) : list (F * mat) :=\n"
               "  map (fun %s => (weights %s, fisher %s)) (seq 0 num_schedules).\n" % (jv, wi, fi))
    # _calc_cramer_rao_bound
    f = find_def(cls, "_calc_cramer_rao_bound")
    if argnames(f) != ["self", "var", "N", "list_N"]:
        fail(f, "unexpected parameters")
    st = body_wo_doc(f)
    if len(st) != 4:
        fail(f, "expected 4 statements")
    wn, v = assign1(st[0])
    ok = (isinstance(v, ast.ListComp) and len(v.generators) == 1 and not v.generators[0].ifs and is_name(v.generators[0].iter, "list_N")
          and isinstance(v.generators[0].target, ast.Name))
    if not ok:
        fail(st[0], "expected `weights = [<expr> for <n> in list_N]`")
    tv = v.generators[0].target.id

    def fx(e, names):
        if isinstance(e, ast.Name) and e.id in names:
            return names[e.id]
        if isinstance(e, ast.BinOp) and isinstance(e.op, (ast.Add, ast.Sub, ast.Mult, ast.Div)):
            fn = {ast.Add: "cadd F", ast.Sub: "csub F", ast.Mult: "cmul F", ast.Div: "kdiv F"}[type(e.op)]
            return "(%s %s %s)" % (fn, fx(e.left, names), fx(e.right, names))
        fail(e, "unsupported expression in _calc_cramer_rao_bound")
    wexp = fx(v.elt, {tv: "n", "N": "N"})
    fn_, call = assign1(st[1])
    ok = (isinstance(call, ast.Call) and is_self_attr(call.func, "calc_fisher_matrix_total") and len(call.args) == 2 and not call.keywords
          and is_name(call.args[0], "var") and is_name(call.args[1], wn))
    if not ok:
        fail(st[1], "expected `fisher = self.calc_fisher_matrix_total(var, weights)`")
    val, v = assign1(st[2])
    ok = (isinstance(v, ast.BinOp) and isinstance(v.op, ast.Div) and isinstance(v.left, ast.Call) and isinstance(v.left.func, ast.Attribute) and v.left.func.attr == "trace"
          and len(v.left.args) == 1 and isinstance(v.left.args[0], ast.Call) and isinstance(v.left.args[0].func, ast.Attribute) and v.left.args[0].func.attr == "inv"
          and len(v.left.args[0].args) == 1 and is_name(v.left.args[0].args[0], fn_))
    if not ok:
        fail(st[2], "expected `val = np.trace(np.linalg.inv(fisher)) / <expr>`")
    dexp = fx(v.right, {"N": "N"})
    if not (isinstance(st[3], ast.Return) and is_name(st[3].value, val)):
        fail(st[3], "expected `return val`")
    out.append("Definition gen_cr_weight (N n : F) : F := %s.\nDefinition gen_cr_value (N trace_inv : F) : F := kdiv F trace_inv %s.\n" % (wexp, dexp))
    return "\n".join(out)


# ------------------------------------------------------------------ _generate_matS
def tr_povmt_matS(cls):
    f = find_def(cls, "_generate_matS")
    st = body_wo_doc(f)
    # everything before `squared_dim = ...` only locates the tester state; squared_dim is a parameter of the generated function
    k = None
    for i, s in enumerate(st):
        if isinstance(s, ast.Assign) and len(s.targets) == 1 and is_name(s.targets[0], "squared_dim"):
            k = i
    if k is None:
        fail(f, "no assignment to squared_dim")
    rest = st[k + 1:]
    if len(rest) != 4:
        fail(f, "expected 4 statements after squared_dim")
    I, v = assign1(rest[0])
    ok = (isinstance(v, ast.Call) and isinstance(v.func, ast.Attribute) and v.func.attr == "eye" and len(v.args) == 1 and is_name(v.args[0], "squared_dim"))
    if not ok:
        fail(rest[0], "expected `I = np.eye(squared_dim, ...)`")
    L, v = assign1(rest[1])
    ok = (isinstance(v, ast.ListComp) and is_name(v.elt, I) and len(v.generators) == 1 and not v.generators[0].ifs
          and isinstance(v.generators[0].iter, ast.Call) and is_name(v.generators[0].iter.func, "range") and len(v.generators[0].iter.args) == 1)
    if not ok:
        fail(rest[1], "expected `I_list = [I for _ in range(<n>)]`")
    nx = NatExpr(self_attrs={"_num_outcomes": "num_outcomes"})
    cnt = nx.tr(v.generators[0].iter.args[0])
    S_, v = assign1(rest[2])
    ok = (isinstance(v, ast.Call) and isinstance(v.func, ast.Attribute) and v.func.attr == "hstack" and len(v.args) == 1 and is_name(v.args[0], L))
    if not ok:
        fail(rest[2], "expected `matS = np.hstack(I_list)`")
    if not (isinstance(rest[3], ast.Return) and is_name(rest[3].value, S_)):
        fail(rest[3], "expected `return matS`")
    return ("Definition gen_povmt_matS_blocks (num_outcomes : nat) : nat := %s.\n"
            "Definition gen_povmt_matS (squared_dim num_outcomes : nat) : mat :=\n"
            "  np_hstack F squared_dim (repeat (np_eye F) (gen_povmt_matS_blocks num_outcomes)).\n" % cnt)


def tr_qmpt_matS(cls):
    f = find_def(cls, "_generate_matS")
    st = body_wo_doc(f)
    if len(st) != 4:
        fail(f, "expected 4 statements")
    sd, v = assign1(st[0])
    ok = (isinstance(v, ast.BinOp) and isinstance(v.op, ast.Pow) and is_const(v.right, 2) and isinstance(v.left, ast.Attribute) and v.left.attr == "dim")
    if not ok:
        fail(st[0], "expected `squared_dim = <obj>.dim ** 2`")
    S_, v = assign1(st[1])
    ok = (isinstance(v, ast.Call) and isinstance(v.func, ast.Attribute) and v.func.attr == "zeros" and len(v.args) == 1 and isinstance(v.args[0], ast.Tuple)
          and len(v.args[0].elts) == 2 and is_name(v.args[0].elts[0], sd) and is_self_attr(v.args[0].elts[1], "num_variables"))
    if not ok:
        fail(st[1], "expected `matS = np.zeros((squared_dim, self.num_variables), ...)`")
    lp = st[2]
    ok = (isinstance(lp, ast.For) and not lp.orelse and isinstance(lp.iter, ast.Call) and is_name(lp.iter.func, "range") and len(lp.iter.args) == 1
          and isinstance(lp.target, ast.Name) and len(lp.body) == 2)
    if not ok:
        fail(lp, "expected `for outcome in range(<n>):` with two statements")
    ov = lp.target.id
    nx = NatExpr(env={sd: "squared_dim", ov: ov}, self_attrs={"_num_outcomes": "num_outcomes"})
    cnt = nx.tr(lp.iter.args[0])
    stv, v = assign1(lp.body[0])
    start = nx.tr(v)
    nx.env[stv] = stv
    pl = lp.body[1]
    ok = (isinstance(pl, ast.Assign) and len(pl.targets) == 1 and isinstance(pl.targets[0], ast.Subscript) and is_name(pl.targets[0].value, S_)
          and isinstance(pl.targets[0].slice, ast.Tuple) and len(pl.targets[0].slice.elts) == 2
          and isinstance(pl.targets[0].slice.elts[0], ast.Slice) and pl.targets[0].slice.elts[0].lower is None and pl.targets[0].slice.elts[0].upper is None
          and isinstance(pl.value, ast.Call) and isinstance(pl.value.func, ast.Attribute) and pl.value.func.attr == "eye" and len(pl.value.args) == 1
          and is_name(pl.value.args[0], sd))
    if not ok:
        fail(pl, "expected `matS[:, a:b] = np.eye(squared_dim)`")
    c0, c1 = slice_bounds(pl.targets[0].slice.elts[1], nx)
    if not (isinstance(st[3], ast.Return) and is_name(st[3].value, S_)):
        fail(st[3], "expected `return matS`")
    return ("Definition gen_qmpt_matS (squared_dim num_outcomes : nat) : mat :=\n"
            "  fold_left (fun %s %s => let %s := %s in np_place_cols F %s %s (np_eye F) %s) (seq 0 %s) (np_zeros F).\n"
            % (S_, ov, stv, start, c0, c1, S_, cnt))


# ------------------------------------------------------------------ decision structure of the MSE / Cramer-Rao entry points
def coq_str(s):
    if not isinstance(s, str) or any(ord(ch) < 32 or ord(ch) > 126 or ch == '"' for ch in s):
        raise Unsupported("unsupported string constant %r" % (s,))
    return '"%s"' % s


class Sym:
    """tiny symbolic evaluator for straight-line code with `if <obj>.on_para_eq_constraint:` over the atoms
       msev (= _calc_mse_linear_analytical_mode_var), V (= calc_covariance_linear_mat_total), S (= _generate_matS()),
       crv (= _calc_cramer_rao_bound), Minv (= np.linalg.inv(calc_fisher_matrix_total(var, [n / N for n in list_N]))), N"""

    def __init__(self):
        self.env = {"N": "N"}

    def args_are(self, call, names):
        return len(call.args) == len(names) and not call.keywords and all(is_name(a, n) for a, n in zip(call.args, names))

    def expr(self, e):
        if isinstance(e, ast.Name) and e.id in self.env:
            return self.env[e.id]
        if isinstance(e, ast.Call) and is_self_attr(e.func):
            m = e.func.attr
            if m == "_calc_mse_linear_analytical_mode_var" and self.args_are(e, ["qope", "data_num_list"]):
                return "msev"
            if m == "calc_covariance_linear_mat_total" and self.args_are(e, ["qope", "data_num_list"]):
                return "V"
            if m == "_generate_matS" and self.args_are(e, []):
                return "S"
            if m == "_calc_cramer_rao_bound" and self.args_are(e, ["var", "N", "list_N"]):
                return "crv"
            if (m == "calc_fisher_matrix_total" and len(e.args) == 2 and not e.keywords and is_name(e.args[0], "var")
                    and self.expr(e.args[1]) == "W"):
                return "Fw"
            fail(e, "unsupported method call self.%s(...)" % m)
        if isinstance(e, ast.Call) and isinstance(e.func, ast.Attribute):
            fn = e.func.attr
            if fn == "calc_conjugate" and len(e.args) == 2 and not e.keywords:
                return "(conjugate F nv %s %s)" % (self.expr(e.args[0]), self.expr(e.args[1]))
            if fn == "trace" and len(e.args) == 1 and not e.keywords:
                x = self.expr(e.args[0])
                if x.startswith("(conjugate F nv S "):
                    return "(mtrace d2 %s)" % x
                if x == "V":
                    return "(mtrace nv V)"
                fail(e, "np.trace of an unsupported matrix expression")
            if fn == "inv" and len(e.args) == 1 and not e.keywords and self.expr(e.args[0]) == "Fw":
                return "Minv"
            fail(e, "unsupported call .%s(...)" % fn)
        if isinstance(e, ast.ListComp):
            ok = (len(e.generators) == 1 and not e.generators[0].ifs and is_name(e.generators[0].iter, "list_N") and isinstance(e.generators[0].target, ast.Name)
                  and isinstance(e.elt, ast.BinOp) and isinstance(e.elt.op, ast.Div) and is_name(e.elt.left, e.generators[0].target.id) and is_name(e.elt.right, "N"))
            if ok:
                return "W"
            fail(e, "expected [n / N for n in list_N]")
        if isinstance(e, ast.BinOp) and isinstance(e.op, ast.Add):
            return "(cadd F %s %s)" % (self.expr(e.left), self.expr(e.right))
        if isinstance(e, ast.BinOp) and isinstance(e.op, ast.Div) and is_name(e.right, "N"):
            return "(kdiv F %s N)" % self.expr(e.left)
        fail(e, "unsupported expression")

    def block(self, stmts):
        """executes stmts; returns the returned term or None"""
        for k, st in enumerate(stmts):
            if isinstance(st, ast.Assign) and len(st.targets) == 1 and isinstance(st.targets[0], ast.Name):
                self.env[st.targets[0].id] = self.expr(st.value)
            elif isinstance(st, ast.AugAssign) and isinstance(st.target, ast.Name) and isinstance(st.op, ast.Add) and st.target.id in self.env:
                self.env[st.target.id] = "(cadd F %s %s)" % (self.env[st.target.id], self.expr(st.value))
            elif isinstance(st, ast.If):
                t = st.test
                if not (isinstance(t, ast.Attribute) and t.attr == "on_para_eq_constraint" and isinstance(t.value, ast.Name) and t.value.id in ("qope", "self")):
                    fail(t, "only `if qope.on_para_eq_constraint:` / `if self.on_para_eq_constraint:` is supported")
                a = Sym(); a.env = dict(self.env); ra = a.block(st.body)
                b = Sym(); b.env = dict(self.env); rb = b.block(st.orelse)
                if ra is not None or rb is not None:
                    fail(st, "return inside a branch is not supported")
                for name in sorted(set(a.env) | set(b.env)):
                    va, vb = a.env.get(name), b.env.get(name)
                    if va == vb:
                        self.env[name] = va
                    elif va is not None and vb is not None:
                        self.env[name] = "(if on_eq then %s else %s)" % (va, vb)
                    else:
                        self.env.pop(name, None)          # defined on one path only: unusable afterwards
            elif isinstance(st, ast.Return):
                if k != len(stmts) - 1:
                    fail(st, "return must be the last statement")
                return self.expr(st.value)
            else:
                fail(st, "unsupported statement")
        return None


def sym_method(cls, name, params):
    f = find_def(cls, name)
    if argnames(f) != params:
        fail(f, "unexpected parameters %s" % argnames(f))
    r = Sym().block(body_wo_doc(f))
    if r is None:
        fail(f, "no return value")
    return r


def has_def(cls, name):
    return any(isinstance(n, ast.FunctionDef) and n.name == name for n in cls.body)


def tr_decisions(base, qst, povmt, qpt, qmpt):
    out = []
    # mode dispatch of calc_mse_linear_analytical
    f = find_def(base, "calc_mse_linear_analytical")
    if argnames(f) != ["self", "qope", "data_num_list", "mode"]:
        fail(f, "unexpected parameters")
    dflt = f.args.defaults
    if not (len(dflt) == 1 and isinstance(dflt[0], ast.Constant) and isinstance(dflt[0].value, str)):
        fail(f, "expected a string default for mode")
    st = body_wo_doc(f)
    if not (len(st) == 2 and isinstance(st[0], ast.If) and isinstance(st[1], ast.Return) and isinstance(st[1].value, ast.Name)):
        fail(f, "expected one if / elif / else chain and `return val`")
    rv = st[1].value.id

    def chain(node):
        t = node.test
        if not (isinstance(t, ast.Compare) and len(t.ops) == 1 and isinstance(t.ops[0], ast.Eq) and is_name(t.left, "mode")
                and isinstance(t.comparators[0], ast.Constant) and isinstance(t.comparators[0].value, str)):
            fail(t, "expected `mode == <string constant>`")

        def branch(body):
            if len(body) == 1 and isinstance(body[0], ast.If):
                return chain(body[0])
            if body and is_raise_valueerror(body[-1]) and all(isinstance(b, ast.Assign) for b in body[:-1]):
                return "None"
            if (len(body) == 1 and isinstance(body[0], ast.Assign) and is_name(body[0].targets[0], rv) and isinstance(body[0].value, ast.Call)
                    and is_self_attr(body[0].value.func)):
                c = body[0].value
                if not (len(c.args) == 2 and not c.keywords and is_name(c.args[0], "qope") and is_name(c.args[1], "data_num_list")):
                    fail(c, "unexpected arguments")
                if c.func.attr == "_calc_mse_linear_analytical_mode_qoperation":
                    return "Some true"
                if c.func.attr == "_calc_mse_linear_analytical_mode_var":
                    return "Some false"
            fail(body[0], "unsupported branch of the mode dispatch")
        if not node.orelse:
            fail(node, "missing else branch")
        return "if String.eqb mode %s then %s else %s" % (coq_str(t.comparators[0].value), branch(node.body), branch(node.orelse))
    out.append("(* Some true = qoperation mode, Some false = var mode, None = ValueError *)\n"
               "Definition gen_mse_dispatch (mode : string) : option bool :=\n  %s.\nDefinition gen_mse_default_mode : string := %s.\n"
               % (chain(st[0]), coq_str(dflt[0].value)))
    hdr = "(on_eq : bool) (d2 nv : nat) (msev : F) (S V : mat) : F"
    params = ["self", "qope", "data_num_list"]
    out.append("Definition gen_mse_var (nv : nat) (V : mat) : F := %s.\n" % sym_method(base, "_calc_mse_linear_analytical_mode_var", params))
    out.append("Definition gen_base_mse_qop %s := %s.\n" % (hdr, sym_method(base, "_calc_mse_linear_analytical_mode_qoperation", params)))
    out.append("Definition gen_povmt_mse_qop %s := %s.\n" % (hdr, sym_method(povmt, "_calc_mse_linear_analytical_mode_qoperation", params)))
    out.append("Definition gen_qmpt_mse_qop %s := %s.\n" % (hdr, sym_method(qmpt, "_calc_mse_linear_analytical_mode_qoperation", params)))
    # calc_covariance_linear_mat_total: conjugation of the total covariance with the left inverse of matA
    f = find_def(base, "calc_covariance_linear_mat_total")
    st = body_wo_doc(f)
    ok = len(st) == 3 and isinstance(st[2], ast.Return)
    if ok:
        a, v = assign1(st[0])
        ok = (isinstance(v, ast.Call) and isinstance(v.func, ast.Attribute) and v.func.attr == "calc_left_inv" and len(v.args) == 1
              and isinstance(v.args[0], ast.Call) and is_self_attr(v.args[0].func, "calc_matA") and not v.args[0].args)
    if ok:
        val, v = assign1(st[1])
        ok = (isinstance(v, ast.Call) and isinstance(v.func, ast.Attribute) and v.func.attr == "calc_conjugate" and len(v.args) == 2 and is_name(v.args[0], a)
              and isinstance(v.args[1], ast.Call) and is_self_attr(v.args[1].func, "calc_covariance_mat_total")
              and len(v.args[1].args) == 2 and is_name(v.args[1].args[0], "qope") and is_name(v.args[1].args[1], "data_num_list")
              and is_name(st[2].value, val))
    if not ok:
        fail(f, "expected A_inv = calc_left_inv(self.calc_matA()); val = calc_conjugate(A_inv, self.calc_covariance_mat_total(qope, data_num_list)); return val")
    out.append("Definition gen_cov_linear (nr : nat) (A_inv Sigma : mat) : mat := conjugate F nr A_inv Sigma.\n")
    # Cramer-Rao: public method of the base class, override of StandardPovmt
    f = find_def(base, "calc_cramer_rao_bound")
    st = body_wo_doc(f)
    if not (len(st) == 1 and isinstance(st[0], ast.Return) and Sym().expr(st[0].value) == "crv"):
        fail(f, "expected `return self._calc_cramer_rao_bound(var, N, list_N)`")
    out.append("Definition gen_povmt_cr (on_eq : bool) (d2 nv : nat) (N crv : F) (S Minv : mat) : F := %s.\n"
               % sym_method(povmt, "calc_cramer_rao_bound", ["self", "var", "N", "list_N"]))
    # which classes override what
    ov = lambda c, n: "true" if has_def(c, n) else "false"
    q = "_calc_mse_linear_analytical_mode_qoperation"
    others = ("calc_mse_linear_analytical", "_calc_mse_linear_analytical_mode_var", "calc_covariance_linear_mat_total",
              "calc_covariance_mat_total", "calc_covariance_mat_single", "calc_mse_empi_dists_analytical",
              "calc_fisher_matrix", "calc_fisher_matrix_total", "_calc_cramer_rao_bound", "calc_prob_dist", "calc_prob_dists")
    out.append("(* overrides: [QST; POVMT; QPT; QMPT] *)\nDefinition gen_overrides_mse_qop : list bool := [%s; %s; %s; %s].\n"
               "Definition gen_overrides_cr : list bool := [%s; %s; %s; %s].\n"
               "Definition gen_overrides_other : bool := %s.\n"
               % (ov(qst, q), ov(povmt, q), ov(qpt, q), ov(qmpt, q),
                  ov(qst, "calc_cramer_rao_bound"), ov(povmt, "calc_cramer_rao_bound"), ov(qpt, "calc_cramer_rao_bound"), ov(qmpt, "calc_cramer_rao_bound"),
                  "true" if any(has_def(c, n) for c in (qst, povmt, qpt, qmpt) for n in others) else "false"))
    return "\n".join(out)


# ------------------------------------------------------------------ numerical one-liners and sample-statistics loops
def np_call(e, name, nargs=None):
    return (isinstance(e, ast.Call) and isinstance(e.func, ast.Attribute) and e.func.attr == name and is_name(e.func.value, "np")
            and (nargs is None or len(e.args) == nargs))


def is_row_of(e, q):
    """np.array([q])"""
    return np_call(e, "array", 1) and not e.keywords and isinstance(e.args[0], ast.List) and len(e.args[0].elts) == 1 and is_name(e.args[0].elts[0], q)


def is_outer_self(e, q):
    """np.array([q]).T @ np.array([q])"""
    return (isinstance(e, ast.BinOp) and isinstance(e.op, ast.MatMult) and isinstance(e.left, ast.Attribute) and e.left.attr == "T"
            and is_row_of(e.left.value, q) and is_row_of(e.right, q))


def cov_expr(stmts, q, n, fdef):
    """`m = np.diag(q) - np.array([q]).T @ np.array([q])` ; `return m / n`"""
    if len(stmts) != 2:
        fail(fdef, "expected 2 statements")
    mname, v = assign1(stmts[0])
    ok = (isinstance(v, ast.BinOp) and isinstance(v.op, ast.Sub) and np_call(v.left, "diag", 1) and is_name(v.left.args[0], q) and is_outer_self(v.right, q))
    if not ok:
        fail(stmts[0], "expected `<m> = np.diag(%s) - np.array([%s]).T @ np.array([%s])`" % (q, q, q))
    r = stmts[1]
    if not (isinstance(r, ast.Return) and isinstance(r.value, ast.BinOp) and isinstance(r.value.op, ast.Div) and is_name(r.value.left, mname) and is_name(r.value.right, n)):
        fail(r, "expected `return <m> / %s`" % n)
    return "fun i j => kdiv F (csub F (if Nat.eqb i j then q i else c0 F) (cmul F (q i) (q j))) n"


def tr_cov_mats(mu, da):
    f = find_def(mu, "calc_covariance_mat")
    if argnames(f) != ["q", "n"]:
        fail(f, "unexpected parameters")
    out = ["Definition gen_cov_mat (n : F) (q : vec) : mat := %s.\n" % cov_expr(body_wo_doc(f), "q", "n", f)]
    f = find_def(da, "calc_covariance_matrix_of_prob_dist")
    if argnames(f) != ["prob_dist", "data_num"]:
        fail(f, "unexpected parameters")
    e = cov_expr(body_wo_doc(f), "prob_dist", "data_num", f)
    out.append("Definition gen_da_cov_mat (n : F) (q : vec) : mat := %s.\n" % e)
    # calc_covariance_matrix_of_prob_dists
    f = find_def(da, "calc_covariance_matrix_of_prob_dists")
    if argnames(f) != ["prob_dists", "data_num"]:
        fail(f, "unexpected parameters")
    st = body_wo_doc(f)
    if len(st) != 6:
        fail(f, "expected 6 statements")
    blocks, v = assign1(st[0])
    ok = (isinstance(v, ast.ListComp) and len(v.generators) == 1 and not v.generators[0].ifs and is_name(v.generators[0].iter, "prob_dists")
          and isinstance(v.generators[0].target, ast.Name) and isinstance(v.elt, ast.Call) and is_name(v.elt.func, "calc_covariance_matrix_of_prob_dist")
          and len(v.elt.args) == 2 and not v.elt.keywords and is_name(v.elt.args[0], v.generators[0].target.id) and is_name(v.elt.args[1], "data_num"))
    if not ok:
        fail(st[0], "expected `<blocks> = [calc_covariance_matrix_of_prob_dist(p, data_num) for p in prob_dists]`")
    msz, v = assign1(st[1])
    ok = (np_call(v, "sum", 1) and isinstance(v.args[0], ast.ListComp) and len(v.args[0].generators) == 1 and is_name(v.args[0].generators[0].iter, "prob_dists")
          and isinstance(v.args[0].elt, ast.Call) and is_name(v.args[0].elt.func, "len") and is_name(v.args[0].elt.args[0], v.args[0].generators[0].target.id))
    if not ok:
        fail(st[1], "expected `<size> = np.sum([len(p) for p in prob_dists])`")
    mat, v = assign1(st[2])
    ok = (np_call(v, "zeros", 1) and isinstance(v.args[0], ast.Tuple) and len(v.args[0].elts) == 2 and all(is_name(x, msz) for x in v.args[0].elts))
    if not ok:
        fail(st[2], "expected `<matrix> = np.zeros((<size>, <size>))`")
    idx, v = assign1(st[3])
    if not is_const(v, 0):
        fail(st[3], "expected `<index> = 0`")
    lp = st[4]
    if not (isinstance(lp, ast.For) and not lp.orelse and is_name(lp.iter, blocks) and isinstance(lp.target, ast.Name) and len(lp.body) == 3):
        fail(lp, "expected `for <d> in <blocks>:` with three statements")
    d = lp.target.id
    sz, v = assign1(lp.body[0])
    nx = NatExpr(env={idx: idx}, arrs=[d])
    size_e = nx.tr(v)
    nx.env[sz] = sz
    pl = lp.body[1]
    ok = (isinstance(pl, ast.Assign) and len(pl.targets) == 1 and isinstance(pl.targets[0], ast.Subscript) and is_name(pl.targets[0].value, mat)
          and isinstance(pl.targets[0].slice, ast.Tuple) and len(pl.targets[0].slice.elts) == 2 and is_name(pl.value, d))
    if not ok:
        fail(pl, "expected `<matrix>[a:b, c:d] = <d>`")
    r0, r1 = slice_bounds(pl.targets[0].slice.elts[0], nx)
    c0, c1 = slice_bounds(pl.targets[0].slice.elts[1], nx)
    up = lp.body[2]
    if not (isinstance(up, ast.AugAssign) and is_name(up.target, idx) and isinstance(up.op, ast.Add)):
        fail(up, "expected `<index> += ...`")
    nxt = nx.tr(up.value)
    if not (isinstance(st[5], ast.Return) and is_name(st[5].value, mat)):
        fail(st[5], "expected `return <matrix>`")
    out.append("(* prob_dists as (length, distribution); the blocks are len x len arrays *)\n"
               "Definition gen_da_cov_place (data_num : F) (prob_dists : list (nat * vec)) : nat * mat :=\n"
               "  fold_left (fun st %s => let '(%s, %s) := st in let %s := %s in\n"
               "      ((%s + %s)%%nat, np_place F %s %s %s %s (a_dat %s) %s))\n"
               "    (map (fun p : nat * vec => {| a_ndim := 2; a_sh0 := fst p; a_sh1 := fst p; a_dat := gen_da_cov_mat data_num (snd p) |}) prob_dists)\n"
               "    (0%%nat, np_zeros F).\n" % (d, idx, mat, sz, size_e, idx, nxt, r0, r1, c0, c1, d, mat))
    return "\n".join(out)


def is_vdot_diff(e, a, b):
    def diff(x):
        return isinstance(x, ast.BinOp) and isinstance(x.op, ast.Sub) and is_name(x.left, a) and is_name(x.right, b)
    return np_call(e, "vdot", 2) and not e.keywords and diff(e.args[0]) and diff(e.args[1])


def zip_loop(lp, l1, l2):
    ok = (isinstance(lp, ast.For) and not lp.orelse and isinstance(lp.iter, ast.Call) and is_name(lp.iter.func, "zip") and len(lp.iter.args) == 2
          and is_name(lp.iter.args[0], l1) and is_name(lp.iter.args[1], l2) and isinstance(lp.target, ast.Tuple) and len(lp.target.elts) == 2
          and all(isinstance(x, ast.Name) for x in lp.target.elts))
    if not ok:
        fail(lp, "expected `for a, b in zip(%s, %s):`" % (l1, l2))
    return lp.target.elts[0].id, lp.target.elts[1].id


def is_append(st, L, name):
    return (isinstance(st, ast.Expr) and isinstance(st.value, ast.Call) and isinstance(st.value.func, ast.Attribute) and st.value.func.attr == "append"
            and is_name(st.value.func.value, L) and len(st.value.args) == 1 and is_name(st.value.args[0], name))


def kw_int(call, key):
    for k in call.keywords:
        if k.arg == key:
            if isinstance(k.value, ast.Constant) and type(k.value.value) is int and 0 <= k.value.value <= 3:
                return k.value.value
            fail(call, "unsupported value of %s" % key)
    return 0


def mean_std(st_mean, st_std, L):
    """`m = np.mean(L, dtype=...)`, `s = np.std(L, dtype=..., ddof=k)` -> (m name, s name, ddof)"""
    m, v = assign1(st_mean)
    if not (np_call(v, "mean", 1) and is_name(v.args[0], L) and all(k.arg == "dtype" for k in v.keywords)):
        fail(st_mean, "expected `<m> = np.mean(%s, dtype=...)`" % L)
    sd, v = assign1(st_std)
    if not (np_call(v, "std", 1) and is_name(v.args[0], L) and all(k.arg in ("dtype", "ddof") for k in v.keywords)):
        fail(st_std, "expected `<s> = np.std(%s, dtype=..., ddof=k)`" % L)
    return m, sd, kw_int(v, "ddof")


def tr_sample_stats(mu, da):
    out = []
    # calc_se
    f = find_def(mu, "calc_se")
    if argnames(f) != ["xs", "ys"]:
        fail(f, "unexpected parameters")
    st = body_wo_doc(f)
    if len(st) != 4:
        fail(f, "expected 4 statements")
    L, v = assign1(st[0])
    if not (isinstance(v, ast.List) and not v.elts):
        fail(st[0], "expected `<L> = []`")
    a, b = zip_loop(st[1], "xs", "ys")
    if len(st[1].body) != 2:
        fail(st[1], "expected two statements in the loop")
    e, v = assign1(st[1].body[0])
    if not is_vdot_diff(v, a, b):
        fail(st[1].body[0], "expected `<e> = np.vdot(x - y, x - y)`")
    if not is_append(st[1].body[1], L, e):
        fail(st[1].body[1], "expected `<L>.append(<e>)`")
    se, v = assign1(st[2])
    if not (np_call(v, "sum", 1) and is_name(v.args[0], L) and all(k.arg == "dtype" for k in v.keywords)):
        fail(st[2], "expected `<se> = np.sum(<L>, dtype=...)`")
    if not (isinstance(st[3], ast.Return) and is_name(st[3].value, se)):
        fail(st[3], "expected `return <se>`")
    out.append("Definition gen_calc_se (n : nat) (xs ys : list vec) : F :=\n"
               "  lsumF F (map (fun xy : vec * vec => sqdist F n (fst xy) (snd xy)) (combine xs ys)).\n")
    # calc_mse_prob_dists
    f = find_def(mu, "calc_mse_prob_dists")
    if argnames(f) != ["xs_list", "ys_list"]:
        fail(f, "unexpected parameters")
    st = body_wo_doc(f)
    if len(st) != 5:
        fail(f, "expected 5 statements")
    L, v = assign1(st[0])
    if not (isinstance(v, ast.List) and not v.elts):
        fail(st[0], "expected `<L> = []`")
    a, b = zip_loop(st[1], "xs_list", "ys_list")
    if len(st[1].body) != 2:
        fail(st[1], "expected two statements in the loop")
    e, v = assign1(st[1].body[0])
    if not (isinstance(v, ast.Call) and is_name(v.func, "calc_se") and len(v.args) == 2 and not v.keywords and is_name(v.args[0], a) and is_name(v.args[1], b)):
        fail(st[1].body[0], "expected `<se> = calc_se(xs, ys)`")
    if not is_append(st[1].body[1], L, e):
        fail(st[1].body[1], "expected `<L>.append(<se>)`")
    m, sd, ddof = mean_std(st[2], st[3], L)
    r = st[4]
    if not (isinstance(r, ast.Return) and isinstance(r.value, ast.Tuple) and len(r.value.elts) == 2 and is_name(r.value.elts[0], m) and is_name(r.value.elts[1], sd)):
        fail(r, "expected `return <mse>, <std>`")
    out.append("(* returns (mean, VARIANCE with the given ddof): the square of the returned standard deviation *)\n"
               "Definition gen_mse_prob_dists (n : nat) (xs_list ys_list : list (list vec)) : F * F :=\n"
               "  let se_list := map (fun p : list vec * list vec => gen_calc_se n (fst p) (snd p)) (combine xs_list ys_list) in\n"
               "  (mean F se_list, var_ddof F %d se_list).\n" % ddof)
    # data_analysis._calc_mse_linear_analytical_mode_qoperation  (the sample MSE of estimated objects)
    f = find_def(da, "_calc_mse_linear_analytical_mode_qoperation")
    if argnames(f) != ["xs", "ys", "with_std"]:
        fail(f, "unexpected parameters")
    st = body_wo_doc(f)
    if len(st) != 4:
        fail(f, "expected 4 statements")
    L, v = assign1(st[0])
    if not (isinstance(v, ast.List) and not v.elts):
        fail(st[0], "expected `<L> = []`")
    a, b = zip_loop(st[1], "xs", "ys")
    body = st[1].body
    if len(body) != 4:
        fail(st[1], "expected four statements in the loop")

    def stacked(s_, obj):
        n_, v_ = assign1(s_)
        if not (isinstance(v_, ast.Call) and isinstance(v_.func, ast.Attribute) and v_.func.attr == "to_stacked_vector" and is_name(v_.func.value, obj) and not v_.args):
            fail(s_, "expected `<v> = %s.to_stacked_vector()`" % obj)
        return n_
    xv = stacked(body[0], a); yv = stacked(body[1], b)
    e, v = assign1(body[2])
    if not is_vdot_diff(v, xv, yv):
        fail(body[2], "expected `<point> = np.vdot(x_vec - y_vec, x_vec - y_vec)`")
    if not is_append(body[3], L, e):
        fail(body[3], "expected `<L>.append(<point>)`")
    m, v = assign1(st[2])
    if not (np_call(v, "mean", 1) and is_name(v.args[0], L) and all(k.arg == "dtype" for k in v.keywords)):
        fail(st[2], "expected `<mse> = np.mean(<L>, dtype=...)`")
    iff = st[3]
    ok = (isinstance(iff, ast.If) and is_name(iff.test, "with_std") and len(iff.body) == 2 and len(iff.orelse) == 1
          and isinstance(iff.orelse[0], ast.Return) and is_name(iff.orelse[0].value, m))
    if not ok:
        fail(iff, "expected `if with_std: std = np.std(...); return mse, std else: return mse`")
    sd, v = assign1(iff.body[0])
    if not (np_call(v, "std", 1) and is_name(v.args[0], L) and all(k.arg in ("dtype", "ddof") for k in v.keywords)):
        fail(iff.body[0], "expected `<std> = np.std(<L>, dtype=..., ddof=k)`")
    ddof = kw_int(v, "ddof")
    r = iff.body[1]
    if not (isinstance(r, ast.Return) and isinstance(r.value, ast.Tuple) and len(r.value.elts) == 2 and is_name(r.value.elts[0], m) and is_name(r.value.elts[1], sd)):
        fail(r, "expected `return <mse>, <std>`")
    out.append("(* xs, ys: the stacked vectors of the objects; result (mean, Some variance) or (mean, None) *)\n"
               "Definition gen_mse_qoperations (n : nat) (xs ys : list vec) (with_std : bool) : F * option F :=\n"
               "  let points := map (fun xy : vec * vec => sqdist F n (fst xy) (snd xy)) (combine xs ys) in\n"
               "  (mean F points, if with_std then Some (var_ddof F %d points) else None).\n" % ddof)
    # calc_mse_qoperations: mode dispatch
    f = find_def(da, "calc_mse_qoperations")
    if argnames(f) != ["xs", "ys", "mode", "with_std"]:
        fail(f, "unexpected parameters")
    dflt = f.args.defaults
    if not (len(dflt) == 2 and isinstance(dflt[0], ast.Constant) and isinstance(dflt[0].value, str) and isinstance(dflt[1], ast.Constant) and type(dflt[1].value) is bool):
        fail(f, "expected defaults (mode=<str>, with_std=<bool>)")
    st = body_wo_doc(f)
    if not (len(st) == 1 and isinstance(st[0], ast.If)):
        fail(f, "expected one if / elif / else chain")

    def chain(node):
        t = node.test
        if not (isinstance(t, ast.Compare) and len(t.ops) == 1 and isinstance(t.ops[0], ast.Eq) and is_name(t.left, "mode")
                and isinstance(t.comparators[0], ast.Constant) and isinstance(t.comparators[0].value, str)):
            fail(t, "expected `mode == <string constant>`")

        def branch(body):
            if len(body) == 1 and isinstance(body[0], ast.If):
                return chain(body[0])
            if body and is_raise_valueerror(body[-1]) and all(isinstance(x, ast.Assign) for x in body[:-1]):
                return "None"
            if len(body) == 1 and isinstance(body[0], ast.Return) and isinstance(body[0].value, ast.Call) and isinstance(body[0].value.func, ast.Name):
                c = body[0].value
                if c.func.id == "_calc_mse_linear_analytical_mode_qoperation":
                    ok_ = (len(c.args) == 2 and is_name(c.args[0], "xs") and is_name(c.args[1], "ys") and [k.arg for k in c.keywords] == ["with_std"] and is_name(c.keywords[0].value, "with_std"))
                    if not ok_:
                        fail(c, "unexpected arguments")
                    return "Some true"
                if c.func.id == "_calc_mse_linear_analytical_mode_var":
                    return "Some false"
            fail(body[0], "unsupported branch of the mode dispatch")
        if not node.orelse:
            fail(node, "missing else branch")
        return "if String.eqb mode %s then %s else %s" % (coq_str(t.comparators[0].value), branch(node.body), branch(node.orelse))
    out.append("(* Some true = the qoperation-mode sample MSE, Some false = the var-mode function (raises NotImplementedError), None = ValueError *)\n"
               "Definition gen_mse_qops_dispatch (mode : string) : option bool :=\n  %s.\n"
               "Definition gen_mse_qops_default_mode : string := %s.\nDefinition gen_mse_qops_default_with_std : bool := %s.\n"
               % (chain(st[0]), coq_str(dflt[0].value), "true" if dflt[1].value else "false"))
    return "\n".join(out)


def tr_mu_fisher(fdef):
    if argnames(fdef) != ["prob_dist", "grad_prob_dist", "eps"]:
        fail(fdef, "unexpected parameters")
    st = body_wo_doc(fdef)
    if len(st) != 11:
        fail(fdef, "expected 11 statements, found %d" % len(st))
    s0 = st[0]
    ok = (isinstance(s0, ast.Assign) and is_name(s0.targets[0], "eps") and isinstance(s0.value, ast.IfExp) and is_name(s0.value.body, "eps")
          and isinstance(s0.value.orelse, ast.Constant) and type(s0.value.orelse.value) is float)
    if not ok:
        fail(s0, "expected the eps default")
    default = Fraction(*s0.value.orelse.value.as_integer_ratio())
    s1 = st[1]
    ok = (isinstance(s1, ast.Expr) and isinstance(s1.value, ast.Call) and is_name(s1.value.func, "validate_prob_dist") and len(s1.value.args) == 1
          and is_name(s1.value.args[0], "prob_dist") and [k.arg for k in s1.value.keywords] == ["eps"] and is_name(s1.value.keywords[0].value, "eps"))
    if not ok:
        fail(s1, "expected `validate_prob_dist(prob_dist, eps=eps)`")
    sp, v = assign1(st[2])
    if not (isinstance(v, ast.Subscript) and isinstance(v.value, ast.Attribute) and v.value.attr == "shape" and is_name(v.value.value, "prob_dist") and is_const(v.slice, 0)):
        fail(st[2], "expected `<m> = prob_dist.shape[0]`")
    sg, v = assign1(st[3])
    if not (isinstance(v, ast.Call) and is_name(v.func, "len") and len(v.args) == 1 and is_name(v.args[0], "grad_prob_dist")):
        fail(st[3], "expected `<g> = len(grad_prob_dist)`")
    nx = NatExpr(env={sp: "m", sg: "g"})
    g1 = st[4]
    if not (isinstance(g1, ast.If) and not g1.orelse and len(g1.body) == 1 and is_raise_valueerror(g1.body[0])):
        fail(g1, "expected the size guard")
    size_guard = nx.cmp(g1.test)
    g2 = st[5]
    ok = (isinstance(g2, ast.If) and not g2.orelse and len(g2.body) == 1 and is_raise_valueerror(g2.body[0]) and isinstance(g2.test, ast.Compare)
          and len(g2.test.ops) == 1 and isinstance(g2.test.ops[0], ast.LtE) and is_name(g2.test.left, "eps") and is_const(g2.test.comparators[0], 0))
    if not ok:
        fail(g2, "expected `if eps <= 0: raise ValueError`")
    rp, v = assign1(st[6])
    if not (isinstance(v, ast.Call) and is_name(v.func, "replace_prob_dist") and len(v.args) == 2 and not v.keywords and is_name(v.args[0], "prob_dist") and is_name(v.args[1], "eps")):
        fail(st[6], "expected `<r> = replace_prob_dist(prob_dist, eps)`")
    sv, v = assign1(st[7])
    ok = (isinstance(v, ast.Subscript) and isinstance(v.value, ast.Attribute) and v.value.attr == "shape" and isinstance(v.value.value, ast.Subscript)
          and is_name(v.value.value.value, "grad_prob_dist") and is_const(v.value.value.slice, 0) and is_const(v.slice, 0))
    if not ok:
        fail(st[7], "expected `<nv> = grad_prob_dist[0].shape[0]`")
    mat, v = assign1(st[8])
    if not (np_call(v, "zeros", 1) and isinstance(v.args[0], ast.Tuple) and len(v.args[0].elts) == 2 and all(is_name(x, sv) for x in v.args[0].elts)):
        fail(st[8], "expected `<matrix> = np.zeros((<nv>, <nv>))`")
    pa, ga = zip_loop(st[9], rp, "grad_prob_dist")
    if len(st[9].body) != 1:
        fail(st[9], "expected one statement in the loop")
    a = st[9].body[0]
    ok = (isinstance(a, ast.AugAssign) and is_name(a.target, mat) and isinstance(a.op, ast.Add) and isinstance(a.value, ast.BinOp) and isinstance(a.value.op, ast.Div)
          and is_outer_self(a.value.left, ga) and is_name(a.value.right, pa))
    if not ok:
        fail(a, "expected `<matrix> += np.array([g]).T @ np.array([g]) / prob`")
    if not (isinstance(st[10], ast.Return) and is_name(st[10].value, mat)):
        fail(st[10], "expected `return <matrix>`")
    txt = ("Definition gen_fisher_default_eps_num : Z := (%d)%%Z.\nDefinition gen_fisher_default_eps_den : Z := (%d)%%Z.\n" % (default.numerator, default.denominator))
    txt += ("(* m = prob_dist.shape[0], g = len(grad_prob_dist); the loop runs over zip(replaced, grad_prob_dist) *)\n"
            "Definition gen_mu_fisher (eps : F) (m g : nat) (prob_dist : vec) (grad_prob_dist : mat) : mres mat :=\n"
            "  match validate F eps true (map prob_dist (seq 0 m)) with\n  | MErr c => MErr c\n  | MOk _ =>\n"
            "    if %s then MErr 2 else\n    if kleb F eps (c0 F) then MErr 5 else\n"
            "    let replaced := gen_replace_prob_dist m eps prob_dist in\n"
            "    MOk (fun a b => sumn (Nat.min m g) (fun x => kdiv F (cmul F (grad_prob_dist x a) (grad_prob_dist x b)) (replaced x)))\n  end.\n" % size_guard)
    return txt


# ------------------------------------------------------------------ num_outcomes(schedule_index) of the four tomography classes
def tr_num_outcomes(cls, coq_name):
    f = find_def(cls, "num_outcomes")
    if argnames(f) != ["self", "schedule_index"]:
        fail(f, "unexpected parameters")
    env = {"schedule_index": "schedule_index"}

    def ex(e):
        if isinstance(e, ast.Name) and e.id in env:
            return env[e.id]
        if is_self_attr(e, "_num_outcomes"):
            return "num_outcomes"
        if isinstance(e, ast.BinOp) and isinstance(e.op, ast.Mult):
            return "(%s * %s)" % (ex(e.left), ex(e.right))
        # self._experiment.schedules[<i>][<K>][1]
        if (isinstance(e, ast.Subscript) and is_const(e.slice, 1) and isinstance(e.value, ast.Subscript) and isinstance(e.value.slice, ast.Constant)
                and type(e.value.slice.value) is int and 0 <= e.value.slice.value <= 3 and isinstance(e.value.value, ast.Subscript)
                and isinstance(e.value.value.value, ast.Attribute) and e.value.value.value.attr == "schedules"
                and is_self_attr(e.value.value.value.value, "_experiment")):
            return "(nth %d (sched %s) 0)" % (e.value.slice.value, ex(e.value.value.slice))
        # len(self._experiment._povms[<i>].vecs)   /   len(self._experiment.povms[<i>].vecs)
        if (isinstance(e, ast.Call) and is_name(e.func, "len") and len(e.args) == 1 and isinstance(e.args[0], ast.Attribute) and e.args[0].attr == "vecs"
                and isinstance(e.args[0].value, ast.Subscript) and isinstance(e.args[0].value.value, ast.Attribute)
                and e.args[0].value.value.attr in ("_povms", "povms") and is_self_attr(e.args[0].value.value.value, "_experiment")):
            return "(povm_len %s)" % ex(e.args[0].value.slice)
        fail(e, "unsupported expression in num_outcomes")
    res = None
    for st in body_wo_doc(f):
        if isinstance(st, ast.Assert):
            t = st.test          # the two range assertions on schedule_index (precondition j < num_schedules)
            ok = (isinstance(t, ast.Compare) and len(t.ops) == 1 and is_name(t.left, "schedule_index")
                  and ((isinstance(t.ops[0], ast.GtE) and is_const(t.comparators[0], 0)) or (isinstance(t.ops[0], ast.Lt) and is_self_attr(t.comparators[0], "num_schedules"))))
            if not ok:
                fail(st, "unsupported assertion")
        elif isinstance(st, ast.Assign) and len(st.targets) == 1 and isinstance(st.targets[0], ast.Name):
            env[st.targets[0].id] = ex(st.value)
        elif isinstance(st, ast.Return):
            res = ex(st.value)
        else:
            fail(st, "unsupported statement in num_outcomes")
    if res is None:
        fail(f, "no return")
    return ("Definition %s (sched : nat -> list nat) (povm_len : nat -> nat) (num_outcomes schedule_index : nat) : nat := %s.\n" % (coq_name, res)).replace("\\n", "\n")


# ------------------------------------------------------------------ StandardQTomography.calc_fisher_matrix: row slice of schedule j
def tr_tomo_fisher(cls):
    f = find_def(cls, "calc_fisher_matrix")
    if argnames(f) != ["self", "j", "var"]:
        fail(f, "unexpected parameters")
    st = body_wo_doc(f)
    if len(st) != 9:
        fail(f, "expected 9 statements, found %d" % len(st))
    s0 = st[0]
    ok = (isinstance(s0, ast.If) and not s0.orelse and len(s0.body) == 1 and isinstance(s0.test, ast.Call) and is_name(s0.test.func, "isinstance")
          and len(s0.test.args) == 2 and is_name(s0.test.args[0], "var") and is_name(s0.test.args[1], "QOperation"))
    if ok:
        n_, v_ = assign1(s0.body[0])
        ok = (n_ == "var" and isinstance(v_, ast.Call) and isinstance(v_.func, ast.Attribute) and v_.func.attr == "to_var" and is_name(v_.func.value, "var") and not v_.args)
    if not ok:
        fail(s0, "expected `if isinstance(var, QOperation): var = var.to_var()`")
    mA, v = assign1(st[1])
    if not (isinstance(v, ast.Call) and is_self_attr(v.func, "calc_matA") and not v.args):
        fail(st[1], "expected `<A> = self.calc_matA()`")
    vB, v = assign1(st[2])
    if not (isinstance(v, ast.Call) and is_self_attr(v.func, "calc_vecB") and not v.args):
        fail(st[2], "expected `<b> = self.calc_vecB()`")
    # start = sum(self.num_outcomes(i) for i in range(j))
    sn, v = assign1(st[3])
    ok = (isinstance(v, ast.Call) and is_name(v.func, "sum") and len(v.args) == 1 and isinstance(v.args[0], (ast.GeneratorExp, ast.ListComp))
          and len(v.args[0].generators) == 1 and not v.args[0].generators[0].ifs and isinstance(v.args[0].generators[0].target, ast.Name)
          and isinstance(v.args[0].generators[0].iter, ast.Call) and is_name(v.args[0].generators[0].iter.func, "range")
          and len(v.args[0].generators[0].iter.args) == 1)
    if not ok:
        fail(st[3], "expected `<start> = sum(self.num_outcomes(i) for i in range(<n>))`")
    iv = v.args[0].generators[0].target.id

    def num_out(e, names):
        if isinstance(e, ast.Call) and is_self_attr(e.func, "num_outcomes") and len(e.args) == 1 and not e.keywords:
            return "(num_outcomes %s)" % nexp(e.args[0], names)
        fail(e, "expected self.num_outcomes(<index>)")

    def nexp(e, names):
        if isinstance(e, ast.Name) and e.id in names:
            return names[e.id]
        if isinstance(e, ast.Constant) and type(e.value) is int and 0 <= e.value <= 100:
            return "%d" % e.value
        if isinstance(e, ast.BinOp) and isinstance(e.op, ast.Add):
            return "(%s + %s)" % (nexp(e.left, names), nexp(e.right, names))
        if isinstance(e, ast.BinOp) and isinstance(e.op, ast.Sub):
            return "(%s - %s)" % (nexp(e.left, names), nexp(e.right, names))
        if isinstance(e, ast.Call):
            return num_out(e, names)
        fail(e, "unsupported index expression")
    rng_n = nexp(v.args[0].generators[0].iter.args[0], {"j": "j"})
    elt = num_out(v.args[0].elt, {iv: iv, "j": "j"})
    names = {"j": "j", sn: sn}
    so, v = assign1(st[4])
    stop_e = nexp(v, names)
    names[so] = so
    # prob_dist = matA[a:b] @ var + vecB[c:d] ; grad_prob_dist = matA[e:f]
    pd, v = assign1(st[5])
    ok = (isinstance(v, ast.BinOp) and isinstance(v.op, ast.Add) and isinstance(v.left, ast.BinOp) and isinstance(v.left.op, ast.MatMult)
          and isinstance(v.left.left, ast.Subscript) and is_name(v.left.left.value, mA) and is_name(v.left.right, "var")
          and isinstance(v.right, ast.Subscript) and is_name(v.right.value, vB))
    if not ok:
        fail(st[5], "expected `<p> = matA[a:b] @ var + vecB[a:b]`")
    gd, v2 = assign1(st[6])
    if not (isinstance(v2, ast.Subscript) and is_name(v2.value, mA)):
        fail(st[6], "expected `<g> = matA[a:b]`")

    def sl(x):
        if not (isinstance(x, ast.Slice) and x.step is None and x.lower is not None and x.upper is not None):
            fail(x, "expected a slice lo:hi")
        return nexp(x.lower, names), nexp(x.upper, names)
    a0, a1 = sl(v.left.left.slice); b0, b1 = sl(v.right.slice); g0, g1 = sl(v2.slice)
    fm, v = assign1(st[7])
    ok = (isinstance(v, ast.Call) and isinstance(v.func, ast.Attribute) and v.func.attr == "calc_fisher_matrix" and len(v.args) == 2 and not v.keywords
          and is_name(v.args[0], pd) and is_name(v.args[1], gd))
    if not ok:
        fail(st[7], "expected `<F> = matrix_util.calc_fisher_matrix(<p>, <g>)` (default eps)")
    if not (isinstance(st[8], ast.Return) and is_name(st[8].value, fm)):
        fail(st[8], "expected `return <F>`")
    return ("(* raw = matA @ var + vecB stacked over all schedules; the three slices are those of matA (for the probabilities), of vecB and of\n"
            "   matA (for the gradients); eps8 is calc_fisher_matrix's default eps *)\n"
            "Definition gen_tomo_fisher_start (num_outcomes : nat -> nat) (j : nat) : nat := fold_right Nat.add 0 (map (fun %s => %s) (seq 0 %s)).\n"
            "Definition gen_tomo_fisher_stop (num_outcomes : nat -> nat) (j : nat) : nat := let %s := gen_tomo_fisher_start num_outcomes j in %s.\n"
            "Definition gen_tomo_fisher (eps8 : F) (Av b : vec) (A : mat) (num_outcomes : nat -> nat) (j : nat) : mres mat :=\n"
            "  let %s := gen_tomo_fisher_start num_outcomes j in let %s := gen_tomo_fisher_stop num_outcomes j in\n"
            "  gen_mu_fisher eps8 (%s - %s) (%s - %s) (fun x => cadd F (Av (%s + x)) (b (%s + x))) (fun x a => A (%s + x) a).\n"
            % (iv, elt, rng_n, sn, stop_e, sn, so, a1, a0, g1, g0, a0, b0, g0))


# ------------------------------------------------------------------ StandardQTomography.calc_prob_dists: which vector, the split points
def tr_prob_dists(cls):
    f = find_def(cls, "calc_prob_dists")
    if argnames(f) != ["self", "qope"]:
        fail(f, "unexpected parameters")
    st = body_wo_doc(f)
    if len(st) != 5:
        fail(f, "expected 5 statements, found %d" % len(st))
    iff = st[0]
    if not (isinstance(iff, ast.If) and is_self_attr(iff.test, "_on_para_eq_constraint") and len(iff.body) == 1 and len(iff.orelse) == 1):
        fail(iff, "expected `if self._on_para_eq_constraint: <tmp> = ... else: <tmp> = ...`")

    def affine_of(s_):
        n_, v_ = assign1(s_)
        ok = (isinstance(v_, ast.BinOp) and isinstance(v_.op, ast.Add) and isinstance(v_.left, ast.BinOp) and isinstance(v_.left.op, ast.MatMult)
              and isinstance(v_.left.left, ast.Call) and is_self_attr(v_.left.left.func, "calc_matA") and not v_.left.left.args
              and isinstance(v_.left.right, ast.Call) and isinstance(v_.left.right.func, ast.Attribute) and is_name(v_.left.right.func.value, "qope")
              and not v_.left.right.args and v_.left.right.func.attr in ("to_var", "to_stacked_vector")
              and isinstance(v_.right, ast.Call) and is_self_attr(v_.right.func, "calc_vecB") and not v_.right.args)
        if not ok:
            fail(s_, "expected `<tmp> = self.calc_matA() @ qope.<to_var|to_stacked_vector>() + self.calc_vecB()`")
        return n_, v_.left.right.func.attr == "to_var"
    t1, var1 = affine_of(iff.body[0]); t2, var2 = affine_of(iff.orelse[0])
    if t1 != t2:
        fail(iff, "both branches must assign the same name")
    sz, v = assign1(st[1])
    ok = (isinstance(v, ast.ListComp) and len(v.generators) == 1 and not v.generators[0].ifs and isinstance(v.generators[0].target, ast.Name)
          and isinstance(v.generators[0].iter, ast.Call) and is_name(v.generators[0].iter.func, "range") and len(v.generators[0].iter.args) == 1
          and is_self_attr(v.generators[0].iter.args[0], "num_schedules") and isinstance(v.elt, ast.Call) and is_self_attr(v.elt.func, "num_outcomes")
          and len(v.elt.args) == 1 and is_name(v.elt.args[0], v.generators[0].target.id))
    if not ok:
        fail(st[1], "expected `<sizes> = [self.num_outcomes(j) for j in range(self.num_schedules)]`")
    pdn, v = assign1(st[2])
    ok = (isinstance(v, ast.ListComp) and len(v.generators) == 1 and not v.generators[0].ifs and isinstance(v.generators[0].target, ast.Name)
          and isinstance(v.elt, ast.Call) and isinstance(v.elt.func, ast.Attribute) and v.elt.func.attr == "truncate_and_normalize"
          and len(v.elt.args) == 1 and not v.elt.keywords and is_name(v.elt.args[0], v.generators[0].target.id))
    if ok:
        it = v.generators[0].iter
        ok = (np_call(it, "split", 2) and not it.keywords and is_name(it.args[0], t1) and isinstance(it.args[1], ast.Subscript)
              and np_call(it.args[1].value, "cumsum", 1) and is_name(it.args[1].value.args[0], sz) and isinstance(it.args[1].slice, ast.Slice)
              and it.args[1].slice.lower is None and it.args[1].slice.step is None and isinstance(it.args[1].slice.upper, ast.UnaryOp)
              and isinstance(it.args[1].slice.upper.op, ast.USub) and is_const(it.args[1].slice.upper.operand, 1))
    if not ok:
        fail(st[2], "expected `[matrix_util.truncate_and_normalize(p) for p in np.split(<tmp>, np.cumsum(<sizes>)[:-1])]`")
    pk = st[3]
    ok = (isinstance(pk, ast.If) and not pk.orelse and len(pk.body) == 1 and isinstance(pk.body[0], ast.Assign) and is_name(pk.body[0].targets[0], pdn)
          and np_call(pk.body[0].value, "array", 1) and is_name(pk.body[0].value.args[0], pdn))
    if not ok:
        fail(pk, "expected the packaging `if len(set(sizes)) == 1: <pd> = np.array(<pd>)` (presentation only)")
    if not (isinstance(st[4], ast.Return) and is_name(st[4].value, pdn)):
        fail(st[4], "expected `return <pd>`")
    b = lambda x: "true" if x else "false"
    return ("(* true = the forward model is applied to qope.to_var(), false = to qope.to_stacked_vector() *)\n"
            "Definition gen_prob_dists_uses_var (on_para_eq_constraint : bool) : bool := if on_para_eq_constraint then %s else %s.\n"
            "(* raw = matA @ <vector> + vecB of length total; eps = the default eps of truncate_and_normalize *)\n"
            "Definition gen_prob_dists (eps : F) (raw : vec) (num_outcomes : nat -> nat) (num_schedules total : nat) : list (nat * vec) :=\n"
            "  let sizes := map (fun j => num_outcomes j) (seq 0 num_schedules) in\n"
            "  map (fun ol : nat * nat => (snd ol, trunc_norm_row F eps (snd ol) (fun x => raw (fst ol + x))))\n"
            "      (np_split_from 0 (removelast (np_cumsum sizes)) total).\n" % (b(var1), b(var2)))


def main(repo, out):
    def parse(rel):
        return ast.parse(open(os.path.join(repo, rel), encoding="utf-8").read())
    mu = parse("quara/utils/matrix_util.py")
    tq = parse("quara/protocol/qtomography/standard/standard_qtomography.py")
    tp = parse("quara/protocol/qtomography/standard/standard_povmt.py")
    tm = parse("quara/protocol/qtomography/standard/standard_qmpt.py")
    parts = ["(* GENERATED by gen/c19_py2coq.py from the current quara source - do not edit *)",
             "From Coq Require Import List Bool Arith ZArith String.",
             "From QV.Core Require Import OF Sums Mat.",
             "From QV.Model Require Import Multinomial C19_Expect C19_ErrFormulas C19_PySem.",
             "Import ListNotations.", "Local Open Scope string_scope.", "Local Open Scope nat_scope.", "",
             "Section Gen.", "Context (F : OF).", "Notation vec := (@vec F). Notation mat := (@mat F).", ""]
    parts.append(tr_replace(find_def(mu, "replace_prob_dist")))
    parts.append(tr_direct_sum(find_def(mu, "calc_direct_sum")))
    parts.append(tr_mu_cov_total(find_def(mu, "calc_covariance_mat_total")))
    parts.append(tr_mu_fisher_total(find_def(mu, "calc_fisher_matrix_total")))
    parts.append(tr_tomo(find_class(tq, "StandardQTomography")))
    parts.append(tr_povmt_matS(find_class(tp, "StandardPovmt")))
    parts.append(tr_qmpt_matS(find_class(tm, "StandardQmpt")))
    c_qst = find_class(parse("quara/protocol/qtomography/standard/standard_qst.py"), "StandardQst")
    c_qpt = find_class(parse("quara/protocol/qtomography/standard/standard_qpt.py"), "StandardQpt")
    parts.append(tr_num_outcomes(c_qst, "gen_qst_num_outcomes") + tr_num_outcomes(find_class(tp, "StandardPovmt"), "gen_povmt_num_outcomes")
                 + tr_num_outcomes(c_qpt, "gen_qpt_num_outcomes") + tr_num_outcomes(find_class(tm, "StandardQmpt"), "gen_qmpt_num_outcomes"))
    da = parse("quara/data_analysis/data_analysis.py")
    parts.append(tr_cov_mats(mu, da))
    parts.append(tr_sample_stats(mu, da))
    parts.append(tr_mu_fisher(find_def(mu, "calc_fisher_matrix")))
    parts.append(tr_tomo_fisher(find_class(tq, "StandardQTomography")))
    parts.append(tr_prob_dists(find_class(tq, "StandardQTomography")))
    parts.append(tr_decisions(find_class(tq, "StandardQTomography"), find_class(parse("quara/protocol/qtomography/standard/standard_qst.py"), "StandardQst"),
                              find_class(tp, "StandardPovmt"), find_class(parse("quara/protocol/qtomography/standard/standard_qpt.py"), "StandardQpt"),
                              find_class(tm, "StandardQmpt")))
    parts.append("End Gen.\n")
    open(out, "w").write("\n".join(parts))


if __name__ == "__main__":
    try:
        main(sys.argv[1], sys.argv[2])
    except Unsupported as e:
        print("UNSUPPORTED: %s" % e)
        sys.exit(3)
