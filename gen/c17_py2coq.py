#!/usr/bin/env python3
"""Fail-closed translator for property C17: Python `ast` of the name -> Hamiltonian code of quara/objects/gate_typical.py
-> Gallina over the combinators of coq/theories/Model/C17_PySem.v.

usage: c17_py2coq.py <repo root> <out.v>

WHAT IS TRANSLATED.  The root functions of GROUPS below and, transitively, every function of the same module they call; plus every
zero-argument function whose name starts with `calc_base_matrix_1qutrit_` (quara reaches them through eval(method_name)();
they become the method table `g_method_table`).  Every function f becomes  `Definition g_f (v_arg ... : pyv) : pres pyv`.

ACCEPTED SUBSET (anything else raises Unsupported: exit code 3, `UNSUPPORTED: <node> (line n): <why>`; never skipped)
  statements  docstring / bare string | NAME = e | NAME, NAME = e | NAME.append(e) | NAME.extend(e) | NAME.remove(e) | assert e | if / elif / else
              | NAME += e | NAME[e, e] = e (integer matrix)
              | for NAME | NAME, NAME in e: <assignments, appends, ifs, asserts, nested for, break as last statement of a branch>
                (no return / raise inside a loop; the names assigned in the body are the loop state; a name first bound inside a loop is None before it)
              | return e | raise Name(...) | def NAME(params): ...  (nested function that uses only its own parameters)
  expressions str / int / float / None / True / False / complex (1j) constants | f"...{e}..." (e a string) | names | [e, ...] | (e, ...) | {"k": e, ...}
              | e + e | e * e | e @ e | -e | e == e | e != e | e < <= > >= e | e in e | e not in e | not e | e and e | e or e
              | e[e] | e["str const"] | e[a:b] (int const bounds) | e.T | sorted(e) | enumerate(e) | int(e, base) | e.count(e)
              | get_pauli_basis(n_qubit=const)  (external: element i is the atom "pauli<n>:<i>")
              | [e for NAME | NAME, NAME in e] | product(e, ...) | product(e, repeat=e) | e.join(e) | e if e else e | len(e) | e.split("c") | e.replace(e, e) | np.pi | np.zeros(shape=(n, n), ...) | np.kron(e, e)
              | np.array(e, ...) | np.eye(n, ...) | eval(e)() | NAME = eval(e) ... NAME() | f(e, ..., kw=e) for translated f (all parameters given)
  A float constant must be an exact short decimal (it is read as a rational: 0.50 -> 1/2).
An `if` duplicates the statements that follow it into both branches (no join points; the functions are small).

ORACLE CALLS (not translated, only the dispatch around them): OPAQUE_VEC1 / EXTERNAL below and the zero-argument functions
reached through eval in state_typical.py (get_state_*_pure_state_vector) become named atoms (VApp).

TRUSTED: this file and C17_PySem.v's reading of the vocabulary (value kinds, exception class names, formal matrices)."""
import ast, sys, os
from fractions import Fraction

# (source file, root functions, prefix of the zero-argument functions reached through eval(name)() or None)
GROUPS = [
    ("quara/objects/gate_typical.py",
     ["calc_hamiltonian_mat_from_gate_name_2qutrit_base_matrices", "generate_gate_1qutrit_single_gellmann_hamiltonian_mat", "calc_coeff_from_angle_str",
      "get_permutation_matrix_from_ascending_order", "permute_pauli_symbol", "generate_gate_toffoli_hamiltonian_mat", "generate_gate_fredkin_hamiltonian_mat",
      "get_gate_names", "get_gate_names_2qubit_asymmetric", "get_gate_names_3qubit_asymmetric"],
     "calc_base_matrix_1qutrit_"),
    ("quara/objects/state_typical.py", ["get_state_names", "is_valid_state_name", "generate_state_pure_state_vector_from_name", "generate_state_density_mat_from_name"],
     ("opaque", "get_state_", "_pure_state_vector")),
    ("quara/objects/povm_typical.py", ["get_povm_names", "get_povm_names_rank1", "get_povm_names_not_rank1",
                                       "generate_povm_pure_state_vectors_from_name", "_generate_povm_matrices_from_single_name"],
     ("opaque", "get_povm_", "_povm_matrices")),
    ("quara/objects/mprocess_typical.py", ["get_mprocess_names_type1", "get_mprocess_names_type2"], None),
    ("quara/objects/state_ensemble_typical.py", ["get_state_ensemble_names"], None),
]


# oracle calls: numeric functions that are NOT translated; only the dispatch around them is.
#   module-level one-argument vector functions -> atom "f:<arg>";   imported functions -> VApp "f" [args]
OPAQUE_VEC1 = {"get_state_bell_pure_state_vector"}
EXTERNAL = {"calc_mat_from_vector_adjoint"}


IMPORTED = {}          # name -> parameter names of functions already translated from an earlier module


class Unsupported(Exception):
    pass


def fail(node, msg):
    raise Unsupported("%s (line %s): %s" % (type(node).__name__, getattr(node, "lineno", "?"), msg))


def cstr(s):
    if any(ord(ch) < 32 or ord(ch) > 126 for ch in s):
        raise Unsupported("non-printable character in string constant %r" % s)
    return '"%s"' % s.replace('"', '""')


def cz(n):
    return "(%d)%%Z" % n


def cqc(fr):
    return "(Q2Qc (Qmake (%d) %d))" % (fr.numerator, fr.denominator)


def v(name):
    return "v_" + name


class Fn:
    def __init__(self, mod, fdef, coq_name=None):
        self.mod, self.f = mod, fdef
        self.coq_name = coq_name or ("g_" + fdef.name)
        self.local_defs = {}          # nested function name -> (coq name, parameter names)
        self.nested_text = []
        self.params = [a.arg for a in fdef.args.args]
        if fdef.args.vararg or fdef.args.kwarg or fdef.args.kwonlyargs or fdef.args.posonlyargs:
            fail(fdef, "only plain positional parameters")
        self.calls = []
        self.fresh = 0
        self.locals = {n.id for n in ast.walk(fdef) if isinstance(n, ast.Name) and isinstance(n.ctx, ast.Store)}

    def tmp(self, base):
        self.fresh += 1
        return "%s%d_" % (base, self.fresh)

    # ---------------- expressions: k receives the Coq name/term of the VALUE (a pyv); result is a Coq term of type pres T
    def expr(self, e, bound, k):
        """monadic translation: evaluates e, then continues with k(<coq pyv term>)"""
        if isinstance(e, ast.Constant):
            c = e.value
            if c is None:
                return k("VNone")
            if isinstance(c, bool):
                return k("(VBool %s)" % ("true" if c else "false"))
            if isinstance(c, int):
                return k("(VInt %s)" % cz(c))
            if isinstance(c, str):
                return k("(VStr %s)" % cstr(c))
            if isinstance(c, float):
                fr = Fraction(repr(c))
                if float(fr) != c or fr.denominator > 10 ** 6:
                    fail(e, "float constant %r is not a short exact decimal" % c)
                return k("(VNum (mkN %s 0))" % cqc(fr))
            if isinstance(c, complex):
                if c.real != 0 or c.imag != int(c.imag):
                    fail(e, "complex constant %r" % c)
                return k("(VC 0%%Z %s)" % cz(int(c.imag)))
            fail(e, "constant %r" % (c,))
        if isinstance(e, ast.Name):
            if e.id not in bound:
                if e.id in self.locals:
                    return '(PErr "UnboundLocalError")'          # a local that is not assigned on this path (e.g. if / elif chain without else)
                fail(e, "name %s is not bound here" % e.id)
            return k(v(e.id))
        if isinstance(e, (ast.List, ast.Tuple)):
            return self.exprs(e.elts, bound, lambda xs: k("(VList [%s])" % "; ".join(xs)))
        if isinstance(e, ast.Dict):
            keys = []
            for kk in e.keys:
                if not (isinstance(kk, ast.Constant) and isinstance(kk.value, str)):
                    fail(e, "dict keys must be string constants")
                keys.append(kk.value)
            return self.exprs(e.values, bound, lambda xs: k("(VDict [%s])" % "; ".join("(%s, %s)" % (cstr(a), b) for a, b in zip(keys, xs))))
        if isinstance(e, ast.BinOp):
            op = {ast.Add: "py_add", ast.Mult: "py_mul", ast.MatMult: "py_matmul"}.get(type(e.op))
            if op is None:
                fail(e, "operator %s" % type(e.op).__name__)
            return self.exprs([e.left, e.right], bound, lambda xs: self.bind("(%s %s %s)" % (op, xs[0], xs[1]), k))
        if isinstance(e, ast.UnaryOp):
            if isinstance(e.op, ast.USub):
                return self.expr(e.operand, bound, lambda x: self.bind("(py_neg %s)" % x, k))
            if isinstance(e.op, ast.Not):
                return self.expr(e.operand, bound, lambda x: self.bind("(py_not %s)" % x, k))
            fail(e, "unary operator")
        if isinstance(e, ast.Compare):
            if len(e.ops) != 1:
                fail(e, "chained comparison")
            op = {ast.Eq: "py_eq", ast.NotEq: "py_ne", ast.In: "py_in", ast.NotIn: "py_in", ast.Lt: "py_lt", ast.Gt: "py_gt", ast.LtE: "py_le", ast.GtE: "py_ge"}.get(type(e.ops[0]))
            if op is None:
                fail(e, "comparison %s" % type(e.ops[0]).__name__)
            neg = isinstance(e.ops[0], ast.NotIn)
            def after(xs):
                t = "(%s %s %s)" % (op, xs[0], xs[1])
                if neg:
                    return self.bind(t, lambda b: self.bind("(py_not %s)" % b, k))
                return self.bind(t, k)
            return self.exprs([e.left, e.comparators[0]], bound, after)
        if isinstance(e, ast.Subscript):
            sl = e.slice
            if isinstance(sl, ast.Slice):
                if sl.step is not None:
                    fail(e, "slice step")
                def bnd(b):
                    if b is None:
                        return "None"
                    n = self.intconst(b)
                    if n is None:
                        fail(e, "slice bounds must be integer constants")
                    return "(Some %s)" % cz(n)
                lo, hi = bnd(sl.lower), bnd(sl.upper)
                return self.expr(e.value, bound, lambda x: self.bind("(py_slice %s %s %s)" % (x, lo, hi), k))
            n = self.intconst(sl)
            if n is not None:
                return self.expr(e.value, bound, lambda x: self.bind("(py_getitem %s (VInt %s))" % (x, cz(n)), k))
            if isinstance(sl, ast.Constant) and isinstance(sl.value, str):
                return self.expr(e.value, bound, lambda x: self.bind("(py_getitem %s (VStr %s))" % (x, cstr(sl.value)), k))
            return self.exprs([e.value, sl], bound, lambda xs: self.bind("(py_getitem_ext %s %s)" % (xs[0], xs[1]), k))
        if isinstance(e, ast.Attribute):
            if isinstance(e.value, ast.Name) and e.value.id == "np" and e.attr == "pi":
                return k("(VNum npi)")
            if e.attr == "T":
                return self.expr(e.value, bound, lambda x: self.bind("(py_T %s)" % x, k))
            fail(e, "attribute %s" % e.attr)
        if isinstance(e, ast.BoolOp):
            if len(e.values) != 2:
                fail(e, "and / or with more than two operands")
            is_or = isinstance(e.op, ast.Or)
            def after(x):
                b = self.tmp("b")
                other = self.expr(e.values[1], bound, lambda y: self.bind("(py_truth %s)" % y, lambda c: k("(VBool %s)" % c)))
                short = k("(VBool %s)" % ("true" if is_or else "false"))
                return "(pbind (py_truth %s) (fun %s => if %s then %s else %s))" % (x, b, b, short if is_or else other, other if is_or else short)
            return self.expr(e.values[0], bound, after)
        if isinstance(e, ast.JoinedStr):
            parts = []
            for val in e.values:
                if isinstance(val, ast.Constant) and isinstance(val.value, str):
                    parts.append(val)
                elif isinstance(val, ast.FormattedValue) and val.conversion == -1 and val.format_spec is None:
                    parts.append(val)
                else:
                    fail(e, "f-string part")
            def go(i, acc):
                if i == len(parts):
                    return k(acc)
                pt = parts[i]
                if isinstance(pt, ast.Constant):
                    return self.bind("(py_add %s (VStr %s))" % (acc, cstr(pt.value)), lambda y: go(i + 1, y))
                return self.expr(pt.value, bound, lambda x: self.bind("(py_fstr %s)" % x, lambda y: self.bind("(py_add %s %s)" % (acc, y), lambda z: go(i + 1, z))))
            return go(0, '(VStr "")')
        if isinstance(e, ast.ListComp):
            if len(e.generators) != 1 or e.generators[0].ifs or e.generators[0].is_async:
                fail(e, "comprehension with several generators / conditions")
            g = e.generators[0]
            if isinstance(g.target, ast.Name):
                targets = [g.target.id]
            elif isinstance(g.target, ast.Tuple) and all(isinstance(x, ast.Name) for x in g.target.elts):
                targets = [x.id for x in g.target.elts]
            else:
                fail(e, "comprehension target")
            def comp(x):
                it = self.tmp("it"); items = self.tmp("items"); res = self.tmp("res")
                inner = self.expr(e.elt, bound | set(targets), lambda y: "(POk %s)" % y)
                body = "(let %s := %s in %s)" % (v(targets[0]), it, inner) if len(targets) == 1 else self.unpack(it, targets, lambda: inner)
                return "(pbind (py_iter %s) (fun %s => pbind (pmap (fun %s => %s) %s) (fun %s => %s)))" % (x, items, it, body, items, res, k("(VList %s)" % res))
            return self.expr(g.iter, bound, comp)
        if isinstance(e, ast.IfExp):
            def after(x):
                b = self.tmp("b")
                return "(pbind (py_truth %s) (fun %s => if %s then %s else %s))" % (x, b, b, self.expr(e.body, bound, k), self.expr(e.orelse, bound, k))
            return self.expr(e.test, bound, after)
        if isinstance(e, ast.Call):
            return self.call(e, bound, k)
        fail(e, "expression")

    def intconst(self, e):
        if isinstance(e, ast.Constant) and isinstance(e.value, int) and not isinstance(e.value, bool):
            return e.value
        if isinstance(e, ast.UnaryOp) and isinstance(e.op, ast.USub) and isinstance(e.operand, ast.Constant) and isinstance(e.operand.value, int):
            return -e.operand.value
        return None

    def exprs(self, es, bound, k):
        def go(i, acc):
            if i == len(es):
                return k(acc)
            return self.expr(es[i], bound, lambda x: go(i + 1, acc + [x]))
        return go(0, [])

    def bind(self, term, k):
        x = self.tmp("t")
        return "(pbind %s (fun %s => %s))" % (term, x, k(x))

    def call(self, e, bound, k):
        f = e.func
        # eval(x)()
        if isinstance(f, ast.Call) and isinstance(f.func, ast.Name) and f.func.id == "eval" and len(f.args) == 1 and not f.keywords and not e.args and not e.keywords:
            if self.mod.eval_kind is None:
                fail(e, "eval in a module without a method table")
            if self.mod.eval_kind == "opaque":
                return self.expr(f.args[0], bound, lambda x: self.bind("(py_eval_opaque %s %s)" % (self.mod.eval_table, x), k))
            return self.expr(f.args[0], bound, lambda x: self.bind("(py_eval_call %s %s)" % (self.mod.eval_table, x), k))
        if isinstance(f, ast.Name):
            if f.id == "eval" and len(e.args) == 1 and not e.keywords and self.mod.eval_kind == "opaque":
                return self.expr(e.args[0], bound, lambda x: k('(VApp "funcref" [%s])' % x))          # method = eval(name)
            if f.id in bound and f.id not in self.mod.defs and not e.args and not e.keywords and self.mod.eval_kind == "opaque":
                return self.bind("(py_call_ref %s %s)" % (self.mod.eval_table, v(f.id)), k)            # method()
            if f.id == "len" and len(e.args) == 1 and not e.keywords:
                return self.expr(e.args[0], bound, lambda x: self.bind("(py_len %s)" % x, k))
            if f.id in ("sorted", "enumerate") and len(e.args) == 1 and not e.keywords:
                return self.expr(e.args[0], bound, lambda x: self.bind("(py_%s %s)" % (f.id, x), k))
            if f.id == "int" and len(e.args) == 2 and not e.keywords:
                return self.exprs(e.args, bound, lambda xs: self.bind("(py_int_base %s %s)" % (xs[0], xs[1]), k))
            if f.id == "product" and f.id not in self.mod.defs and e.args:
                if not e.keywords:
                    return self.exprs(e.args, bound, lambda xs: self.bind("(py_product (VList [%s]))" % "; ".join(xs), k))
                if len(e.args) == 1 and len(e.keywords) == 1 and e.keywords[0].arg == "repeat":
                    return self.exprs([e.args[0], e.keywords[0].value], bound, lambda xs: self.bind("(py_product_repeat %s %s)" % (xs[0], xs[1]), k))
                fail(e, "itertools.product arguments")
            if f.id == "get_pauli_basis" and f.id not in self.mod.defs:
                arg = e.args[0] if (len(e.args) == 1 and not e.keywords) else (e.keywords[0].value if (not e.args and len(e.keywords) == 1 and e.keywords[0].arg == "n_qubit") else None)
                n = self.intconst(arg) if arg is not None else None
                if n is None or not (1 <= n <= 4):
                    fail(e, "get_pauli_basis needs a constant number of qubits")
                return k("(VExt %s %d)" % (cstr("pauli%d" % n), 2 ** n))
            if f.id in OPAQUE_VEC1 and f.id in self.mod.defs and len(e.args) == 1 and not e.keywords:
                return self.expr(e.args[0], bound, lambda x: self.bind("(py_opaque_vec1 %s %s)" % (cstr(f.id), x), k))
            if f.id in EXTERNAL and f.id not in self.mod.defs and not e.keywords:
                return self.exprs(e.args, bound, lambda xs: k("(VApp %s [%s])" % (cstr(f.id), "; ".join(xs))))
            if f.id in self.local_defs:
                cname, params = self.local_defs[f.id]
                if e.keywords or len(e.args) != len(params):
                    fail(e, "call of nested function %s" % f.id)
                return self.exprs(e.args, bound, lambda xs: self.bind("(%s %s)" % (cname, " ".join(xs)), k))
            if f.id not in self.mod.defs and f.id in IMPORTED:
                params = IMPORTED[f.id]                    # a function translated from ANOTHER module earlier in GROUPS (from ... import f)
                if e.keywords or len(e.args) != len(params):
                    fail(e, "call of imported translated function %s" % f.id)
                return self.exprs(e.args, bound, lambda xs: self.bind("(g_%s %s)" % (f.id, " ".join(xs)), k))
            if f.id in self.mod.defs:
                callee = self.mod.defs[f.id]
                params = [a.arg for a in callee.args.args]
                given = {}
                if len(e.args) > len(params):
                    fail(e, "too many arguments for %s" % f.id)
                for p, a in zip(params, e.args):
                    given[p] = a
                for kw in e.keywords:
                    if kw.arg is None or kw.arg not in params or kw.arg in given:
                        fail(e, "keyword argument of %s" % f.id)
                    given[kw.arg] = kw.value
                if set(given) != set(params):
                    fail(e, "call of %s must give every parameter (defaults are not modelled)" % f.id)
                if f.id not in self.calls:
                    self.calls.append(f.id)
                return self.exprs([given[p] for p in params], bound, lambda xs: self.bind("(g_%s %s)" % (f.id, " ".join(xs)) if xs else "g_%s" % f.id, k))
            fail(e, "call of %s" % f.id)
        if isinstance(f, ast.Attribute):
            if isinstance(f.value, ast.Name) and f.value.id == "np":
                if f.attr == "kron" and len(e.args) == 2 and not e.keywords:
                    return self.exprs(e.args, bound, lambda xs: self.bind("(np_kron %s %s)" % (xs[0], xs[1]), k))
                if f.attr == "zeros":
                    shape = None
                    if e.args:
                        shape = e.args[0]
                    for kw in e.keywords:
                        if kw.arg == "shape":
                            shape = kw.value
                        elif kw.arg != "dtype":
                            fail(e, "np.zeros keyword %s" % kw.arg)
                    is_int = any(kw.arg == "dtype" and isinstance(kw.value, ast.Name) and kw.value.id == "int" for kw in e.keywords)
                    if not (isinstance(shape, ast.Tuple) and len(shape.elts) == 2 and ast.dump(shape.elts[0]) == ast.dump(shape.elts[1])
                            and (self.intconst(shape.elts[0]) is not None or isinstance(shape.elts[0], ast.Name))):
                        fail(e, "np.zeros needs a square shape (n, n) with n a constant or a name")
                    return self.expr(shape.elts[0], bound, lambda x: self.bind("(%s %s)" % ("np_zeros_int" if is_int else "np_zeros_square", x), k))
                if f.attr in ("array", "eye") and len(e.args) == 1 and all(kw.arg == "dtype" for kw in e.keywords):
                    return self.expr(e.args[0], bound, lambda x: self.bind("(np_%s %s)" % ("array_any" if f.attr == "array" else "eye", x), k))
                fail(e, "np.%s" % f.attr)
            if f.attr == "split" and len(e.args) == 1 and not e.keywords:
                return self.exprs([f.value, e.args[0]], bound, lambda xs: self.bind("(py_split %s %s)" % (xs[0], xs[1]), k))
            if f.attr == "join" and len(e.args) == 1 and not e.keywords:
                return self.exprs([f.value, e.args[0]], bound, lambda xs: self.bind("(py_join %s %s)" % (xs[0], xs[1]), k))
            if f.attr == "count" and len(e.args) == 1 and not e.keywords:
                return self.exprs([f.value, e.args[0]], bound, lambda xs: self.bind("(py_count %s %s)" % (xs[0], xs[1]), k))
            if f.attr == "replace" and len(e.args) == 2 and not e.keywords:
                return self.exprs([f.value] + list(e.args), bound, lambda xs: self.bind("(py_replace %s %s %s)" % tuple(xs), k))
            fail(e, "method %s" % f.attr)
        fail(e, "call")

    # ---------------- statements.  cont(bound) gives the Coq term for "what follows" (may be called twice: if / else).
    # loop = None outside a loop, else the function that renders the loop state tuple (argument: Coq text of the `broken` flag)
    def block(self, stmts, bound, cont, loop=None):
        if not stmts:
            return cont(bound)
        s, rest = stmts[0], stmts[1:]
        nxt = lambda b: self.block(rest, b, cont, loop)
        if isinstance(s, ast.Expr):
            if isinstance(s.value, ast.Constant) and isinstance(s.value.value, str):
                return nxt(bound)
            c = s.value
            if isinstance(c, ast.Call) and isinstance(c.func, ast.Attribute) and c.func.attr in ("append", "extend", "remove") and isinstance(c.func.value, ast.Name) \
                    and len(c.args) == 1 and not c.keywords:
                name = c.func.value.id
                if name not in bound:
                    fail(s, "%s on unbound name %s" % (c.func.attr, name))
                return self.expr(c.args[0], bound, lambda x: "(pbind (py_%s %s %s) (fun %s => %s))" % (c.func.attr, v(name), x, v(name), nxt(bound)))
            fail(s, "expression statement")
        if isinstance(s, ast.FunctionDef):
            if loop is not None:
                fail(s, "nested function inside a loop")
            inner = Fn(self.mod, s, coq_name="%s__%s" % (self.coq_name, s.name))
            inner.local_defs = dict(self.local_defs)
            text = inner.translate()            # (a nested function may use only its own parameters: anything else is unbound -> Unsupported)
            self.nested_text += inner.nested_text + [text]
            for c in inner.calls:
                if c not in self.calls:
                    self.calls.append(c)
            self.local_defs[s.name] = (inner.coq_name, inner.params)
            return nxt(bound)
        if isinstance(s, ast.AugAssign):
            if not (isinstance(s.target, ast.Name) and isinstance(s.op, ast.Add)):
                fail(s, "augmented assignment other than NAME += e")
            if s.target.id not in bound:
                fail(s, "name %s is not bound here" % s.target.id)
            return self.expr(s.value, bound, lambda x: "(pbind (py_add %s %s) (fun %s => %s))" % (v(s.target.id), x, v(s.target.id), nxt(bound)))
        if isinstance(s, ast.Assign):
            if len(s.targets) != 1:
                fail(s, "multiple assignment targets")
            t = s.targets[0]
            if isinstance(t, ast.Name):
                return self.expr(s.value, bound, lambda x: "(let %s := %s in %s)" % (v(t.id), x, nxt(bound | {t.id})))
            if isinstance(t, ast.Tuple) and all(isinstance(x, ast.Name) for x in t.elts):
                names = [x.id for x in t.elts]
                return self.expr(s.value, bound, lambda x: self.unpack(x, names, lambda: nxt(bound | set(names))))
            if isinstance(t, ast.Subscript) and isinstance(t.value, ast.Name) and isinstance(t.slice, ast.Tuple) and len(t.slice.elts) == 2:
                m = t.value.id
                if m not in bound:
                    fail(s, "item assignment to unbound name %s" % m)
                return self.exprs(list(t.slice.elts) + [s.value], bound,
                                  lambda xs: "(pbind (py_setitem2 %s %s %s %s) (fun %s => %s))" % (v(m), xs[0], xs[1], xs[2], v(m), nxt(bound)))
            fail(s, "assignment target")
        if isinstance(s, ast.Assert):
            return self.expr(s.test, bound, lambda x: "(pbind (py_assert %s) (fun _ => %s))" % (x, nxt(bound)))
        if isinstance(s, ast.If):
            def after(x):
                b = self.tmp("b")
                return "(pbind (py_truth %s) (fun %s => if %s then %s else %s))" % (
                    x, b, b, self.block(list(s.body) + rest, bound, cont, loop), self.block(list(s.orelse) + rest, bound, cont, loop))
            return self.expr(s.test, bound, after)
        if isinstance(s, ast.For):
            if s.orelse:
                fail(s, "for ... else")
            if isinstance(s.target, ast.Name):
                targets = [s.target.id]
            elif isinstance(s.target, ast.Tuple) and all(isinstance(x, ast.Name) for x in s.target.elts):
                targets = [x.id for x in s.target.elts]
            else:
                fail(s, "for target")
            state = sorted(self.assigned(s.body) - set(targets))
            if set(targets) & self.assigned(s.body):
                fail(s, "loop variable is assigned in the body")
            fresh = [n for n in state if n not in bound]
            pre = "".join("(let %s := VNone in " % v(n) for n in fresh)
            post = ")" * len(fresh)
            b_in = bound | set(state) | set(targets)
            brk = self.tmp("brk")
            def tup(flag):
                return "(%s)" % ", ".join([v(n) for n in state] + [flag])
            pat = "let '%s := st_ in " % tup(brk)
            item = self.tmp("it")
            inner = self.block(list(s.body), b_in, lambda b: "(POk %s)" % tup("false"), loop=tup)
            if len(targets) == 1:
                body = "(let %s := %s in %s)" % (v(targets[0]), item, inner)
            else:
                body = self.unpack(item, targets, lambda: inner)
            after = nxt(bound | set(state))
            def render(x):
                ty = "(%s)%%type" % " * ".join(["pyv"] * len(state) + ["bool"])
                return "%s(pbind (py_iter %s) (fun items_ => pbind (pfold (fun (st_ : %s) %s => %sif %s then POk st_ else %s) items_ %s) (fun st_ => %s%s)))%s" % (
                    pre, x, ty, item, pat, brk, body, tup("false"), pat, after, post)
            return self.expr(s.iter, bound, render)
        if isinstance(s, ast.Break):
            if loop is None:
                fail(s, "break outside a loop")
            if rest:
                fail(s, "statements after break")
            return "(POk %s)" % loop("true")
        if isinstance(s, ast.Return):
            if loop is not None:
                fail(s, "return inside a loop")
            if s.value is None:
                return "(POk VNone)"
            return self.expr(s.value, bound, lambda x: "(POk %s)" % x)
        if isinstance(s, ast.Raise):
            if loop is not None:
                fail(s, "raise inside a loop")
            exc = s.exc
            if isinstance(exc, ast.Call):
                exc = exc.func
            if not isinstance(exc, ast.Name):
                fail(s, "raise of a non-name")
            return "(PErr %s)" % cstr(exc.id)
        fail(s, "statement")

    def unpack(self, x, names, body):
        tup = self.tmp("tup")
        text = body()
        for i in reversed(range(len(names))):
            text = "(pbind (py_getitem %s (VInt %s)) (fun %s => %s))" % (tup, cz(i), v(names[i]), text)
        return "(let %s := %s in pbind (py_len %s) (fun n_ => pbind (py_assert_eq n_ (VInt %s)) (fun _ => %s)))" % (tup, x, tup, cz(len(names)), text)

    def assigned(self, stmts):
        out = set()
        for s in stmts:
            if isinstance(s, ast.Assign):
                for t in s.targets:
                    if isinstance(t, ast.Subscript) and isinstance(t.value, ast.Name):
                        out.add(t.value.id); continue
                    for n in ([t] if isinstance(t, ast.Name) else list(getattr(t, "elts", [None]))):
                        if not isinstance(n, ast.Name):
                            fail(s, "assignment target in loop")
                        out.add(n.id)
            elif isinstance(s, ast.AugAssign) and isinstance(s.target, ast.Name):
                out.add(s.target.id)
            elif isinstance(s, ast.Expr) and isinstance(s.value, ast.Call) and isinstance(s.value.func, ast.Attribute) and s.value.func.attr in ("append", "extend", "remove") \
                    and isinstance(s.value.func.value, ast.Name):
                out.add(s.value.func.value.id)
            elif isinstance(s, ast.If):
                out |= self.assigned(s.body) | self.assigned(s.orelse)
            elif isinstance(s, ast.For):
                out |= self.assigned(s.body)
                for n in ([s.target] if isinstance(s.target, ast.Name) else list(getattr(s.target, "elts", []))):
                    if isinstance(n, ast.Name):
                        out.add(n.id)
            elif isinstance(s, (ast.Assert, ast.Expr, ast.Break)):
                pass
            else:
                fail(s, "statement inside a loop")
        return out

    def translate(self):
        body = self.block(list(self.f.body), set(self.params), lambda b: "(POk VNone)")
        args = "".join(" (%s : pyv)" % v(p) for p in self.params)
        return "\n\n".join(self.nested_text + ["Definition %s%s : pres pyv :=\n  %s." % (self.coq_name, args, body)])


class Mod:
    def __init__(self, src, eval_kind=None, eval_table=None):
        tree = ast.parse(src)
        self.defs = {n.name: n for n in tree.body if isinstance(n, ast.FunctionDef)}
        self.eval_kind, self.eval_table = eval_kind, eval_table


def main():
    repo, out = sys.argv[1], sys.argv[2]
    done, order, tables = {}, [], []
    opaque_tables = []
    for source, roots, prefix in GROUPS:
        stem = os.path.basename(source)[:-3]
        if isinstance(prefix, tuple):
            mod = Mod(open(os.path.join(repo, source)).read(), "opaque", "g_opaque_methods_" + stem)
            names = sorted(n for n, f in mod.defs.items() if n.startswith(prefix[1]) and n.endswith(prefix[2]) and not f.args.args)
            opaque_tables.append((len(order), mod.eval_table, names))
            prefix = None
        else:
            mod = Mod(open(os.path.join(repo, source)).read(), "literal" if prefix else None, "g_method_table")

        def visit(name, stack=()):
            if name in done:
                if done[name][0] != source:
                    raise Unsupported("function name %s occurs in two translated modules" % name)
                return
            if name in stack:
                raise Unsupported("recursion through %s" % name)
            if name not in mod.defs:
                raise Unsupported("root function %s is not defined in %s" % (name, source))
            fn = Fn(mod, mod.defs[name])
            text = fn.translate()
            done[name] = (source, text)
            for c in fn.calls:
                visit(c, stack + (name,))
            order.append(name)

        if prefix:
            methods = sorted(n for n, f in mod.defs.items() if n.startswith(prefix) and not f.args.args)
            for m in methods:
                fn = Fn(mod, mod.defs[m])
                if any(isinstance(n, ast.Call) and isinstance(n.func, ast.Call) for n in ast.walk(mod.defs[m])):
                    raise Unsupported("method-table function %s uses eval" % m)
                text = fn.translate()
                if fn.calls:
                    raise Unsupported("method-table function %s calls %s" % (m, fn.calls))
                done[m] = (source, text); order.append(m)
            tables.append((len(order), methods))
        for r in roots:
            visit(r)
        for name, (src_, _) in done.items():
            if src_ == source:
                IMPORTED[name] = [a.arg for a in mod.defs[name].args.args]
    with open(out, "w") as f:
        f.write("(* GENERATED by gen/c17_py2coq.py from %s - do not edit *)\n" % ", ".join(g[0] for g in GROUPS))
        f.write("From Coq Require Import String List ZArith QArith Qcanon Bool.\nFrom QV.Model Require Import C17_PySem.\nImport ListNotations.\nOpen Scope string_scope.\n\n")
        f.write("Definition py_assert_eq (a b : pyv) : pres unit := if py_eqb a b then POk tt else PErr \"ValueError\".\n")
        f.write("Definition np_array_any (a : pyv) : pres pyv := match np_array a with POk x => POk x | PErr _ => np_array1 a end.\n")
        f.write("Definition py_call_ref (tbl : list string) (r : pyv) : pres pyv := match r with VApp \"funcref\" [n] => py_eval_opaque tbl n | _ => PErr \"TypeError\" end.\n\n")
        marks = sorted([(upto, "lit", methods) for upto, methods in tables] + [(upto, tname, names) for upto, tname, names in opaque_tables], key=lambda t: t[0])
        pos = 0
        for upto, kind, names in marks:
            for name in order[pos:upto]:
                f.write(done[name][1] + "\n\n")
            if kind == "lit":
                f.write("Definition g_method_table : list (string * pres pyv) :=\n  [%s].\n\n" % ";\n   ".join("(%s, g_%s)" % (cstr(m), m) for m in names))
            else:
                f.write("Definition %s : list string :=\n  [%s].\n\n" % (kind, "; ".join(cstr(m) for m in names)))
            pos = upto
        for name in order[pos:]:
            f.write(done[name][1] + "\n\n")
        f.write("Definition g_translated : list string := [%s].\n" % "; ".join(cstr(n) for n in order))
    print("translated %d functions: %s" % (len(order), ", ".join(order)))


if __name__ == "__main__":
    try:
        main()
    except Unsupported as e:
        print("UNSUPPORTED: %s" % e)
        sys.exit(3)
