#!/usr/bin/env python3
"""Fail-closed translator for the list / loop logic of quara's tensor-product machinery (property C07):
Python `ast` -> Gallina over the combinators of coq/theories/Model/C07_PySym.v.

Translated on every run from the CURRENT source (usage: c07_py2coq.py <repo> <out.v>):
  quara/utils/matrix_util.py   _left_permutation_matrix(position, size_list)            -> sym   (symbolic numpy expression)
  quara/utils/matrix_util.py   calc_permutation_matrix(system_order, size_list)         -> option sym  (while loop -> fuel)
  quara/utils/matrix_util.py   convert_list_by_permutation_matrix(old_list, perm)       -> list (option Z)
  quara/objects/qoperation.py  QOperation._permutation_matrix_from_qutrits_to_qubits(n) -> Z * list (Z * Z)
                               (size and index pairs; the tail `M = np.zeros((E, E)); for p in pairs: M[p[0], p[1]] = 1;
                                return M` is pattern-matched and replaced by `return (E, pairs)`)

  quara/objects/operators.py   _tensor_product_Gate_MProcess / _MProcess_Gate / _MProcess_MProcess(elem1, elem2)
                               -> (list of (id1, id2) pairs = which HS matrices are multiplied, in list order ; reported shape)
  quara/objects/operators.py   _tensor_product_StateEnsemble_StateEnsemble(elem1, elem2)
                               -> (list of state pairs, list of probability products, reported shape)
     These four are translated as SLICES: the result is the tuple of constructor arguments named in the table below; only the
     statements that (transitively) feed those arguments are translated — every such statement must be inside the subset — the others
     (composite system, physicality flag) cannot influence them because they mention none of the tracked names.  Attributes of the
     two operands (`elem1.hss`, `elem2.shape`, `elem1.prob_dist[i]` ...) become parameters; HS matrices / states are opaque ids and
     `_tensor_product_hs_hs(a, b, _)` / `tensor_product(a, b)` the pair (a, b).

Subset (anything else raises Unsupported -> the tie is reported broken, never skipped):
  statements: docstring; `x = e`; `a, b = e1, e2` (names or `l[i]` targets: right-hand sides first, then stores in order);
    `l[i] = e`; `l.append(e)`; `x += e`; `if c: ... else: ...` updating variables (variables first assigned in only one branch are
    local to it); `for v in range(e)` / `for i, v in enumerate(l)` with loop-carried variables, `break` allowed as the last statement
    of an `if` that is the last statement of the loop body; `while not X is None:` (X an option-valued variable; becomes a
    structurally recursive function on a fuel argument, the whole function then returns an option); `return e` as last statement.
  expressions: int constants, None, names, + - * // % **, comparisons, and/or/not, `x is None`, `c in l`, `l[e]`, `l[:e]`, `l[e:]`,
    `P[r, c]` (matrix parameter as a function), `P.shape`, tuples, `[]`, lists of int constants, `[True] * e`, len, range, enumerate,
    copy.copy, reduce(mul, l), np.prod, np.eye, np.kron, `a @ b`, _K, list(product(l, repeat=e)), calls of the other translated
    functions and of _check_cross_system_position (translated by gen/py2coq.py, group cross_position).
"""
import ast, sys, os


class Unsupported(Exception):
    pass


def fail(node, msg):
    raise Unsupported("%s (line %s): %s" % (type(node).__name__, getattr(node, "lineno", "?"), msg))


COQ_T = {"Z": "Z", "bool": "bool", "sym": "sym", "list:Z": "list Z", "list:list:Z": "list (list Z)", "list:prod:Z,Z": "list (Z * Z)",
         "list:optZ": "list (option Z)", "option:Z": "option Z", "matfun": "Z -> Z -> Z", "prod:Z,Z": "(Z * Z)",
         "prod:Z,list:prod:Z,Z": "(Z * list (Z * Z))", "prod:Z,list:Z": "(Z * list Z)",
         "prod:list:prod:Z,Z,list:Z": "(list (Z * Z) * list Z)",
         "coef": "coef", "prod:Z,coef": "(Z * coef)", "list:prod:Z,coef": "list (Z * coef)", "list:list:prod:Z,coef": "list (list (Z * coef))",
         "prod:list:list:prod:Z,coef,list:Z": "(list (list (Z * coef)) * list Z)", "fun:Z->list:Z": "Z -> list Z", "ptree": "ptree", "list:ptree": "list ptree",
         "permreq": "(list Z * list Z)", "permreqT": "(list Z * list Z)", "vecimg": "(sym * (Z * Z))", "reshaped": "((sym * (Z * Z)) * (Z * Z))",
         "left": "((list Z * list Z) * ((sym * (Z * Z)) * (Z * Z)))", "conj": "(((list Z * list Z) * ((sym * (Z * Z)) * (Z * Z))) * (list Z * list Z))", "applied": "((list Z * list Z) * (Z * Z))", "hsprod": "((Z * Z) * list (Z * Z))",
         "prod:list:prod:Z,Z,applied": "(list (Z * Z) * ((list Z * list Z) * (Z * Z)))", "prod:list:prod:Z,Z,hsprod": "(list (Z * Z) * ((Z * Z) * list (Z * Z)))", "prod:list:prod:Z,Z,list:Z,list:Z": "(list (Z * Z) * list Z * list Z)"}
RESERVED = {"length", "rev", "map", "seq", "combine", "fold_left", "fst", "snd", "negb", "nil", "cons", "app", "Some", "None", "repeat",
            "sym", "fuel", "existsb", "firstn", "skipn", "nth"}


def ctype(t):
    if t not in COQ_T:
        raise Unsupported("type " + t)
    return COQ_T[t]


class Fn:
    def __init__(self, fdef, params, coq_name, known, shapes=None, pairs_tail=False):
        self.f, self.params, self.coq_name, self.known = fdef, params, coq_name, known
        self.shapes = shapes or {}
        self.pairs_tail = pairs_tail
        self.abstr, self.abstr_index, self.paircalls = {}, {}, {}
        self.abstr_calls, self.wrapcalls, self.embcall = {}, {}, None
        self.treecalls, self.allow_vararg = set(), None
        self.esys_mode = False
        self.types = {}
        self.aux = []           # auxiliary Fixpoints (while loops)
        self.uses_fuel = any(isinstance(n, ast.While) for n in ast.walk(fdef))
        self.counter = 0
        self.nil_types = {}
        for n in ast.walk(fdef):
            if isinstance(n, ast.Name) and n.id in RESERVED:
                n.id += "_py"
            if isinstance(n, ast.arg) and n.arg in RESERVED:
                n.arg += "_py"
            if isinstance(n, (ast.Try, ast.With, ast.Lambda, ast.FunctionDef, ast.ClassDef, ast.Global, ast.Nonlocal, ast.Yield, ast.Await,
                              ast.DictComp, ast.SetComp, ast.GeneratorExp, ast.Delete, ast.Assert, ast.Raise)) and n is not fdef:
                fail(n, "construct outside the subset")

    def fresh(self, base):
        self.counter += 1
        return "%s%d_" % (base, self.counter)

    # ------------------------------------------------------------------ expressions -> (coq, type)
    def expr(self, e):
        src = ast.unparse(e)
        if src in self.abstr:
            return self.abstr[src]
        if isinstance(e, ast.Subscript) and ast.unparse(e.value) in self.abstr_index and not isinstance(e.slice, (ast.Slice, ast.Tuple)):
            nm, t = self.abstr_index[ast.unparse(e.value)]
            i, ti = self.expr(e.slice)
            if ti != "Z" or t != "list:Z":
                fail(e, "index of an abstracted attribute")
            return "(pynth %s %s)" % (nm, i), "Z"
        if isinstance(e, ast.Call) and ast.unparse(e.func) in self.abstr_calls and len(e.args) == 1 and not e.keywords:
            nm, t = self.abstr_calls[ast.unparse(e.func)]
            a, ta = self.expr(e.args[0])
            if ta != "Z" or t != "fun:Z->list:Z":
                fail(e, "argument of an abstracted method")
            return "(%s %s)" % (nm, a), "list:Z"
        if isinstance(e, ast.Call) and ast.unparse(e.func) in self.wrapcalls:
            # conversion of the embedded matrices to the object's representation: opaque, the payload is kept
            k = self.wrapcalls[ast.unparse(e.func)]
            if len(e.args) <= k:
                fail(e, "payload argument of %s" % ast.unparse(e.func))
            return self.expr(e.args[k])
        if isinstance(e, ast.Call) and ast.unparse(e.func) == self.embcall and self.embcall:
            if len(e.args) != 4 or e.keywords:
                fail(e, "embedding call shape")
            m, tm = self.expr(e.args[2]); c, tc = self.expr(e.args[3])
            if tm != "Z":
                fail(e, "embedded matrix must be an opaque id")
            if tc == "Z":
                c, tc = "(CConst %s)" % c, "coef"
            if tc != "coef":
                fail(e, "padding coefficient of type %s" % tc)
            return "(%s, %s)" % (m, c), "prod:Z,coef"
        if isinstance(e, ast.BinOp) and isinstance(e.op, ast.Div):
            if not (isinstance(e.left, ast.Constant) and e.left.value == 1 and type(e.left.value) is int):
                fail(e, "only 1 / e is supported")
            d = e.right
            if isinstance(d, ast.Call) and ast.unparse(d.func) == "np.sqrt" and len(d.args) == 1 and not d.keywords:
                a, ta = self.expr(d.args[0])
                if ta != "Z":
                    fail(e, "np.sqrt of %s" % ta)
                return "(CInvSqrt %s)" % a, "coef"
            a, ta = self.expr(d)
            if ta != "Z":
                fail(e, "1 / %s" % ta)
            return "(CInv %s)" % a, "coef"
        if isinstance(e, ast.ListComp):
            if not self.esys_mode or len(e.generators) != 1 or e.generators[0].ifs or e.generators[0].is_async or not isinstance(e.generators[0].target, ast.Name):
                fail(e, "list comprehension")
            src_l, tl = self.expr(e.generators[0].iter)
            if tl != "list:prod:Z,Z":
                fail(e, "comprehension over %s" % tl)
            v = e.generators[0].target.id
            saved = self.types.get(v)
            self.types[v] = "esys"
            body, tb = self.expr(e.elt)
            if saved is None:
                del self.types[v]
            else:
                self.types[v] = saved
            if tb != "Z":
                fail(e, "comprehension element of type %s" % tb)
            return "(map (fun %s : Z * Z => %s) %s)" % (v, body, src_l), "list:Z"
        if isinstance(e, ast.Attribute) and isinstance(e.value, ast.Name) and self.types.get(e.value.id) == "esys" and e.attr in ("name", "dim"):
            return "(%s %s)" % ("fst" if e.attr == "name" else "snd", e.value.id), "Z"
        if self.esys_mode and isinstance(e, ast.Call) and not e.keywords:
            fn = ast.unparse(e.func)
            if fn == "matrix_util.calc_permutation_matrix" and len(e.args) == 2:
                a, ta = self.expr(e.args[0]); b, tb = self.expr(e.args[1])
                if ta != "list:Z" or tb != "list:Z":
                    fail(e, "calc_permutation_matrix of %s, %s" % (ta, tb))
                return "(%s, %s)" % (a, b), "permreq"
            if fn == "np.kron" and len(e.args) == 2:
                a, ta = self.expr(e.args[0]); b, tb = self.expr(e.args[1])
                if ta == "Z" and tb == "Z":
                    return "(%s, %s)" % (a, b), "prod:Z,Z"
            if fn == "_tensor_product_hs_hs" and len(e.args) == 3:
                a, ta = self.expr(e.args[0]); b, tb = self.expr(e.args[1]); c, tc = self.expr(e.args[2])
                if (ta, tb, tc) != ("Z", "Z", "list:prod:Z,Z"):
                    fail(e, "_tensor_product_hs_hs of %s, %s, %s" % (ta, tb, tc))
                return "((%s, %s), %s)" % (a, b, c), "hsprod"
        if self.esys_mode and isinstance(e, ast.BinOp) and isinstance(e.op, ast.MatMult):
            a, ta = self.expr(e.left); b, tb = self.expr(e.right)
            combos = {("permreq", "prod:Z,Z"): "applied", ("sym", "prod:Z,Z"): "vecimg", ("permreq", "reshaped"): "left", ("left", "permreqT"): "conj"}
            if (ta, tb) in combos:
                return "(%s, %s)" % (a, b), combos[(ta, tb)]
            fail(e, "@ on %s, %s" % (ta, tb))
        if self.esys_mode and isinstance(e, ast.Attribute) and e.attr == "T" and isinstance(e.value, ast.Name) and self.types.get(e.value.id) == "permreq":
            return e.value.id, "permreqT"
        if self.esys_mode and isinstance(e, ast.Call) and isinstance(e.func, ast.Attribute) and e.func.attr == "reshape" and not e.keywords \
                and len(e.args) == 1 and isinstance(e.args[0], ast.Tuple) and len(e.args[0].elts) == 2 and isinstance(e.func.value, ast.Name):
            v, tv = self.expr(e.func.value)
            a, ta = self.expr(e.args[0].elts[0]); b, tb = self.expr(e.args[0].elts[1])
            if tv != "vecimg" or ta != "Z" or tb != "Z":
                fail(e, "reshape of %s to (%s, %s)" % (tv, ta, tb))
            return "(%s, (%s, %s))" % (v, a, b), "reshaped"
        if isinstance(e, ast.Call) and ast.unparse(e.func) in self.treecalls and not e.keywords and len(e.args) == 2:
            a, ta = self.expr(e.args[0]); b, tb = self.expr(e.args[1])
            if ta != "ptree" or tb != "ptree":
                fail(e, "binary product of %s, %s" % (ta, tb))
            return "(PNode %s %s)" % (a, b), "ptree"
        if isinstance(e, ast.Call) and ast.unparse(e.func) in self.paircalls and not e.keywords and len(e.args) == self.paircalls[ast.unparse(e.func)]:
            a, ta = self.expr(e.args[0]); b, tb = self.expr(e.args[1])
            if ta != "Z" or tb != "Z":
                fail(e, "pair call on %s, %s" % (ta, tb))
            for extra in e.args[2:]:
                if not isinstance(extra, ast.Name):
                    fail(e, "extra argument of a pair call must be a plain name")
            return "(%s, %s)" % (a, b), "prod:Z,Z"
        if isinstance(e, ast.Call) and ast.unparse(e.func) in ("tuple", "list") and len(e.args) == 1 and not e.keywords \
                and not (isinstance(e.args[0], ast.Call) and ast.unparse(e.args[0].func) == "product"):
            a, ta = self.expr(e.args[0])
            if not ta.startswith("list:"):
                fail(e, "tuple()/list() of %s" % ta)
            return a, ta
        if isinstance(e, ast.BinOp) and isinstance(e.op, ast.Add):
            try_l = self.try_expr(e.left); try_r = self.try_expr(e.right)
            if try_l and try_r and try_l[1].startswith("list:") and try_l[1] == try_r[1]:
                return "(%s ++ %s)" % (try_l[0], try_r[0]), try_l[1]
        if isinstance(e, ast.Constant):
            if e.value is None:
                return "None", "option:Z"
            if type(e.value) is int:
                return "(%d)%%Z" % e.value, "Z"
            fail(e, "constant %r" % (e.value,))
        if isinstance(e, ast.Name):
            if e.id not in self.types:
                fail(e, "unknown variable %s" % e.id)
            return e.id, self.types[e.id]
        if isinstance(e, ast.BinOp):
            if isinstance(e.op, ast.Mult) and isinstance(e.left, ast.List) and len(e.left.elts) == 1 \
                    and isinstance(e.left.elts[0], ast.Constant) and e.left.elts[0].value is True:
                n, tn = self.expr(e.right)
                if tn != "Z":
                    fail(e, "[True] * non-int")
                return "(repeat (@None Z) (Z.to_nat %s))" % n, "list:optZ"
            a, ta = self.expr(e.left)
            b, tb = self.expr(e.right)
            if isinstance(e.op, ast.MatMult):
                if ta != "sym" or tb != "sym":
                    fail(e, "@ on %s, %s" % (ta, tb))
                return "(SMatmul %s %s)" % (a, b), "sym"
            if ta != "Z" or tb != "Z":
                fail(e, "arithmetic on %s, %s" % (ta, tb))
            ops = {ast.Add: "(%s + %s)%%Z", ast.Sub: "(%s - %s)%%Z", ast.Mult: "(%s * %s)%%Z", ast.FloorDiv: "(%s / %s)%%Z",
                   ast.Mod: "(%s mod %s)%%Z", ast.Pow: "(%s ^ %s)%%Z"}
            if type(e.op) not in ops:
                fail(e, "operator")
            return ops[type(e.op)] % (a, b), "Z"
        if isinstance(e, ast.UnaryOp):
            a, ta = self.expr(e.operand)
            if isinstance(e.op, ast.Not) and ta == "bool":
                return "(negb %s)" % a, "bool"
            if isinstance(e.op, ast.USub) and ta == "Z":
                return "(- %s)%%Z" % a, "Z"
            fail(e, "unary operator on %s" % ta)
        if isinstance(e, ast.BoolOp):
            parts = [self.expr(v) for v in e.values]
            if any(t != "bool" for _, t in parts):
                fail(e, "boolean operator on non-bool")
            op = " && " if isinstance(e.op, ast.And) else " || "
            return "(" + op.join(p for p, _ in parts) + ")%bool", "bool"
        if isinstance(e, ast.Compare):
            if len(e.ops) != 1:
                fail(e, "chained comparison")
            op, rhs = e.ops[0], e.comparators[0]
            if isinstance(op, (ast.Is, ast.IsNot)):
                a, ta = self.expr(e.left)
                if not (isinstance(rhs, ast.Constant) and rhs.value is None and ta == "option:Z"):
                    fail(e, "is-comparison")
                t = "(match %s with None => true | Some _ => false end)" % a
                return (t if isinstance(op, ast.Is) else "(negb %s)" % t), "bool"
            if isinstance(op, (ast.In, ast.NotIn)):
                a, ta = self.expr(e.left)
                b, tb = self.expr(rhs)
                if ta != "Z" or tb != "list:Z":
                    fail(e, "membership %s in %s" % (ta, tb))
                t = "(existsb (Z.eqb %s) %s)" % (a, b)
                return (t if isinstance(op, ast.In) else "(negb %s)" % t), "bool"
            a, ta = self.expr(e.left)
            b, tb = self.expr(rhs)
            if ta != "Z" or tb != "Z":
                fail(e, "comparison of %s, %s" % (ta, tb))
            m = {ast.Eq: "(%s =? %s)%%Z", ast.NotEq: "(negb (%s =? %s)%%Z)", ast.Lt: "(%s <? %s)%%Z", ast.LtE: "(%s <=? %s)%%Z",
                 ast.Gt: "(%s >? %s)%%Z", ast.GtE: "(%s >=? %s)%%Z"}
            if type(op) not in m:
                fail(e, "comparison operator")
            return m[type(op)] % (a, b), "bool"
        if isinstance(e, ast.Tuple):
            parts = [self.expr(v) for v in e.elts]
            return "(" + ", ".join(p for p, _ in parts) + ")", "prod:" + ",".join(t for _, t in parts)
        if isinstance(e, ast.List):
            if not e.elts:
                return "@@NIL@@", "list:?"
            vals = []
            for x in e.elts:
                if not (isinstance(x, ast.Constant) and type(x.value) is int):
                    fail(e, "list literal of non-constants")
                vals.append("%d" % x.value)
            return "[" + "; ".join(vals) + "]%Z", "list:Z"
        if isinstance(e, ast.Attribute):
            if e.attr == "shape" and isinstance(e.value, ast.Name) and e.value.id in self.shapes:
                r, c = self.shapes[e.value.id]
                return "(%s, %s)" % (r, c), "prod:Z,Z"
            fail(e, "attribute")
        if isinstance(e, ast.Subscript):
            v, tv = self.expr(e.value)
            sl = e.slice
            if tv == "matfun":
                if not (isinstance(sl, ast.Tuple) and len(sl.elts) == 2):
                    fail(e, "matrix index")
                r, tr = self.expr(sl.elts[0]); c, tc = self.expr(sl.elts[1])
                if tr != "Z" or tc != "Z":
                    fail(e, "matrix index types")
                return "(%s %s %s)" % (v, r, c), "Z"
            if isinstance(sl, ast.Slice):
                if sl.step is not None or not tv.startswith("list:"):
                    fail(e, "slice")
                if sl.lower is None and sl.upper is not None:
                    u, tu = self.expr(sl.upper)
                    if tu != "Z":
                        fail(e, "slice bound")
                    return "(pyslice_to %s %s)" % (v, u), tv
                if sl.upper is None and sl.lower is not None:
                    lo, tl = self.expr(sl.lower)
                    if tl != "Z":
                        fail(e, "slice bound")
                    return "(pyslice_from %s %s)" % (v, lo), tv
                fail(e, "two-sided / empty slice")
            i, ti = self.expr(sl)
            if tv == "list:Z" and ti == "Z":
                return "(pynth %s %s)" % (v, i), "Z"
            if tv == "list:ptree" and ti == "Z":
                return "(nth (pyidx %s %s) %s (PLeaf 0))" % (v, i, v), "ptree"
            fail(e, "subscript of %s by %s" % (tv, ti))
        if isinstance(e, ast.Call):
            fn = ast.unparse(e.func)
            if e.keywords and not (fn == "product"):
                fail(e, "keyword arguments")
            args = e.args
            if fn == "len" and len(args) == 1:
                a, ta = self.expr(args[0])
                if not ta.startswith("list:"):
                    fail(e, "len of %s" % ta)
                return "(Z.of_nat (length %s))" % a, "Z"
            if fn == "copy.copy" and len(args) == 1:
                return self.expr(args[0])
            if fn == "reduce" and len(args) == 2 and ast.unparse(args[0]) == "mul":
                a, ta = self.expr(args[1])
                if ta != "list:Z":
                    fail(e, "reduce over %s" % ta)
                return "(pyreduce_mul %s)" % a, "Z"
            if fn == "np.prod" and len(args) == 1:
                a, ta = self.expr(args[0])
                if ta != "list:Z":
                    fail(e, "np.prod of %s" % ta)
                return "(pyprod %s)" % a, "Z"
            if fn == "np.eye" and len(args) == 1:
                a, ta = self.expr(args[0])
                if ta != "Z":
                    fail(e, "np.eye of %s" % ta)
                return "(SEye %s)" % a, "sym"
            if fn == "np.kron" and len(args) == 2:
                a, ta = self.expr(args[0]); b, tb = self.expr(args[1])
                if ta != "sym" or tb != "sym":
                    fail(e, "np.kron of %s, %s" % (ta, tb))
                return "(SKron %s %s)" % (a, b), "sym"
            if fn == "_K" and len(args) == 2:
                a, ta = self.expr(args[0]); b, tb = self.expr(args[1])
                if ta != "Z" or tb != "Z":
                    fail(e, "_K of %s, %s" % (ta, tb))
                return "(SK %s %s)" % (a, b), "sym"
            if fn == "list" and len(args) == 1 and isinstance(args[0], ast.Call) and ast.unparse(args[0].func) == "product":
                p = args[0]
                if len(p.args) != 1 or len(p.keywords) != 1 or p.keywords[0].arg != "repeat":
                    fail(e, "product(...) shape")
                a, ta = self.expr(p.args[0]); n, tn = self.expr(p.keywords[0].value)
                if ta != "list:Z" or tn != "Z":
                    fail(e, "product of %s repeat %s" % (ta, tn))
                return "(pyproduct %s (Z.to_nat %s))" % (a, n), "list:list:Z"
            if fn in self.known:
                coq, ptypes, rtype = self.known[fn]
                if len(args) != len(ptypes):
                    fail(e, "arity of %s" % fn)
                cs = []
                for a, pt in zip(args, ptypes):
                    c, t = self.expr(a)
                    if t != pt:
                        fail(e, "argument of %s: %s, expected %s" % (fn, t, pt))
                    cs.append(c)
                return "(%s %s)" % (coq, " ".join(cs)), rtype
            fail(e, "call of %s" % fn)
        fail(e, "expression %s" % ast.unparse(e))

    def try_expr(self, e):
        try:
            return self.expr(e)
        except Unsupported:
            return None

    def iter_expr(self, e):
        """iterable of a for loop -> (coq list, element type, pattern builder)"""
        if isinstance(e, ast.Call) and ast.unparse(e.func) == "range" and len(e.args) == 1 and not e.keywords:
            a, ta = self.expr(e.args[0])
            if ta != "Z":
                fail(e, "range of %s" % ta)
            return "(pyrange %s)" % a, "Z"
        if isinstance(e, ast.Call) and ast.unparse(e.func) == "enumerate" and len(e.args) == 1 and not e.keywords:
            a, ta = self.expr(e.args[0])
            if not ta.startswith("list:"):
                fail(e, "enumerate of %s" % ta)
            return "(combine (pyrange (Z.of_nat (length %s))) %s)" % (a, a), "prod:Z," + ta[5:]
        a, ta = self.expr(e)
        if not ta.startswith("list:"):
            fail(e, "iteration over %s" % ta)
        return a, ta[5:]

    # ------------------------------------------------------------------ statements
    def assigned(self, stmts):
        out = []

        def add(n):
            if n not in out:
                out.append(n)
        for s in stmts:
            for n in ast.walk(s):
                if isinstance(n, (ast.Assign, ast.AugAssign)):
                    tgts = n.targets if isinstance(n, ast.Assign) else [n.target]
                    for t in tgts:
                        for m in ([t] if not isinstance(t, ast.Tuple) else t.elts):
                            if isinstance(m, ast.Name):
                                add(m.id)
                            elif isinstance(m, ast.Subscript) and isinstance(m.value, ast.Name):
                                add(m.value.id)
                            else:
                                fail(n, "assignment target")
                elif isinstance(n, ast.Expr) and isinstance(n.value, ast.Call) and isinstance(n.value.func, ast.Attribute) \
                        and n.value.func.attr in ("append", "extend") and isinstance(n.value.func.value, ast.Name):
                    add(n.value.func.value.id)
                elif isinstance(n, ast.For):
                    for m in ast.walk(n.target):
                        if isinstance(m, ast.Name):
                            add(m.id)
        return out

    def store(self, tgt, val, tval, cont):
        """emit `tgt = val` followed by cont()"""
        if isinstance(tgt, ast.Name):
            old = self.types.get(tgt.id)
            if old == "list:?" and tval.startswith("list:"):
                pass
            self.types[tgt.id] = tval
            if val == "@@NIL@@":
                val = "@@NIL:%s@@" % tgt.id       # typed once the first append fixes the element type
            return "let %s := %s in\n  %s" % (tgt.id, val, cont())
        if isinstance(tgt, ast.Subscript) and isinstance(tgt.value, ast.Name) and not isinstance(tgt.slice, (ast.Slice, ast.Tuple)):
            l = tgt.value.id
            tl = self.types.get(l)
            i, ti = self.expr(tgt.slice)
            if ti != "Z":
                fail(tgt, "index type")
            if tl == "list:Z" and tval == "Z":
                v = val
            elif tl == "list:optZ" and tval == "Z":
                v = "(Some %s)" % val
            else:
                fail(tgt, "store of %s into %s" % (tval, tl))
            return "let %s := pyupd %s %s %s in\n  %s" % (l, l, i, v, cont())
        fail(tgt, "assignment target")

    def tup(self, names):
        return names[0] if len(names) == 1 else "(" + ", ".join(names) + ")"

    def pat(self, names):
        return names[0] if len(names) == 1 else "'(" + ", ".join(names) + ")"

    def block(self, stmts, k, loop=None):
        """statements followed by continuation k(); loop = (break flag name) when inside a for body that may break"""
        if not stmts:
            return k()
        s, rest = stmts[0], stmts[1:]
        cont = lambda: self.block(rest, k, loop)
        if isinstance(s, ast.Expr) and isinstance(s.value, ast.Constant) and isinstance(s.value.value, str):
            return cont()
        if isinstance(s, ast.Return):
            if rest or loop is not None or getattr(self, "in_loop", 0):
                fail(s, "return that is not the last statement of the function")
            if s.value is None:
                fail(s, "bare return")
            v, t = self.expr(s.value)
            self.ret_type = t
            return "(Some %s)" % v if self.uses_fuel else v
        if isinstance(s, ast.Break):
            if loop is None or rest:
                fail(s, "break outside the supported position")
            return "let %s := true in\n  %s" % (loop, k())
        if isinstance(s, ast.Assign):
            if len(s.targets) != 1:
                fail(s, "multiple targets")
            tg = s.targets[0]
            if isinstance(tg, ast.Tuple):
                if isinstance(s.value, ast.Tuple) and len(s.value.elts) == len(tg.elts):
                    vals = [self.expr(v) for v in s.value.elts]
                    tmps = [self.fresh("t") for _ in vals]

                    def chain(i):
                        if i == len(tg.elts):
                            return cont()
                        return self.store(tg.elts[i], tmps[i], vals[i][1], lambda: chain(i + 1))
                    head = "".join("let %s := %s in\n  " % (t, v) for t, (v, _) in zip(tmps, vals))
                    return head + chain(0)
                v, t = self.expr(s.value)
                if not t.startswith("prod:") or not all(isinstance(x, ast.Name) for x in tg.elts):
                    fail(s, "tuple assignment")
                ts = t[5:].split(",", len(tg.elts) - 1) if len(tg.elts) == 2 else fail(s, "tuple arity")
                for x, tt in zip(tg.elts, ts):
                    self.types[x.id] = tt
                return "let '(%s) := %s in\n  %s" % (", ".join(x.id for x in tg.elts), v, cont())
            v, t = self.expr(s.value)
            return self.store(tg, v, t, cont)
        if isinstance(s, ast.AugAssign) and isinstance(s.target, ast.Name):
            fake = ast.Assign(targets=[ast.Name(id=s.target.id, ctx=ast.Store())],
                              value=ast.BinOp(left=ast.Name(id=s.target.id, ctx=ast.Load()), op=s.op, right=s.value))
            ast.copy_location(fake, s); ast.fix_missing_locations(fake)
            return self.block([fake] + rest, k, loop)
        if isinstance(s, ast.Expr) and isinstance(s.value, ast.Call) and isinstance(s.value.func, ast.Attribute) \
                and s.value.func.attr == "append" and isinstance(s.value.func.value, ast.Name) and len(s.value.args) == 1 and not s.value.keywords:
            lst = s.value.func.value.id
            v, t = self.expr(s.value.args[0])
            lt = self.types.get(lst)
            if lt == "list:?":
                self.types[lst] = "list:" + t
                self.nil_types[lst] = t
            elif lt != "list:" + t:
                fail(s, "append of %s to %s" % (t, lt))
            return "let %s := (%s ++ [%s]) in\n  %s" % (lst, lst, v, cont())
        if isinstance(s, ast.Expr) and isinstance(s.value, ast.Call) and isinstance(s.value.func, ast.Attribute) \
                and s.value.func.attr == "extend" and isinstance(s.value.func.value, ast.Name) and len(s.value.args) == 1 and not s.value.keywords:
            lst = s.value.func.value.id
            v, t = self.expr(s.value.args[0])
            if self.types.get(lst) != t or not t.startswith("list:"):
                fail(s, "extend of %s by %s" % (self.types.get(lst), t))
            return "let %s := (%s ++ %s) in\n  %s" % (lst, lst, v, cont())
        if isinstance(s, ast.If):
            c, tc = self.expr(s.test)
            if tc != "bool":
                fail(s, "if condition of type %s" % tc)
            has_break = any(isinstance(n, ast.Break) for n in ast.walk(s))
            if has_break and rest:
                fail(s, "an if containing break must be the last statement of the loop body")
            A, B = self.assigned(s.body), self.assigned(s.orelse)
            before = dict(self.types)
            join = [v for v in A if v in B or v in before] + [v for v in B if v in before and v not in A]
            if has_break and loop not in join:
                join.append(loop)
            if not join:
                fail(s, "if without effect")
            saved = dict(self.types)
            a = self.block(s.body, lambda: self.tup(join), loop if has_break else None)
            ta = dict(self.types)
            self.types = dict(saved)
            b = self.block(s.orelse, lambda: self.tup(join), loop if has_break else None) if s.orelse else self.tup(join)
            tb = dict(self.types)
            self.types = dict(saved)
            for v in join:
                x, y = ta.get(v), tb.get(v)
                if x != y:
                    if x == "list:?" and y and y.startswith("list:"):
                        x = y
                    elif y == "list:?" and x and x.startswith("list:"):
                        pass
                    else:
                        fail(s, "branch types differ for %s: %s / %s" % (v, x, y))
                self.types[v] = x
            return "let %s := (if %s then %s else %s) in\n  %s" % (self.pat(join), c, a, b, cont())
        if isinstance(s, ast.For):
            if s.orelse:
                fail(s, "for-else")
            it, elt = self.iter_expr(s.iter)
            before = dict(self.types)
            if isinstance(s.target, ast.Name):
                lp = s.target.id
                self.types[s.target.id] = elt
            elif isinstance(s.target, ast.Tuple) and len(s.target.elts) == 2 and all(isinstance(x, ast.Name) for x in s.target.elts) and elt.startswith("prod:"):
                t1, t2 = elt[5:].split(",", 1)
                self.types[s.target.elts[0].id] = t1
                self.types[s.target.elts[1].id] = t2
                lp = "'(%s, %s)" % (s.target.elts[0].id, s.target.elts[1].id)
            else:
                fail(s, "loop target")
            targets = [m.id for m in ast.walk(s.target) if isinstance(m, ast.Name)]
            carried = [v for v in self.assigned(s.body) if v in before and v not in targets]
            own_break = any(isinstance(n, ast.Break) for st in s.body if not isinstance(st, (ast.For, ast.While)) for n in self.walk_no_loops(st))
            brk = self.fresh("brk") if own_break else None
            state = carried + ([brk] if brk else [])
            if not state:
                fail(s, "loop without carried state")
            if brk:
                self.types[brk] = "bool"
            self.in_loop = getattr(self, "in_loop", 0) + 1
            body = None
            for _ in range(2):          # two passes so that list:? element types settle
                snap = dict(self.types)
                body = self.block(s.body, lambda: self.tup(state), brk)
                settled = {v: self.types[v] for v in carried}
                self.types = snap
                self.types.update(settled)
            self.in_loop -= 1
            if brk:
                body = "if %s then %s else\n      %s" % (brk, self.tup(state), body)
            for n in list(self.types):
                if n not in before:
                    del self.types[n]
            for v in carried:
                self.types[v] = settled[v]
            init = self.tup(carried + (["false"] if brk else []))
            st_t = " * ".join(ctype(settled[v]) for v in carried) + (" * bool" if brk and carried else ("bool" if brk else ""))
            sv, xv = self.fresh("st"), self.fresh("x")
            return "let %s := fold_left (fun (%s : %s) (%s : %s) =>\n      let %s := %s in let %s := %s in\n      %s) %s %s in\n  %s" % (
                self.pat(state), sv, st_t, xv, ctype(elt), self.pat(state), sv, lp, xv, body, it, init, cont())
        if isinstance(s, ast.While):
            return self.while_(s, rest, k, loop)
        fail(s, "statement")

    def walk_no_loops(self, node):
        yield node
        for ch in ast.iter_child_nodes(node):
            if isinstance(ch, (ast.For, ast.While)):
                continue
            yield from self.walk_no_loops(ch)

    def while_(self, s, rest, k, loop):
        if s.orelse or loop is not None or getattr(self, "in_loop", 0):
            fail(s, "while in an unsupported position")
        t = s.test
        x = None
        if isinstance(t, ast.UnaryOp) and isinstance(t.op, ast.Not) and isinstance(t.operand, ast.Compare) and len(t.operand.ops) == 1 \
                and isinstance(t.operand.ops[0], ast.Is) and isinstance(t.operand.left, ast.Name) \
                and isinstance(t.operand.comparators[0], ast.Constant) and t.operand.comparators[0].value is None:
            x = t.operand.left.id
        elif isinstance(t, ast.Compare) and len(t.ops) == 1 and isinstance(t.ops[0], ast.IsNot) and isinstance(t.left, ast.Name) \
                and isinstance(t.comparators[0], ast.Constant) and t.comparators[0].value is None:
            x = t.left.id
        if x is None or self.types.get(x) != "option:Z":
            fail(s, "while condition must be `not X is None` for an option-valued variable X")
        before = dict(self.types)
        carried = [v for v in self.assigned(s.body) if v in before]
        if x not in carried:
            fail(s, "loop variable %s is not updated in the loop" % x)
        used = {n.id for st in s.body for n in ast.walk(st) if isinstance(n, ast.Name)}
        extra = [v for v in before if v in used and v not in carried]
        name = "%s_loop" % self.coq_name
        self.in_loop = 1
        self.types[x] = "Z"             # narrowed by the loop condition
        body = self.block(s.body, lambda: "%s fuel' %s" % (name, " ".join(extra + carried)))
        self.in_loop = 0
        for v in carried:
            if self.types.get(v) != before[v]:
                fail(s, "loop-carried variable %s changes type %s -> %s" % (v, before[v], self.types.get(v)))
        self.types = dict(before)
        params = " ".join("(%s : %s)" % (v, ctype(before[v])) for v in extra + carried)
        rtype = " * ".join(ctype(before[v]) for v in carried)
        xv = x
        self.aux.append(
            "Fixpoint %s (fuel : nat) %s {struct fuel} : option (%s) :=\n  match fuel with\n  | O => None\n  | S fuel' =>\n"
            "    match %s with\n    | None => Some %s\n    | Some %s =>\n  %s\n    end\n  end." % (
                name, params, rtype, x, self.tup(carried), xv, body))
        after = self.block(rest, k, None)
        return "match %s fuel %s with\n  | None => None\n  | Some %s =>\n  %s\n  end" % (name, " ".join(extra + carried), self.tup(carried).replace("(", "(", 1), after)

    # ------------------------------------------------------------------ whole function
    def match_pairs_tail(self, body):
        """... M = np.zeros((E, E)); for p in L: M[p[0], p[1]] = 1; return M   ->   (E, L)"""
        if len(body) < 3:
            fail(self.f, "pairs tail")
        z, lp, rt = body[-3:]
        ok = isinstance(z, ast.Assign) and len(z.targets) == 1 and isinstance(z.targets[0], ast.Name) \
            and isinstance(z.value, ast.Call) and ast.unparse(z.value.func) == "np.zeros" and len(z.value.args) == 1 and not z.value.keywords \
            and isinstance(z.value.args[0], ast.Tuple) and len(z.value.args[0].elts) == 2 \
            and ast.dump(z.value.args[0].elts[0]) == ast.dump(z.value.args[0].elts[1])
        if not ok:
            fail(z, "pairs tail: np.zeros((E, E)) expected")
        M = z.targets[0].id
        ok = isinstance(lp, ast.For) and isinstance(lp.target, ast.Name) and isinstance(lp.iter, ast.Name) and not lp.orelse and len(lp.body) == 1
        if ok:
            p = lp.target.id
            a = lp.body[0]
            want = "%s[%s[0], %s[1]] = 1" % (M, p, p)
            ok = isinstance(a, ast.Assign) and ast.unparse(a) == want
        if not ok:
            fail(lp, "pairs tail: `for p in L: M[p[0], p[1]] = 1` expected")
        if not (isinstance(rt, ast.Return) and isinstance(rt.value, ast.Name) and rt.value.id == M):
            fail(rt, "pairs tail: return of the matrix expected")
        if any(isinstance(n, ast.Name) and n.id == M for st in body[:-3] for n in ast.walk(st)):
            fail(z, "pairs tail: matrix name used earlier")
        new_ret = ast.Return(value=ast.Tuple(elts=[z.value.args[0].elts[0], ast.Name(id=lp.iter.id, ctx=ast.Load())], ctx=ast.Load()))
        ast.copy_location(new_ret, rt); ast.fix_missing_locations(new_ret)
        return body[:-3] + [new_ret]

    def check_starred(self, node):
        if ast.unparse(node) in self.abstr:
            return
        if isinstance(node, ast.Starred):
            fail(node, "construct outside the subset")
        for ch in ast.iter_child_nodes(node):
            self.check_starred(ch)

    def translate(self):
        f = self.f
        for st in f.body:
            self.check_starred(st)
        names = [a.arg for a in f.args.args]
        if f.args.vararg and not (self.allow_vararg and f.args.vararg.arg == self.allow_vararg):
            fail(f, "parameter list (*args)")
        if f.args.kwarg or f.args.kwonlyargs or f.args.defaults:
            fail(f, "parameter list")
        if names != [p for p, _ in self.params]:
            fail(f, "parameters %s, expected %s" % (names, [p for p, _ in self.params]))
        plist = []
        for src, (nm, t) in self.abstr.items():
            self.types[nm] = t
            plist.append("(%s : %s)" % (nm, ctype(t)))
        for p, t in self.params:
            self.types[p] = t
            plist.append("(%s : %s)" % (p, ctype(t)))
            if p in self.shapes:
                for sname in self.shapes[p]:
                    self.types[sname] = "Z"
                    plist.append("(%s : Z)" % sname)
        body = list(f.body)
        if self.pairs_tail:
            body = self.match_pairs_tail(body)
        self.ret_type = None
        txt = self.block(body, lambda: fail(f, "function falls off its end"))
        import re
        def nil(m):
            v = m.group(1)
            if v not in self.nil_types:
                raise Unsupported("element type of the empty list %s is never fixed by an append" % v)
            return "(@nil (%s))" % ctype(self.nil_types[v])
        txt = re.sub(r"@@NIL:(\w+)@@", nil, txt)
        if "@@NIL" in txt or any("@@NIL" in a for a in self.aux):
            raise Unsupported("empty list literal in an unsupported position")
        fuel = "(fuel : nat) " if self.uses_fuel else ""
        out = "\n".join(self.aux)
        out += ("\n" if self.aux else "") + "Definition %s %s%s :=\n  %s." % (self.coq_name, fuel, " ".join(plist), txt)
        return out, self.ret_type


class SliceFn(Fn):
    """translate the slice of an object-level function that feeds the constructor arguments picked by `pick(fdef)`"""

    def __init__(self, fdef, coq_name, abstr, abstr_index, paircalls, pick, opnames, abstr_calls=None, wrapcalls=None, embcall=None):
        Fn.__init__(self, fdef, [], coq_name, {})
        self.abstr, self.abstr_index, self.paircalls = abstr, abstr_index, paircalls
        self.abstr_calls, self.wrapcalls, self.embcall = abstr_calls or {}, wrapcalls or {}, embcall
        self.pick, self.opnames = pick, opnames

    def names_of(self, node):
        """variable names read / written by a statement; the extra (context) arguments of the opaque pair calls do not count"""
        out = set()

        def go(n):
            if ast.unparse(n) in self.abstr:
                return
            if isinstance(n, ast.Call) and ast.unparse(n.func) in self.paircalls:
                for a in n.args[:2]:
                    go(a)
                return
            if isinstance(n, ast.Call) and self.embcall and ast.unparse(n.func) == self.embcall:
                for a in n.args[2:4]:
                    go(a)
                return
            if isinstance(n, ast.Call) and ast.unparse(n.func) in self.wrapcalls:
                k = self.wrapcalls[ast.unparse(n.func)]
                if len(n.args) > k:
                    go(n.args[k])
                return
            if isinstance(n, ast.Call) and ast.unparse(n.func) in self.abstr_calls:
                for a in n.args:
                    go(a)
                return
            if isinstance(n, ast.Call) and ast.unparse(n.func) == "np.sqrt":
                for a in n.args:
                    go(a)
                return
            if isinstance(n, ast.Call) and isinstance(n.func, ast.Name):
                for a in list(n.args) + [k.value for k in n.keywords]:
                    go(a)
                return
            if isinstance(n, ast.Name):
                out.add(n.id)
            for ch in ast.iter_child_nodes(n):
                go(ch)
        go(node)
        return out

    def mentions(self, node, names):
        return bool(self.names_of(node) & names)

    def translate(self):
        f = self.f
        if [a.arg for a in f.args.args] != self.opnames or f.args.vararg or f.args.kwarg or f.args.kwonlyargs or f.args.defaults:
            fail(f, "parameters, expected %s" % self.opnames)
        results = self.pick(f)                       # list of ast expressions (constructor arguments)
        # the operands are only read, through the abstracted attributes
        for n in ast.walk(f):
            if isinstance(n, ast.Call) and isinstance(n.func, ast.Attribute):
                base = ast.unparse(n.func.value)
                if ast.unparse(n) in self.abstr or ast.unparse(n.func) in self.abstr_calls:
                    continue            # a read-only accessor that is abstracted as a whole
                if base in self.abstr or base in self.abstr_index or base in self.opnames:
                    fail(n, "method call on an operand / abstracted attribute")
            if isinstance(n, (ast.Assign, ast.AugAssign)):
                for t in (n.targets if isinstance(n, ast.Assign) else [n.target]):
                    for m in ast.walk(t):
                        if isinstance(m, ast.Name) and m.id in self.opnames:
                            fail(n, "assignment to / through an operand")
        tracked = set()
        for r in results:
            tracked |= {n.id for n in ast.walk(r) if isinstance(n, ast.Name)}
        tracked -= set(self.opnames)
        body = [st for st in f.body if not (isinstance(st, ast.Expr) and isinstance(st.value, ast.Constant))]
        if not isinstance(body[-1], ast.Return):
            fail(f, "last statement must be the return")
        changed = True
        while changed:
            changed = False
            for st in body[:-1]:
                writes = set(self.assigned([st]))
                if writes & tracked:
                    new = self.names_of(st) - set(self.opnames) - tracked
                    if new:
                        tracked |= new
                        changed = True
        kept = [st for st in body[:-1] if self.mentions(st, tracked) and not any(st is x for x in self.ctor_stmts)]
        for st in kept:
            if not (set(self.assigned([st])) & tracked):
                fail(st, "statement mentions tracked names %s without defining one (aliasing?)" % sorted(tracked))
        ret = ast.Return(value=results[0] if len(results) == 1 else ast.Tuple(elts=list(results), ctx=ast.Load()))
        ast.copy_location(ret, body[-1]); ast.fix_missing_locations(ret)
        plist = []
        for src, (nm, t) in list(self.abstr.items()) + list(self.abstr_index.items()) + list(self.abstr_calls.items()):
            self.types[nm] = t
            plist.append("(%s : %s)" % (nm, ctype(t)))
        self.ret_type = None
        txt = self.block(kept + [ret], lambda: fail(f, "function falls off its end"))
        import re
        def nil(m):
            v = m.group(1)
            if v not in self.nil_types:
                raise Unsupported("element type of the empty list %s is never fixed by an append" % v)
            return "(@nil (%s))" % ctype(self.nil_types[v])
        txt = re.sub(r"@@NIL:(\w+)@@", nil, txt)
        if "@@NIL" in txt:
            raise Unsupported("empty list literal in an unsupported position")
        return "Definition %s %s :=\n  %s." % (self.coq_name, " ".join(plist), txt), self.ret_type


def ctor_call(node, cname):
    return isinstance(node, ast.Call) and ast.unparse(node.func) == cname


def pick_mprocess(self_holder):
    """return NAME / NAME = MProcess(c_sys, HSS, shape=SHAPE, ...)  ->  [HSS, SHAPE]"""
    def pick(f):
        body = f.body
        rt = body[-1]
        if not (isinstance(rt, ast.Return) and isinstance(rt.value, ast.Name)):
            fail(rt, "return of a name expected")
        defs = [st for st in body if isinstance(st, ast.Assign) and len(st.targets) == 1 and isinstance(st.targets[0], ast.Name) and st.targets[0].id == rt.value.id]
        if len(defs) != 1 or not ctor_call(defs[0].value, "MProcess"):
            fail(rt, "the returned name must be bound exactly once, to MProcess(...)")
        c = defs[0].value
        kw = {k.arg: k.value for k in c.keywords}
        if len(c.args) != 2 or "shape" not in kw:
            fail(c, "MProcess(c_sys, hss, shape=...) expected")
        self_holder.append(defs[0])
        return [c.args[1], kw["shape"]]
    return pick


def pick_ctor(cname, kws):
    """return NAME with NAME = <cname>(c_sys_qubits, PAYLOAD, kw=...)  ->  [PAYLOAD] + [kw values]"""
    def mk(self_holder):
        def pick(f):
            body = f.body
            rt = body[-1]
            if not (isinstance(rt, ast.Return) and isinstance(rt.value, ast.Name)):
                fail(rt, "return of a name expected")
            defs = [st for st in body if isinstance(st, ast.Assign) and len(st.targets) == 1 and isinstance(st.targets[0], ast.Name) and st.targets[0].id == rt.value.id]
            if len(defs) != 1 or not ctor_call(defs[0].value, cname):
                fail(rt, "the returned name must be bound exactly once, to %s(...)" % cname)
            c = defs[0].value
            kw = {k.arg: k.value for k in c.keywords}
            if len(c.args) != 2 or not (isinstance(c.args[0], ast.Name) and c.args[0].id == "c_sys_qubits") or any(k not in kw for k in kws):
                fail(c, "%s(c_sys_qubits, payload, %s...) expected" % (cname, "".join(k + "=, " for k in kws)))
            self_holder.append(defs[0])
            return [c.args[1]] + [kw[k] for k in kws]
        return pick
    return mk


def pick_two(cname):
    """return NAME with NAME = <cname>(C_SYS, PAYLOAD, kw=...)  ->  [C_SYS, PAYLOAD]"""
    def mk(self_holder):
        def pick(f):
            rt = f.body[-1]
            if not (isinstance(rt, ast.Return) and isinstance(rt.value, ast.Name)):
                fail(rt, "return of a name expected")
            defs = [st for st in f.body if isinstance(st, ast.Assign) and len(st.targets) == 1 and isinstance(st.targets[0], ast.Name) and st.targets[0].id == rt.value.id]
            if len(defs) != 1 or not ctor_call(defs[0].value, cname) or len(defs[0].value.args) != 2:
                fail(rt, "the returned name must be bound exactly once, to %s(c_sys, payload, ...)" % cname)
            self_holder.append(defs[0])
            return list(defs[0].value.args)
        return pick
    return mk


def pick_ensemble(self_holder):
    """return StateEnsemble(STATES, MD) with MD = MultinomialDistribution(PS, shape=SHAPE)  ->  [STATES, PS, SHAPE]"""
    def pick(f):
        body = f.body
        rt = body[-1]
        if not (isinstance(rt, ast.Return) and ctor_call(rt.value, "StateEnsemble") and len(rt.value.args) == 2 and not rt.value.keywords
                and isinstance(rt.value.args[1], ast.Name)):
            fail(rt, "return StateEnsemble(states, md) expected")
        md = rt.value.args[1].id
        defs = [st for st in body if isinstance(st, ast.Assign) and len(st.targets) == 1 and isinstance(st.targets[0], ast.Name) and st.targets[0].id == md]
        if len(defs) != 1 or not ctor_call(defs[0].value, "MultinomialDistribution"):
            fail(rt, "the distribution must be bound exactly once, to MultinomialDistribution(...)")
        c = defs[0].value
        kw = {k.arg: k.value for k in c.keywords}
        if len(c.args) != 1 or set(kw) != {"shape"}:
            fail(c, "MultinomialDistribution(ps, shape=...) expected")
        self_holder.append(defs[0])
        return [rt.value.args[0], c.args[0], kw["shape"]]
    return pick


TYPE_CODES = {"Gate": 0, "MProcess": 1, "SparseMatrixBasis": 2, "MatrixBasis": 3, "State": 4, "StateEnsemble": 5, "Povm": 6}
CALLEE_CODES = {"_tensor_product_Gate_Gate": 0, "_tensor_product_Gate_MProcess": 1, "_tensor_product_MProcess_Gate": 2,
                "_tensor_product_MProcess_MProcess": 3, "_tensor_product_State_State": 4,
                "_tensor_product_StateEnsemble_StateEnsemble": 5, "_tensor_product_Povm_Povm": 6}


def translate_dispatch(f):
    """_tensor_product(elem1, elem2): one if / elif chain on the exact types of the two operands.
    -> gen_tp_dispatch (t1 t2 : Z) : option Z   (type codes TYPE_CODES; action codes: CALLEE_CODES = `return F(elem1, elem2)`,
    10 / 11 = basis of all matrix_util.kron(v1, v2) over itertools.product(elem1, elem2) as Sparse / dense MatrixBasis,
    20 = StateEnsemble([tensor_product(elem1, s) for s in elem2.states], elem2.prob_dist), 21 = the mirror image; None = TypeError)"""
    if [a.arg for a in f.args.args] != ["elem1", "elem2"] or f.args.vararg or f.args.kwarg or f.args.defaults:
        fail(f, "parameters")
    body = [st for st in f.body if not (isinstance(st, ast.Expr) and isinstance(st.value, ast.Constant))]
    if len(body) != 1 or not isinstance(body[0], ast.If):
        fail(f, "body must be a single if / elif chain")

    def tycode(e, who):
        ok = isinstance(e, ast.Compare) and len(e.ops) == 1 and isinstance(e.ops[0], ast.Eq) and ast.unparse(e.left) == "type(%s)" % who \
            and isinstance(e.comparators[0], ast.Name) and e.comparators[0].id in TYPE_CODES
        if not ok:
            fail(e, "type test on %s" % who)
        return TYPE_CODES[e.comparators[0].id]

    def action(stmts):
        stmts = [st for st in stmts if not (isinstance(st, ast.Expr) and isinstance(st.value, ast.Constant))]
        src = [ast.unparse(st) for st in stmts]
        if len(stmts) == 1 and isinstance(stmts[0], ast.Return) and isinstance(stmts[0].value, ast.Call):
            c = stmts[0].value
            fn = ast.unparse(c.func)
            if fn in CALLEE_CODES and not c.keywords and [ast.unparse(a) for a in c.args] == ["elem1", "elem2"]:
                return CALLEE_CODES[fn]
        for cls, code in (("SparseMatrixBasis", 10), ("MatrixBasis", 11)):
            if len(stmts) == 3 and src[0].replace(" ", "") == "new_basis=[matrix_util.kron(val1,val2)forval1,val2initertools.product(elem1,elem2)]" \
                    and src[1] == "m_basis = %s(new_basis)" % cls and src[2] == "return m_basis":
                return code
        if src == ["new_states = [tensor_product(elem1, state) for state in elem2.states]", "return StateEnsemble(new_states, elem2.prob_dist)"]:
            return 20
        if src == ["new_states = [tensor_product(state, elem2) for state in elem1.states]", "return StateEnsemble(new_states, elem1.prob_dist)"]:
            return 21
        fail(stmts[0], "branch body outside the known shapes")

    branches = []
    node = body[0]
    while True:
        t = node.test
        if not (isinstance(t, ast.BoolOp) and isinstance(t.op, ast.And) and len(t.values) == 2):
            fail(t, "branch condition must be `type(elem1) == A and type(elem2) == B`")
        branches.append((tycode(t.values[0], "elem1"), tycode(t.values[1], "elem2"), action(node.body)))
        if len(node.orelse) == 1 and isinstance(node.orelse[0], ast.If):
            node = node.orelse[0]
            continue
        if not (len(node.orelse) == 1 and isinstance(node.orelse[0], ast.Raise) and ast.unparse(node.orelse[0].exc).startswith("TypeError(")):
            fail(node, "the chain must end with `else: raise TypeError(...)`")
        break
    txt = "Definition gen_tp_dispatch (t1 t2 : Z) : option Z :=\n"
    for a, b, code in branches:
        txt += "  if ((t1 =? %d) && (t2 =? %d))%%Z%%bool then Some (%d)%%Z else\n" % (a, b, code)
    return txt + "  None."


def translate_to_list(f):
    """_to_list(*elements): flatten list arguments one level, reject fewer than N operands.
    Accepted shape (everything else fails): `L = []`; `for e in elements: if type(e) == list: L.extend(e) | L.append(e)  else: ...`;
    `if len(L) <op> <int>: raise ValueError(...)`; optional `assert ...` (no effect when the guard did not raise); `return L`.
    -> gen_to_list (elements : list parg) : option (list ptree)   (None = ValueError)"""
    if f.args.args or not f.args.vararg or f.args.kwarg or f.args.kwonlyargs or f.args.defaults:
        fail(f, "parameters: exactly *args expected")
    va = f.args.vararg.arg
    body = [st for st in f.body if not (isinstance(st, ast.Expr) and isinstance(st.value, ast.Constant))]
    if len(body) not in (4, 5):
        fail(f, "body shape")
    init, loop, guard = body[0], body[1], body[2]
    rest = body[3:]
    if not (isinstance(init, ast.Assign) and len(init.targets) == 1 and isinstance(init.targets[0], ast.Name) and ast.unparse(init.value) == "[]"):
        fail(init, "`L = []` expected")
    L = init.targets[0].id
    if not (isinstance(loop, ast.For) and isinstance(loop.target, ast.Name) and ast.unparse(loop.iter) == va and not loop.orelse
            and len(loop.body) == 1 and isinstance(loop.body[0], ast.If) and len(loop.body[0].orelse) == 1 and len(loop.body[0].body) == 1):
        fail(loop, "`for e in %s: if ...: ... else: ...` expected" % va)
    e = loop.target.id
    test = loop.body[0].test
    if ast.unparse(test) != "type(%s) == list" % e:
        fail(test, "`type(%s) == list` expected" % e)

    def act(st):
        src = ast.unparse(st)
        if src == "%s.extend(%s)" % (L, e):
            return "extend"
        if src == "%s.append(%s)" % (L, e):
            return "append"
        fail(st, "`%s.extend(%s)` or `%s.append(%s)` expected" % (L, e, L, e))
    on_list, on_item = act(loop.body[0].body[0]), act(loop.body[0].orelse[0])
    if on_item == "extend":
        fail(loop, "extend of a non-list operand (iterates over the object)")
    if not (isinstance(guard, ast.If) and not guard.orelse and len(guard.body) == 1 and isinstance(guard.body[0], ast.Raise)
            and ast.unparse(guard.body[0].exc).startswith("ValueError(") and isinstance(guard.test, ast.Compare) and len(guard.test.ops) == 1
            and ast.unparse(guard.test.left) == "len(%s)" % L and isinstance(guard.test.comparators[0], ast.Constant)
            and type(guard.test.comparators[0].value) is int):
        fail(guard, "`if len(%s) <op> <int>: raise ValueError(...)` expected" % L)
    ops = {ast.Lt: "<?", ast.LtE: "<=?", ast.Gt: ">?", ast.GtE: ">=?", ast.Eq: "=?"}
    if type(guard.test.ops[0]) not in ops:
        fail(guard, "comparison operator")
    cmp_ = "(Z.of_nat (length %s) %s %d)%%Z" % (L, ops[type(guard.test.ops[0])], guard.test.comparators[0].value)
    if len(rest) == 2:
        if not isinstance(rest[0], ast.Assert):
            fail(rest[0], "assert expected")
        rest = rest[1:]
    if not (isinstance(rest[0], ast.Return) and ast.unparse(rest[0].value) == L):
        fail(rest[0], "`return %s` expected" % L)
    # a list operand: extend = its elements, append = the list itself as ONE operand (a nested list is not an operand of the product)
    if on_list == "append":
        fail(loop, "a list operand appended as one element")
    return ("Definition gen_to_list (elements : list parg) : option (list ptree) :=\n"
            "  let %s := fold_left (fun (acc : list ptree) (%s : parg) =>\n"
            "      match %s with AList l_ => acc ++ l_ | AItem t_ => acc ++ [t_] end) elements [] in\n"
            "  if %s then None else Some %s." % (L, e, e, cmp_, L))


def find_function(tree, name, cls=None):
    scope = tree
    if cls:
        scope = next((n for n in ast.walk(tree) if isinstance(n, ast.ClassDef) and n.name == cls), None)
        if scope is None:
            raise Unsupported("class %s not found" % cls)
    for n in ast.walk(scope):
        if isinstance(n, ast.FunctionDef) and n.name == name:
            return n
    raise Unsupported("function %s not found" % name)


HEADER = """(* GENERATED by /verif/gen/c07_py2coq.py from the current source of quara — do not edit, not committed. *)
From Coq Require Import ZArith List Bool.
From QV.Model Require Import C07_PySym.
From QVGen Require Import Gen_cross_position.
Import ListNotations.
"""


def main():
    repo, outpath = sys.argv[1], sys.argv[2]
    try:
        mu = ast.parse(open(os.path.join(repo, "quara/utils/matrix_util.py")).read())
        qo = ast.parse(open(os.path.join(repo, "quara/objects/qoperation.py")).read())
        known = {"_check_cross_system_position": ("gen_check_cross_system_position", ["list:Z"], "option:Z")}
        out = [HEADER]
        f1 = Fn(find_function(mu, "_left_permutation_matrix"), [("position", "Z"), ("size_list", "list:Z")], "gen_left_permutation_matrix", known)
        t1, r1 = f1.translate()
        if r1 != "sym":
            raise Unsupported("_left_permutation_matrix returns %s" % r1)
        out += ["(* from quara/utils/matrix_util.py : _left_permutation_matrix *)", t1, ""]
        known = dict(known)
        known["_left_permutation_matrix"] = ("gen_left_permutation_matrix", ["Z", "list:Z"], "sym")
        f2 = Fn(find_function(mu, "calc_permutation_matrix"), [("system_order", "list:Z"), ("size_list", "list:Z")], "gen_calc_permutation_matrix", known)
        t2, r2 = f2.translate()
        if r2 != "sym" or not f2.uses_fuel:
            raise Unsupported("calc_permutation_matrix: result %s, while loop %s" % (r2, f2.uses_fuel))
        out += ["(* from quara/utils/matrix_util.py : calc_permutation_matrix *)", t2, ""]
        f3 = Fn(find_function(mu, "convert_list_by_permutation_matrix"), [("old_list", "list:Z"), ("permutation_matrix", "matfun")],
                "gen_convert_list_by_permutation_matrix", {}, shapes={"permutation_matrix": ("n_rows", "n_cols")})
        t3, r3 = f3.translate()
        if r3 != "list:optZ":
            raise Unsupported("convert_list_by_permutation_matrix returns %s" % r3)
        out += ["(* from quara/utils/matrix_util.py : convert_list_by_permutation_matrix *)", t3, ""]
        f4 = Fn(find_function(qo, "_permutation_matrix_from_qutrits_to_qubits", cls="QOperation"), [("num_qutrits", "Z")],
                "gen_embed_pairs", {}, pairs_tail=True)
        t4, r4 = f4.translate()
        if r4 != "prod:Z,list:prod:Z,Z":
            raise Unsupported("_permutation_matrix_from_qutrits_to_qubits returns %s" % r4)
        out += ["(* from quara/objects/qoperation.py : QOperation._permutation_matrix_from_qutrits_to_qubits (index pairs) *)", t4, ""]
        ops = ast.parse(open(os.path.join(repo, "quara/objects/operators.py")).read())
        hs_pair = {"_tensor_product_hs_hs": 3}
        table = [
            ("_tensor_product_Gate_MProcess", "gen_tp_gate_mprocess", {"elem1.hs": ("hs1", "Z"), "elem2.hss": ("hss2", "list:Z"), "elem2.shape": ("shape2", "list:Z")}, {}, hs_pair, pick_mprocess, "prod:list:prod:Z,Z,list:Z"),
            ("_tensor_product_MProcess_Gate", "gen_tp_mprocess_gate", {"elem1.hss": ("hss1", "list:Z"), "elem1.shape": ("shape1", "list:Z"), "elem2.hs": ("hs2", "Z")}, {}, hs_pair, pick_mprocess, "prod:list:prod:Z,Z,list:Z"),
            ("_tensor_product_MProcess_MProcess", "gen_tp_mprocess_mprocess", {"elem1.hss": ("hss1", "list:Z"), "elem1.shape": ("shape1", "list:Z"), "elem2.hss": ("hss2", "list:Z"), "elem2.shape": ("shape2", "list:Z")}, {}, hs_pair, pick_mprocess, "prod:list:prod:Z,Z,list:Z"),
            ("_tensor_product_StateEnsemble_StateEnsemble", "gen_tp_ensemble_ensemble",
             {"elem1.states": ("states1", "list:Z"), "elem2.states": ("states2", "list:Z"), "elem1.prob_dist.shape": ("pshape1", "list:Z"), "elem2.prob_dist.shape": ("pshape2", "list:Z")},
             {"elem1.prob_dist": ("ps1", "list:Z"), "elem2.prob_dist": ("ps2", "list:Z")}, {"tensor_product": 2}, pick_ensemble, "prod:list:prod:Z,Z,list:Z,list:Z"),
        ]
        for pyname, coq_name, abstr, abstr_index, pairs, picker, rtype in table:
            holder = []
            fn = SliceFn(find_function(ops, pyname), coq_name, abstr, abstr_index, pairs, picker(holder), ["elem1", "elem2"])
            fn.ctor_stmts = holder
            t, r = fn.translate()
            if r != rtype:
                raise Unsupported("%s returns %s, expected %s" % (pyname, r, rtype))
            out += ["(* from quara/objects/operators.py : %s (slice: HS / state pairs in list order, reported shape) *)" % pyname, t, ""]
        out += ["(* from quara/objects/operators.py : _tensor_product (type dispatch) *)", translate_dispatch(find_function(ops, "_tensor_product")), ""]
        out += ["(* from quara/objects/operators.py : _to_list (flattening of list arguments, arity guard) *)", translate_to_list(find_function(ops, "_to_list")), ""]
        ff = Fn(find_function(ops, "tensor_product"), [], "gen_tensor_product", {})
        ff.allow_vararg = "elements"
        ff.abstr = {"_to_list(*elements)": ("element_list_in", "list:ptree")}
        ff.treecalls = {"_tensor_product"}
        tf, rf = ff.translate()
        if rf != "ptree":
            raise Unsupported("tensor_product returns %s" % rf)
        out += ["(* from quara/objects/operators.py : tensor_product (fold over the flattened argument list) *)", tf, ""]
        fh = Fn(find_function(ops, "_tensor_product_hs_hs"), [("hs1", "Z"), ("hs2", "Z"), ("e_sys_list", "list:prod:Z,Z")], "gen_tensor_product_hs_hs", {})
        fh.esys_mode = True
        fh.abstr = {"hs1.flatten()": ("f1", "Z"), "hs2.flatten()": ("f2", "Z"), "hs1.shape[0]": ("d1_in", "Z"), "hs2.shape[0]": ("d2_in", "Z")}
        th, rh = fh.translate()
        if rh != "conj":
            raise Unsupported("_tensor_product_hs_hs returns %s" % rh)
        out += ["(* from quara/objects/operators.py : _tensor_product_hs_hs (symbolic: vectorisation order, re-indexing permutation, reshape, subsystem permutation) *)", th, ""]
        ptable = [
            ("_tensor_product_State_State", "gen_tp_state_state", ["state1", "state2"], "State",
             {"state1.composite_system.elemental_systems": ("es1", "list:prod:Z,Z"), "state2.composite_system.elemental_systems": ("es2", "list:prod:Z,Z"),
              "state1.vec": ("v1", "Z"), "state2.vec": ("v2", "Z")}, "prod:list:prod:Z,Z,applied"),
            ("_tensor_product_Gate_Gate", "gen_tp_gate_gate", ["gate1", "gate2"], "Gate",
             {"gate1.composite_system._elemental_systems": ("es1", "list:prod:Z,Z"), "gate2.composite_system._elemental_systems": ("es2", "list:prod:Z,Z"),
              "gate1.hs": ("h1", "Z"), "gate2.hs": ("h2", "Z")}, "prod:list:prod:Z,Z,hsprod"),
        ]
        for pyname, coq_name, opn, cname, abstr, rtype in ptable:
            holder = []
            fn = SliceFn(find_function(ops, pyname), coq_name, abstr, {}, {}, pick_two(cname)(holder), opn, wrapcalls={"CompositeSystem": 0})
            fn.esys_mode = True
            fn.ctor_stmts = holder
            t, r = fn.translate()
            if r != rtype:
                raise Unsupported("%s returns %s, expected %s" % (pyname, r, rtype))
            out += ["(* from quara/objects/operators.py : %s (slice: subsystem list, permutation request, operand order) *)" % pyname, t, ""]
        emb = "QOperation._calc_matrix_from_qutrits_to_qubits"
        etable = [
            ("quara/objects/state.py", "State", "gen_embed_state", {"self.to_density_matrix_with_sparsity()": ("rho", "Z")}, {},
             {"to_vec_from_density_matrix_with_sparsity": 1}, pick_ctor("State", []), "prod:Z,coef"),
            ("quara/objects/povm.py", "Povm", "gen_embed_povm", {"self.matrices_with_sparsity()": ("mats", "list:Z")}, {},
             {"to_vecs_from_matrices_with_sparsity": 1}, pick_ctor("Povm", []), "list:prod:Z,coef"),
            ("quara/objects/gate.py", "Gate", "gen_embed_gate", {"self.to_kraus_matrices()": ("kraus", "list:Z")}, {},
             {"to_hs_from_kraus_matrices": 1}, pick_ctor("Gate", []), "list:prod:Z,coef"),
            ("quara/objects/mprocess.py", "MProcess", "gen_embed_mprocess", {"self.hss": ("self_hss", "list:Z"), "self.shape": ("self_shape", "list:Z")},
             {"self.to_kraus_matrices": ("krausf", "fun:Z->list:Z")}, {"to_hs_from_kraus_matrices": 1}, pick_ctor("MProcess", ["shape"]),
             "prod:list:list:prod:Z,coef,list:Z"),
        ]
        for path, cls, coq_name, abstr, acalls, wraps, picker, rtype in etable:
            tree = ast.parse(open(os.path.join(repo, path)).read())
            holder = []
            fn = SliceFn(find_function(tree, "_embed_qoperation_from_qutrits_to_qubits", cls=cls), coq_name, abstr, {}, {}, picker(holder),
                         ["self", "perm_matrix", "c_sys_qubits"], abstr_calls=acalls, wrapcalls=wraps, embcall=emb)
            fn.ctor_stmts = holder
            t, r = fn.translate()
            if r != rtype:
                raise Unsupported("%s._embed_qoperation_from_qutrits_to_qubits returns %s, expected %s" % (cls, r, rtype))
            out += ["(* from %s : %s._embed_qoperation_from_qutrits_to_qubits (slice: embedded matrices with their padding coefficient) *)" % (path, cls), t, ""]
    except Unsupported as e:
        print("UNSUPPORTED: %s" % e)
        sys.exit(3)
    open(outpath, "w").write("\n".join(out))
    print("ok: 18 functions -> %s" % outpath)


if __name__ == "__main__":
    main()
