#!/usr/bin/env python3
"""Fail-closed translator for the decision logic of quara's projection-closure factories (property C04): Python `ast` -> Gallina
over the value semantics of coq/theories/Model/C04_PySem.v.      usage: c04_py2coq.py <repo> <out.v>

Translated on every run from the CURRENT source of quara/objects/qoperation.py, class QOperation:
    func_calc_proj_eq_constraint, func_calc_proj_eq_constraint_with_var,
    func_calc_proj_ineq_constraint, func_calc_proj_ineq_constraint_with_var,
    func_calc_proj_physical, func_calc_proj_physical_with_var
and of quara/objects/mprocess.py, MProcess.calc_proj_ineq_constraint_with_var (the assembly rule of the result vector).

For every factory <f> the output defines
    gen_<f>_flags    : option bool -> bool -> list pyval   the VALUE of every `on_para_eq_constraint=<expr>` keyword argument inside the returned
                                                          closure, as a function of the requested flag (None / True / False) and of the object's own flag,
                                                          computed by symbolic execution of the factory's prologue with Python's value semantics
                                                          (`is None`, `is not None`, `or`, `and`, `not`, `x if c else y`, == / != against constants);
    gen_<f>_forwards : list (string * bool)                for every other parameter p of the factory (and for `self.eps_truncate_imaginary_part` where the
                                                          callee takes it): does some call made by the factory / the closure receive it as `p=p`
                                                          (or positionally, for `set_mode_proj_order(mode_proj_order)`);
    gen_<f>_callees  : list string                         the method names called inside the closure, in order of first occurrence.
For MProcess.calc_proj_ineq_constraint_with_var:
    gen_mp_ineq_delete : bool -> Z -> Z -> bool           the condition under which the first block of a projected HS matrix is deleted (flag, hs_index, number of hss)
    gen_mp_ineq_slice  : Z -> Z * Z                        the deleted slice (start, stop) as a function of dim
    gen_mp_ineq_callee_flag : pyval                        the on_para_eq_constraint value handed to Gate.calc_proj_ineq_constraint_with_var (a constant)

Accepted shapes (anything else raises Unsupported: the tie is reported broken, never silently skipped):
  factory:  def f(self, on_para_eq_constraint: bool = None, <more parameters with constant defaults>) -> ...:
      optional docstring;
      prologue statements, any number of:   `if <cond>: NAME = <expr>` [`else: NAME = <expr>`]  |  `NAME = <expr>`   with NAME = on_para_eq_constraint
                                            `<local> = self.<method>()`            (a helper object: generate_zero_obj / copy)
                                            `<local>.<method>(<parameter>)`        (configuring the helper, e.g. set_mode_proj_order)
      exactly one nested `def _func(var: ...) -> ...:` whose body does not assign on_para_eq_constraint or any factory parameter;
      last statement `return _func`;  nothing between the nested def and the return.
  <cond>, <expr>:  NAME(on_para_eq_constraint) | self._on_para_eq_constraint | self.on_para_eq_constraint | None | True | False |
      `is None` / `is not None` / `is True` ... / == / != (one comparator, right side a constant) | or | and | not | `a if c else b`
  MProcess.calc_proj_ineq_constraint_with_var: one `for hs_index, hs in enumerate(hss):` loop containing exactly one call of
      Gate.calc_proj_ineq_constraint_with_var with a constant `on_para_eq_constraint=` keyword and exactly one
      `if <cond over on_para_eq_constraint, hs_index, len(hss)>: proj_hs = np.delete(proj_hs, np.s_[<a> : <b>])` (no else) with <a>, <b> integer
      expressions over c_sys.dim with + - * **.
"""
import ast, sys, os

FACTORIES = ["func_calc_proj_eq_constraint", "func_calc_proj_eq_constraint_with_var", "func_calc_proj_ineq_constraint",
             "func_calc_proj_ineq_constraint_with_var", "func_calc_proj_physical", "func_calc_proj_physical_with_var"]
FLAG = "on_para_eq_constraint"


class Unsupported(Exception):
    pass


def fail(node, msg):
    raise Unsupported("%s (line %s): %s" % (type(node).__name__, getattr(node, "lineno", "?"), msg))


def coq_str(s):
    if not isinstance(s, str) or any(ord(ch) < 32 or ord(ch) > 126 or ch == '"' for ch in s):
        raise Unsupported("unsupported string %r" % (s,))
    return '"%s"' % s


def body_wo_doc(fdef):
    b = list(fdef.body)
    if b and isinstance(b[0], ast.Expr) and isinstance(b[0].value, ast.Constant) and isinstance(b[0].value.value, str):
        b = b[1:]
    return b


def find_method(tree, cls, name):
    for n in tree.body:
        if isinstance(n, ast.ClassDef) and n.name == cls:
            hits = [m for m in n.body if isinstance(m, ast.FunctionDef) and m.name == name]
            if len(hits) != 1:
                raise Unsupported("%s.%s: %d definitions" % (cls, name, len(hits)))
            return hits[0]
    raise Unsupported("class %s not found" % cls)


def is_self_flag(e):
    return (isinstance(e, ast.Attribute) and isinstance(e.value, ast.Name) and e.value.id == "self"
            and e.attr in ("_on_para_eq_constraint", "on_para_eq_constraint"))


def const_val(e):
    if isinstance(e, ast.Constant) and (e.value is None or e.value is True or e.value is False):
        return {None: "PNone", True: "(PBool true)", False: "(PBool false)"}[e.value]
    return None


def tr_val(e, env):
    """Python expression over the flag -> Gallina term of type pyval"""
    c = const_val(e)
    if c is not None:
        return c
    if isinstance(e, ast.Name):
        if e.id == FLAG:
            return env[FLAG]
        fail(e, "name %s in a flag expression" % e.id)
    if is_self_flag(e):
        return "(PBool own)"
    if isinstance(e, ast.BoolOp):
        op = {ast.Or: "por", ast.And: "pand"}[type(e.op)]
        t = tr_val(e.values[-1], env)
        for v in reversed(e.values[:-1]):
            t = "(%s %s %s)" % (op, tr_val(v, env), t)
        return t
    if isinstance(e, ast.UnaryOp) and isinstance(e.op, ast.Not):
        return "(pnot %s)" % tr_val(e.operand, env)
    if isinstance(e, ast.IfExp):
        return "(pif %s %s %s)" % (tr_val(e.test, env), tr_val(e.body, env), tr_val(e.orelse, env))
    if isinstance(e, ast.Compare):
        if len(e.ops) != 1:
            fail(e, "chained comparison")
        rhs = const_val(e.comparators[0])
        if rhs is None:
            fail(e, "comparison with a non-constant")
        op = e.ops[0]
        if isinstance(op, (ast.Is, ast.Eq)):
            return "(peqc %s %s)" % (tr_val(e.left, env), rhs)
        if isinstance(op, (ast.IsNot, ast.NotEq)):
            return "(pnot (peqc %s %s))" % (tr_val(e.left, env), rhs)
        fail(e, "comparison operator")
    fail(e, "unsupported flag expression")


def assigns_flag(st):
    return (isinstance(st, ast.Assign) and len(st.targets) == 1 and isinstance(st.targets[0], ast.Name) and st.targets[0].id == FLAG)


def tr_factory(fdef):
    args = fdef.args
    if args.vararg or args.kwarg or args.kwonlyargs or args.posonlyargs:
        fail(fdef, "unsupported parameter kinds")
    params = [a.arg for a in args.args]
    if params[:2] != ["self", FLAG]:
        fail(fdef, "parameters must start with self, on_para_eq_constraint")
    defaults = args.defaults
    if len(defaults) != len(params) - 1 or const_val(defaults[0]) != "PNone":
        fail(fdef, "on_para_eq_constraint must default to None and every parameter needs a default")
    others = params[2:]
    env = {FLAG: "(of_req req)"}
    body = body_wo_doc(fdef)
    if len(body) < 2 or not isinstance(body[-1], ast.Return) or not isinstance(body[-2], ast.FunctionDef):
        fail(fdef, "factory must end with a nested def followed by return")
    inner = body[-2]
    if not (isinstance(body[-1].value, ast.Name) and body[-1].value.id == inner.name):
        fail(body[-1], "factory must return its nested function")
    setup_calls = []
    helpers = set()
    for st in body[:-2]:
        if isinstance(st, ast.If):
            if not (len(st.body) == 1 and assigns_flag(st.body[0]) and (not st.orelse or (len(st.orelse) == 1 and assigns_flag(st.orelse[0])))):
                fail(st, "prologue `if` must only assign on_para_eq_constraint")
            c = tr_val(st.test, env)
            a = tr_val(st.body[0].value, env)
            b = tr_val(st.orelse[0].value, env) if st.orelse else env[FLAG]
            env[FLAG] = "(pif %s %s %s)" % (c, a, b)
        elif assigns_flag(st):
            env[FLAG] = tr_val(st.value, env)
        elif (isinstance(st, ast.Assign) and len(st.targets) == 1 and isinstance(st.targets[0], ast.Name) and isinstance(st.value, ast.Call)
              and isinstance(st.value.func, ast.Attribute) and isinstance(st.value.func.value, ast.Name) and st.value.func.value.id == "self"
              and not st.value.args and not st.value.keywords and st.targets[0].id not in params):
            helpers.add(st.targets[0].id)
        elif (isinstance(st, ast.Expr) and isinstance(st.value, ast.Call) and isinstance(st.value.func, ast.Attribute)
              and isinstance(st.value.func.value, ast.Name) and st.value.func.value.id in helpers):
            setup_calls.append(st.value)
        else:
            fail(st, "unsupported prologue statement")
    # ---- the closure
    ia = inner.args
    if ia.vararg or ia.kwarg or ia.kwonlyargs or ia.posonlyargs or len(ia.args) != 1 or ia.defaults:
        fail(inner, "the closure must take exactly one positional parameter")
    for n in ast.walk(inner):
        tg = []
        if isinstance(n, ast.Assign):
            tg = n.targets
        elif isinstance(n, (ast.AugAssign, ast.AnnAssign)):
            tg = [n.target]
        elif isinstance(n, (ast.For, ast.comprehension)):
            tg = [n.target]
        elif isinstance(n, (ast.Global, ast.Nonlocal, ast.Lambda, ast.NamedExpr)) or (isinstance(n, ast.FunctionDef) and n is not inner):
            fail(n, "unsupported construct inside the closure")
        for t in tg:
            for m in ast.walk(t):
                if isinstance(m, ast.Name) and m.id in params:
                    fail(n, "the closure rebinds a factory parameter")
    flags, callees = [], []
    fw = {p: False for p in others}
    eps_attr = False
    takes_eps = False
    for call in [n for st in inner.body for n in ast.walk(st) if isinstance(n, ast.Call)] + setup_calls:
        if isinstance(call.func, ast.Attribute):
            if call not in setup_calls and call.func.attr not in callees:
                callees.append(call.func.attr)
        for kw in call.keywords:
            if kw.arg is None:
                fail(call, "** arguments")
            if kw.arg == FLAG:
                flags.append(tr_val(kw.value, env))
            elif kw.arg in fw and isinstance(kw.value, ast.Name) and kw.value.id == kw.arg:
                fw[kw.arg] = True
            elif kw.arg == "eps_truncate_imaginary_part":
                takes_eps = True
                v = kw.value
                if isinstance(v, ast.Attribute) and isinstance(v.value, ast.Name) and v.value.id == "self" and v.attr in ("eps_truncate_imaginary_part", "_eps_truncate_imaginary_part"):
                    eps_attr = True
        for a in call.args:
            if isinstance(a, ast.Name) and a.id == FLAG:
                fail(call, "on_para_eq_constraint passed positionally")
            if isinstance(a, ast.Name) and a.id in fw and call in setup_calls:
                fw[a.id] = True
    if not flags:
        fail(inner, "the closure never passes on_para_eq_constraint")
    forwards = [(p, fw[p]) for p in others]
    if fdef.name == "func_calc_proj_ineq_constraint_with_var":
        forwards.append(("self.eps_truncate_imaginary_part", eps_attr))
    return flags, forwards, callees


def tr_int(e, names):
    """integer expression over the given names (python name/attribute text -> Gallina variable)"""
    if isinstance(e, ast.Constant) and isinstance(e.value, int) and not isinstance(e.value, bool) and 0 <= e.value < 1000:
        return "%d" % e.value
    key = ast.unparse(e)
    if key in names:
        return names[key]
    if isinstance(e, ast.BinOp):
        if isinstance(e.op, ast.Pow):
            if isinstance(e.right, ast.Constant) and e.right.value == 2:
                t = tr_int(e.left, names)
                return "(%s * %s)" % (t, t)
            fail(e, "only ** 2")
        op = {ast.Add: "+", ast.Sub: "-", ast.Mult: "*"}.get(type(e.op))
        if op is None:
            fail(e, "integer operator")
        return "(%s %s %s)" % (tr_int(e.left, names), op, tr_int(e.right, names))
    fail(e, "unsupported integer expression %s" % key)


def tr_cond(e, names):
    """boolean condition over on_para_eq_constraint (Python bool `flag`), hs_index, len(hss)"""
    if isinstance(e, ast.BoolOp):
        op = {ast.And: "&&", ast.Or: "||"}[type(e.op)]
        return "(" + (" %s " % op).join(tr_cond(v, names) for v in e.values) + ")"
    if isinstance(e, ast.UnaryOp) and isinstance(e.op, ast.Not):
        return "(negb %s)" % tr_cond(e.operand, names)
    if isinstance(e, ast.Name) and e.id == FLAG:
        return "flag"
    if isinstance(e, ast.Compare) and len(e.ops) == 1:
        l, r, op = e.left, e.comparators[0], e.ops[0]
        if isinstance(l, ast.Name) and l.id == FLAG and const_val(r) in ("(PBool true)", "(PBool false)") and isinstance(op, (ast.Is, ast.Eq, ast.IsNot, ast.NotEq)):
            t = "flag" if const_val(r) == "(PBool true)" else "(negb flag)"
            return t if isinstance(op, (ast.Is, ast.Eq)) else "(negb %s)" % t
        zop = {ast.Eq: "=?", ast.Lt: "<?", ast.LtE: "<=?"}.get(type(op))
        if zop:
            return "(%s %s %s)%%Z" % (tr_int(l, names), zop, tr_int(r, names))
        if isinstance(op, ast.NotEq):
            return "(negb (%s =? %s)%%Z)" % (tr_int(l, names), tr_int(r, names))
        if isinstance(op, (ast.Gt, ast.GtE)):
            return "(%s %s %s)%%Z" % (tr_int(r, names), {ast.Gt: "<?", ast.GtE: "<=?"}[type(op)], tr_int(l, names))
    fail(e, "unsupported condition")


def tr_mp_ineq(fdef):
    loops = [n for n in ast.walk(fdef) if isinstance(n, ast.For)]
    if len(loops) != 1:
        fail(fdef, "expected exactly one for loop")
    lp = loops[0]
    if not (isinstance(lp.iter, ast.Call) and isinstance(lp.iter.func, ast.Name) and lp.iter.func.id == "enumerate" and len(lp.iter.args) == 1
            and isinstance(lp.target, ast.Tuple) and len(lp.target.elts) == 2 and all(isinstance(t, ast.Name) for t in lp.target.elts)):
        fail(lp, "expected `for <index>, <hs> in enumerate(<hss>)`")
    idx = lp.target.elts[0].id
    seq = ast.unparse(lp.iter.args[0])
    calls = [n for n in ast.walk(lp) if isinstance(n, ast.Call) and isinstance(n.func, ast.Attribute) and n.func.attr == "calc_proj_ineq_constraint_with_var"]
    if len(calls) != 1 or ast.unparse(calls[0].func.value) != "Gate":
        fail(lp, "expected exactly one call of Gate.calc_proj_ineq_constraint_with_var in the loop")
    kws = [kw for kw in calls[0].keywords if kw.arg == FLAG]
    if len(kws) != 1 or const_val(kws[0].value) is None:
        fail(calls[0], "the per-outcome projection must receive a constant on_para_eq_constraint keyword")
    ifs = [n for n in ast.walk(lp) if isinstance(n, ast.If)]
    if len(ifs) != 1 or ifs[0].orelse or len(ifs[0].body) != 1:
        fail(lp, "expected exactly one `if` without else in the loop")
    st = ifs[0].body[0]
    ok = (isinstance(st, ast.Assign) and isinstance(st.value, ast.Call) and ast.unparse(st.value.func) == "np.delete" and len(st.value.args) == 2
          and ast.unparse(st.targets[0]) == ast.unparse(st.value.args[0]))
    sl = st.value.args[1] if ok else None
    if not (ok and isinstance(sl, ast.Subscript) and ast.unparse(sl.value) == "np.s_" and isinstance(sl.slice, ast.Slice) and sl.slice.step is None
            and sl.slice.lower is not None and sl.slice.upper is not None):
        fail(ifs[0], "expected `x = np.delete(x, np.s_[a:b])`")
    names = {idx: "i", "len(%s)" % seq: "m"}
    cond = tr_cond(ifs[0].test, names)
    dn = {"c_sys.dim": "dim"}
    return cond, tr_int(sl.slice.lower, dn), tr_int(sl.slice.upper, dn), const_val(kws[0].value)


def main():
    repo, out = sys.argv[1], sys.argv[2]
    try:
        tree = ast.parse(open(os.path.join(repo, "quara/objects/qoperation.py")).read())
        lines = ["(* REGENERATED by gen/c04_py2coq.py from quara/objects/qoperation.py and quara/objects/mprocess.py - do not edit *)",
                 "From Coq Require Import String List Bool ZArith.", "From QV.Model Require Import C04_PySem.", "Import ListNotations.",
                 "Open Scope string_scope.", ""]
        for f in FACTORIES:
            flags, forwards, callees = tr_factory(find_method(tree, "QOperation", f))
            lines.append("Definition gen_%s_flags (req : option bool) (own : bool) : list pyval :=\n  [%s]." % (f, ";\n   ".join(flags)))
            lines.append("Definition gen_%s_forwards : list (string * bool) := [%s]." % (f, "; ".join("(%s, %s)" % (coq_str(p), "true" if b else "false") for p, b in forwards)))
            lines.append("Definition gen_%s_callees : list string := [%s]." % (f, "; ".join(coq_str(c) for c in callees)))
            lines.append("")
        tree2 = ast.parse(open(os.path.join(repo, "quara/objects/mprocess.py")).read())
        cond, lo, hi, cflag = tr_mp_ineq(find_method(tree2, "MProcess", "calc_proj_ineq_constraint_with_var"))
        lines.append("Open Scope Z_scope.")
        lines.append("Definition gen_mp_ineq_delete (flag : bool) (i m : Z) : bool := %s." % cond)
        lines.append("Definition gen_mp_ineq_slice (dim : Z) : Z * Z := (%s, %s)." % (lo, hi))
        lines.append("Definition gen_mp_ineq_callee_flag : pyval := %s." % cflag)
        open(out, "w").write("\n".join(lines) + "\n")
    except Unsupported as e:
        sys.stderr.write("UNSUPPORTED: %s\n" % e)
        sys.exit(3)
    except (SyntaxError, OSError) as e:
        sys.stderr.write("ERROR: %s\n" % e)
        sys.exit(4)


if __name__ == "__main__":
    main()
