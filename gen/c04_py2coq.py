#!/usr/bin/env python3
"""Fail-closed translator for the decision logic of quara's projection-closure factories (property C04): Python `ast` -> Gallina
over the value semantics of coq/theories/Model/C04_PySem.v.      usage: c04_py2coq.py <repo> <out.v>

Translated on every run from the CURRENT source of quara/objects/qoperation.py, class QOperation:
    func_calc_proj_eq_constraint, func_calc_proj_eq_constraint_with_var,
    func_calc_proj_ineq_constraint, func_calc_proj_ineq_constraint_with_var,
    func_calc_proj_physical, func_calc_proj_physical_with_var
and of quara/objects/mprocess.py, MProcess.calc_proj_ineq_constraint_with_var (the assembly rule of the result vector).

For every factory <f> the output defines
    gen_<f>_flags    : option bool -> bool -> list pyval   the VALUE of every `on_para_eq_constraint=<expr>` keyword argument inside the returned
                                                          closure, as a function of the requested flag (None / True / False) and of the object's own flag,
                                                          computed by symbolic execution of the factory's prologue with Python's value semantics
                                                          (`is None`, `is not None`, `or`, `and`, `not`, `x if c else y`, == / != against constants);
    gen_<f>_forwards : list (string * bool)                for every other parameter p of the factory (and for `self.eps_truncate_imaginary_part` where the
                                                          callee takes it): does some call made by the factory / the closure receive it as `p=p`
                                                          (or positionally, for `set_mode_proj_order(mode_proj_order)`);
    gen_<f>_callees  : list string                         the method names called inside the closure, in order of first occurrence.
For MProcess.calc_proj_ineq_constraint_with_var:
    gen_mp_ineq_delete : bool -> Z -> Z -> bool           the condition under which the first block of a projected HS matrix is deleted (flag, hs_index, number of hss)
    gen_mp_ineq_slice  : Z -> Z * Z                        the deleted slice (start, stop) as a function of dim
    gen_mp_ineq_callee_flag : pyval                        the on_para_eq_constraint value handed to Gate.calc_proj_ineq_constraint_with_var (a constant)

For the module-level functions mprocess.convert_var_to_hss / convert_hss_to_var (the layout the heap model and Model/C04_Proj.v assume):
    gen_v2h_hs_size, gen_v2h_m_true, gen_v2h_m_false, gen_v2h_one_len, gen_v2h_one_index, gen_v2h_one_value, gen_v2h_acc_len, gen_v2h_loop_n,
    gen_v2h_slice, gen_v2h_insert_pos, gen_v2h_reshape_true / _false : integer functions of dim, len(var) (and the loop variable);
    gen_h2v_delete (index, len(hss)), gen_h2v_row, gen_h2v_axis.
For the eight static methods {State,Povm,Gate,MProcess}.calc_proj_{eq,ineq}_constraint_with_var:
    gen_static_defaults : list (string * pyval)            the default value of their on_para_eq_constraint parameter.

For the equality projections of State and Gate (object level and variable level), whose whole content is index / slice assignment of constants:
    gen_{state,gate}_obj_writes (dim : Z) : list write    the assignments performed on a COPY (copy.deepcopy / copy.copy / .copy()) of self.vec / self.hs -
                                                          the translator REQUIRES that the written name is bound by such a copy and handed to the constructor;
    gen_{state,gate}_var_writes (dim : Z) : list write    the assignments of the on_para_eq_constraint=False branch (on a copy of var);
    gen_{state,gate}_var_true_is_arg : bool               the on_para_eq_constraint=True branch returns the argument itself, without any write.

For the equality projections of Povm and MProcess (object level and variable level), whose content is whole-array arithmetic inside a fixed loop skeleton:
    gen_povm_{obj,var}_size, _c_zeros (dim) : Z ; _axis : Z ; _c_first (F) (sd m : F) : F ; _abar (F) (s m : F) : F ; _newvec (F) (vec a_bar c : F) : F
    gen_mp_{obj,var}_zeros (dim), _acc_row, _dec_idx, _dec_val, _upd_row : Z ; _upd (F) (vec m : F) : F
  together with the requirement (enforced by the translator) that MProcess works on copy.deepcopy of self.hss / of convert_var_to_hss(c_sys, var, ...),
  that Povm only READS self.vecs / convert_var_to_vecs(...) (no subscript / augmented assignment to them), and that the result is assembled from the new arrays.

Accepted shapes (anything else raises Unsupported: the tie is reported broken, never silently skipped):
  factory:  def f(self, on_para_eq_constraint: bool = None, <more parameters with constant defaults>) -> ...:
      optional docstring;
      prologue statements, any number of:   `if <cond>: NAME = <expr>` [`else: NAME = <expr>`]  |  `NAME = <expr>`   with NAME = on_para_eq_constraint
                                            `<local> = self.<method>()`            (a helper object: generate_zero_obj / copy)
                                            `<local>.<method>(<parameter>)`        (configuring the helper, e.g. set_mode_proj_order)
      exactly one nested `def _func(var: ...) -> ...:` whose body does not assign on_para_eq_constraint or any factory parameter;
      last statement `return _func`;  nothing between the nested def and the return.
  <cond>, <expr>:  NAME(on_para_eq_constraint) | self._on_para_eq_constraint | self.on_para_eq_constraint | None | True | False |
      `is None` / `is not None` / `is True` ... / == / != (one comparator, right side a constant) | or | and | not | `a if c else b`
  MProcess.calc_proj_ineq_constraint_with_var: one `for hs_index, hs in enumerate(hss):` loop containing exactly one call of
      Gate.calc_proj_ineq_constraint_with_var with a constant `on_para_eq_constraint=` keyword and exactly one
      `if <cond over on_para_eq_constraint, hs_index, len(hss)>: proj_hs = np.delete(proj_hs, np.s_[<a> : <b>])` (no else) with <a>, <b> integer
      expressions over c_sys.dim with + - * **.
  convert_var_to_hss / convert_hss_to_var: exactly the statement skeleton listed in tr_v2h / tr_h2v below (assignments of integer
      expressions over dim, hs_size, vector.shape[0], num_outcomes, the loop variable with + - * // ** 2; np.zeros / np.insert / reshape /
      np.delete / flatten / hstack in the listed positions); only the INTEGER content is translated, the array operations are matched literally.
"""
import ast, sys, os, warnings
warnings.simplefilter("ignore")

FACTORIES = ["func_calc_proj_eq_constraint", "func_calc_proj_eq_constraint_with_var", "func_calc_proj_ineq_constraint",
             "func_calc_proj_ineq_constraint_with_var", "func_calc_proj_physical", "func_calc_proj_physical_with_var"]
FLAG = "on_para_eq_constraint"


class Unsupported(Exception):
    pass


def fail(node, msg):
    raise Unsupported("%s (line %s): %s" % (type(node).__name__, getattr(node, "lineno", "?"), msg))


def coq_str(s):
    if not isinstance(s, str) or any(ord(ch) < 32 or ord(ch) > 126 or ch == '"' for ch in s):
        raise Unsupported("unsupported string %r" % (s,))
    return '"%s"' % s


def body_wo_doc(fdef):
    b = list(fdef.body)
    if b and isinstance(b[0], ast.Expr) and isinstance(b[0].value, ast.Constant) and isinstance(b[0].value.value, str):
        b = b[1:]
    return b


def find_method(tree, cls, name):
    for n in tree.body:
        if isinstance(n, ast.ClassDef) and n.name == cls:
            hits = [m for m in n.body if isinstance(m, ast.FunctionDef) and m.name == name]
            if len(hits) != 1:
                raise Unsupported("%s.%s: %d definitions" % (cls, name, len(hits)))
            return hits[0]
    raise Unsupported("class %s not found" % cls)


def is_self_flag(e):
    return (isinstance(e, ast.Attribute) and isinstance(e.value, ast.Name) and e.value.id == "self"
            and e.attr in ("_on_para_eq_constraint", "on_para_eq_constraint"))


def const_val(e):
    if isinstance(e, ast.Constant) and (e.value is None or e.value is True or e.value is False):
        return {None: "PNone", True: "(PBool true)", False: "(PBool false)"}[e.value]
    return None


def tr_val(e, env):
    """Python expression over the flag -> Gallina term of type pyval"""
    c = const_val(e)
    if c is not None:
        return c
    if isinstance(e, ast.Name):
        if e.id == FLAG:
            return env[FLAG]
        fail(e, "name %s in a flag expression" % e.id)
    if is_self_flag(e):
        return "(PBool own)"
    if isinstance(e, ast.BoolOp):
        op = {ast.Or: "por", ast.And: "pand"}[type(e.op)]
        t = tr_val(e.values[-1], env)
        for v in reversed(e.values[:-1]):
            t = "(%s %s %s)" % (op, tr_val(v, env), t)
        return t
    if isinstance(e, ast.UnaryOp) and isinstance(e.op, ast.Not):
        return "(pnot %s)" % tr_val(e.operand, env)
    if isinstance(e, ast.IfExp):
        return "(pif %s %s %s)" % (tr_val(e.test, env), tr_val(e.body, env), tr_val(e.orelse, env))
    if isinstance(e, ast.Compare):
        if len(e.ops) != 1:
            fail(e, "chained comparison")
        rhs = const_val(e.comparators[0])
        if rhs is None:
            fail(e, "comparison with a non-constant")
        op = e.ops[0]
        if isinstance(op, (ast.Is, ast.Eq)):
            return "(peqc %s %s)" % (tr_val(e.left, env), rhs)
        if isinstance(op, (ast.IsNot, ast.NotEq)):
            return "(pnot (peqc %s %s))" % (tr_val(e.left, env), rhs)
        fail(e, "comparison operator")
    fail(e, "unsupported flag expression")


def assigns_flag(st):
    return (isinstance(st, ast.Assign) and len(st.targets) == 1 and isinstance(st.targets[0], ast.Name) and st.targets[0].id == FLAG)


def tr_factory(fdef):
    args = fdef.args
    if args.vararg or args.kwarg or args.kwonlyargs or args.posonlyargs:
        fail(fdef, "unsupported parameter kinds")
    params = [a.arg for a in args.args]
    if params[:2] != ["self", FLAG]:
        fail(fdef, "parameters must start with self, on_para_eq_constraint")
    defaults = args.defaults
    if len(defaults) != len(params) - 1 or const_val(defaults[0]) != "PNone":
        fail(fdef, "on_para_eq_constraint must default to None and every parameter needs a default")
    others = params[2:]
    env = {FLAG: "(of_req req)"}
    body = body_wo_doc(fdef)
    if len(body) < 2 or not isinstance(body[-1], ast.Return) or not isinstance(body[-2], ast.FunctionDef):
        fail(fdef, "factory must end with a nested def followed by return")
    inner = body[-2]
    if not (isinstance(body[-1].value, ast.Name) and body[-1].value.id == inner.name):
        fail(body[-1], "factory must return its nested function")
    setup_calls = []
    helpers = set()
    for st in body[:-2]:
        if isinstance(st, ast.If):
            if not (len(st.body) == 1 and assigns_flag(st.body[0]) and (not st.orelse or (len(st.orelse) == 1 and assigns_flag(st.orelse[0])))):
                fail(st, "prologue `if` must only assign on_para_eq_constraint")
            c = tr_val(st.test, env)
            a = tr_val(st.body[0].value, env)
            b = tr_val(st.orelse[0].value, env) if st.orelse else env[FLAG]
            env[FLAG] = "(pif %s %s %s)" % (c, a, b)
        elif assigns_flag(st):
            env[FLAG] = tr_val(st.value, env)
        elif (isinstance(st, ast.Assign) and len(st.targets) == 1 and isinstance(st.targets[0], ast.Name) and isinstance(st.value, ast.Call)
              and isinstance(st.value.func, ast.Attribute) and isinstance(st.value.func.value, ast.Name) and st.value.func.value.id == "self"
              and not st.value.args and not st.value.keywords and st.targets[0].id not in params):
            helpers.add(st.targets[0].id)
        elif (isinstance(st, ast.Expr) and isinstance(st.value, ast.Call) and isinstance(st.value.func, ast.Attribute)
              and isinstance(st.value.func.value, ast.Name) and st.value.func.value.id in helpers):
            setup_calls.append(st.value)
        else:
            fail(st, "unsupported prologue statement")
    # ---- the closure
    ia = inner.args
    if ia.vararg or ia.kwarg or ia.kwonlyargs or ia.posonlyargs or len(ia.args) != 1 or ia.defaults:
        fail(inner, "the closure must take exactly one positional parameter")
    for n in ast.walk(inner):
        tg = []
        if isinstance(n, ast.Assign):
            tg = n.targets
        elif isinstance(n, (ast.AugAssign, ast.AnnAssign)):
            tg = [n.target]
        elif isinstance(n, (ast.For, ast.comprehension)):
            tg = [n.target]
        elif isinstance(n, (ast.Global, ast.Nonlocal, ast.Lambda, ast.NamedExpr)) or (isinstance(n, ast.FunctionDef) and n is not inner):
            fail(n, "unsupported construct inside the closure")
        for t in tg:
            for m in ast.walk(t):
                if isinstance(m, ast.Name) and m.id in params:
                    fail(n, "the closure rebinds a factory parameter")
    flags, callees = [], []
    fw = {p: False for p in others}
    eps_attr = False
    takes_eps = False
    for call in [n for st in inner.body for n in ast.walk(st) if isinstance(n, ast.Call)] + setup_calls:
        if isinstance(call.func, ast.Attribute):
            if call not in setup_calls and call.func.attr not in callees:
                callees.append(call.func.attr)
        for kw in call.keywords:
            if kw.arg is None:
                fail(call, "** arguments")
            if kw.arg == FLAG:
                flags.append(tr_val(kw.value, env))
            elif kw.arg in fw and isinstance(kw.value, ast.Name) and kw.value.id == kw.arg:
                fw[kw.arg] = True
            elif kw.arg == "eps_truncate_imaginary_part":
                takes_eps = True
                v = kw.value
                if isinstance(v, ast.Attribute) and isinstance(v.value, ast.Name) and v.value.id == "self" and v.attr in ("eps_truncate_imaginary_part", "_eps_truncate_imaginary_part"):
                    eps_attr = True
        for a in call.args:
            if isinstance(a, ast.Name) and a.id == FLAG:
                fail(call, "on_para_eq_constraint passed positionally")
            if isinstance(a, ast.Name) and a.id in fw and call in setup_calls:
                fw[a.id] = True
    if not flags:
        fail(inner, "the closure never passes on_para_eq_constraint")
    forwards = [(p, fw[p]) for p in others]
    if fdef.name == "func_calc_proj_ineq_constraint_with_var":
        forwards.append(("self.eps_truncate_imaginary_part", eps_attr))
    return flags, forwards, callees


def tr_int(e, names):
    """integer expression over the given names (python name/attribute text -> Gallina variable)"""
    if isinstance(e, ast.Constant) and isinstance(e.value, int) and not isinstance(e.value, bool) and 0 <= e.value < 1000:
        return "%d" % e.value
    key = ast.unparse(e)
    if key in names:
        return names[key]
    if isinstance(e, ast.BinOp):
        if isinstance(e.op, ast.Pow):
            if isinstance(e.right, ast.Constant) and e.right.value == 2:
                t = tr_int(e.left, names)
                return "(%s * %s)" % (t, t)
            fail(e, "only ** 2")
        op = {ast.Add: "+", ast.Sub: "-", ast.Mult: "*"}.get(type(e.op))
        if op is None:
            fail(e, "integer operator")
        return "(%s %s %s)" % (tr_int(e.left, names), op, tr_int(e.right, names))
    fail(e, "unsupported integer expression %s" % key)


def tr_cond(e, names):
    """boolean condition over on_para_eq_constraint (Python bool `flag`), hs_index, len(hss)"""
    if isinstance(e, ast.BoolOp):
        op = {ast.And: "&&", ast.Or: "||"}[type(e.op)]
        return "(" + (" %s " % op).join(tr_cond(v, names) for v in e.values) + ")"
    if isinstance(e, ast.UnaryOp) and isinstance(e.op, ast.Not):
        return "(negb %s)" % tr_cond(e.operand, names)
    if isinstance(e, ast.Name) and e.id == FLAG:
        return "flag"
    if isinstance(e, ast.Compare) and len(e.ops) == 1:
        l, r, op = e.left, e.comparators[0], e.ops[0]
        if isinstance(l, ast.Name) and l.id == FLAG and const_val(r) in ("(PBool true)", "(PBool false)") and isinstance(op, (ast.Is, ast.Eq, ast.IsNot, ast.NotEq)):
            t = "flag" if const_val(r) == "(PBool true)" else "(negb flag)"
            return t if isinstance(op, (ast.Is, ast.Eq)) else "(negb %s)" % t
        zop = {ast.Eq: "=?", ast.Lt: "<?", ast.LtE: "<=?"}.get(type(op))
        if zop:
            return "(%s %s %s)%%Z" % (tr_int(l, names), zop, tr_int(r, names))
        if isinstance(op, ast.NotEq):
            return "(negb (%s =? %s)%%Z)" % (tr_int(l, names), tr_int(r, names))
        if isinstance(op, (ast.Gt, ast.GtE)):
            return "(%s %s %s)%%Z" % (tr_int(r, names), {ast.Gt: "<?", ast.GtE: "<=?"}[type(op)], tr_int(l, names))
    fail(e, "unsupported condition")


def tr_mp_ineq(fdef):
    loops = [n for n in ast.walk(fdef) if isinstance(n, ast.For)]
    if len(loops) != 1:
        fail(fdef, "expected exactly one for loop")
    lp = loops[0]
    if not (isinstance(lp.iter, ast.Call) and isinstance(lp.iter.func, ast.Name) and lp.iter.func.id == "enumerate" and len(lp.iter.args) == 1
            and isinstance(lp.target, ast.Tuple) and len(lp.target.elts) == 2 and all(isinstance(t, ast.Name) for t in lp.target.elts)):
        fail(lp, "expected `for <index>, <hs> in enumerate(<hss>)`")
    idx = lp.target.elts[0].id
    seq = ast.unparse(lp.iter.args[0])
    calls = [n for n in ast.walk(lp) if isinstance(n, ast.Call) and isinstance(n.func, ast.Attribute) and n.func.attr == "calc_proj_ineq_constraint_with_var"]
    if len(calls) != 1 or ast.unparse(calls[0].func.value) != "Gate":
        fail(lp, "expected exactly one call of Gate.calc_proj_ineq_constraint_with_var in the loop")
    kws = [kw for kw in calls[0].keywords if kw.arg == FLAG]
    if len(kws) != 1 or const_val(kws[0].value) is None:
        fail(calls[0], "the per-outcome projection must receive a constant on_para_eq_constraint keyword")
    ifs = [n for n in ast.walk(lp) if isinstance(n, ast.If)]
    if len(ifs) != 1 or ifs[0].orelse or len(ifs[0].body) != 1:
        fail(lp, "expected exactly one `if` without else in the loop")
    st = ifs[0].body[0]
    ok = (isinstance(st, ast.Assign) and isinstance(st.value, ast.Call) and ast.unparse(st.value.func) == "np.delete" and len(st.value.args) == 2
          and ast.unparse(st.targets[0]) == ast.unparse(st.value.args[0]))
    sl = st.value.args[1] if ok else None
    if not (ok and isinstance(sl, ast.Subscript) and ast.unparse(sl.value) == "np.s_" and isinstance(sl.slice, ast.Slice) and sl.slice.step is None
            and sl.slice.lower is not None and sl.slice.upper is not None):
        fail(ifs[0], "expected `x = np.delete(x, np.s_[a:b])`")
    names = {idx: "i", "len(%s)" % seq: "m"}
    cond = tr_cond(ifs[0].test, names)
    dn = {"c_sys.dim": "dim"}
    return cond, tr_int(sl.slice.lower, dn), tr_int(sl.slice.upper, dn), const_val(kws[0].value)


def tr_int_env(e, env):
    """integer expression; env maps python source text (names / attribute chains) to Gallina terms; `//` is floor division"""
    if isinstance(e, ast.Constant) and isinstance(e.value, int) and not isinstance(e.value, bool) and 0 <= e.value < 1000:
        return "%d" % e.value
    key = ast.unparse(e)
    if key in env:
        return env[key]
    if isinstance(e, ast.BinOp):
        if isinstance(e.op, ast.Pow):
            if isinstance(e.right, ast.Constant) and e.right.value in (2, 3, 4):
                t = tr_int_env(e.left, env)
                return "(" + " * ".join([t] * e.right.value) + ")"
            fail(e, "only ** 2, 3, 4")
        op = {ast.Add: "+", ast.Sub: "-", ast.Mult: "*", ast.FloorDiv: "/"}.get(type(e.op))
        if op is None:
            fail(e, "integer operator")
        return "(%s %s %s)" % (tr_int_env(e.left, env), op, tr_int_env(e.right, env))
    fail(e, "unsupported integer expression %s" % key)


def find_function(tree, name):
    hits = [n for n in tree.body if isinstance(n, ast.FunctionDef) and n.name == name]
    if len(hits) != 1:
        raise Unsupported("%s: %d module-level definitions" % (name, len(hits)))
    return hits[0]


def is_assign(st, target=None):
    return isinstance(st, ast.Assign) and len(st.targets) == 1 and isinstance(st.targets[0], ast.Name) and (target is None or st.targets[0].id == target)


def call_of(e, name):
    return isinstance(e, ast.Call) and ast.unparse(e.func) == name


def tr_v2h(fdef):
    """mprocess.convert_var_to_hss"""
    b = body_wo_doc(fdef)
    out = {}
    if not (len(b) == 7 and is_assign(b[0], "dim") and ast.unparse(b[0].value) == "c_sys.dim" and is_assign(b[1], "hs_size") and isinstance(b[2], ast.If)
            and isinstance(b[2].test, ast.Name) and b[2].test.id == FLAG and is_assign(b[3]) and ast.unparse(b[3].value) == "[]" and is_assign(b[4])
            and isinstance(b[5], ast.For) and isinstance(b[6], ast.Return)):
        fail(fdef, "convert_var_to_hss: unexpected statement skeleton")
    env = {"dim": "dim"}
    out["hs_size"] = tr_int_env(b[1].value, env)
    env["hs_size"] = "(gen_v2h_hs_size dim)"          # later definitions REFER to the earlier ones (proofs rewrite with their lemmas)
    T, E = b[2].body, b[2].orelse
    # ---- flag True
    if not (len(T) == 8 and is_assign(T[0]) and ast.unparse(T[0].value) in ("copy.copy(var)", "np.copy(var)", "var.copy()", "copy.deepcopy(var)")):
        fail(b[2], "flag True must start by copying var")
    vec = T[0].targets[0].id
    envT = dict(env); envT["%s.shape[0]" % vec] = "len"; envT["len(%s)" % vec] = "len"
    if not is_assign(T[1], "num_outcomes"):
        fail(T[1], "expected num_outcomes = ...")
    out["m_true"] = tr_int_env(T[1].value, envT)
    envT["num_outcomes"] = "(gen_v2h_m_true dim len)"
    if not (is_assign(T[2]) and call_of(T[2].value, "np.zeros") and len(T[2].value.args) == 1):
        fail(T[2], "expected one = np.zeros(n, ...)")
    one = T[2].targets[0].id
    out["one_len"] = tr_int_env(T[2].value.args[0], envT)
    st = T[3]
    if not (isinstance(st, ast.Assign) and len(st.targets) == 1 and isinstance(st.targets[0], ast.Subscript) and ast.unparse(st.targets[0].value) == one):
        fail(st, "expected one[i] = c")
    out["one_index"] = tr_int_env(st.targets[0].slice, envT)
    out["one_value"] = tr_int_env(st.value, envT)
    if not (is_assign(T[4]) and call_of(T[4].value, "np.zeros") and len(T[4].value.args) == 1):
        fail(T[4], "expected acc = np.zeros(n, ...)")
    acc = T[4].targets[0].id
    out["acc_len"] = tr_int_env(T[4].value.args[0], envT)
    lp = T[5]
    if not (isinstance(lp, ast.For) and isinstance(lp.target, ast.Name) and call_of(lp.iter, "range") and len(lp.iter.args) == 1 and len(lp.body) == 1 and not lp.orelse):
        fail(lp, "expected for o in range(n): acc += vector[a:b]")
    out["loop_n"] = tr_int_env(lp.iter.args[0], envT)
    st = lp.body[0]
    envL = dict(envT); envL[lp.target.id] = "o"
    if not (isinstance(st, ast.AugAssign) and isinstance(st.op, ast.Add) and ast.unparse(st.target) == acc and isinstance(st.value, ast.Subscript)
            and ast.unparse(st.value.value) == vec and isinstance(st.value.slice, ast.Slice) and st.value.slice.step is None
            and st.value.slice.lower is not None and st.value.slice.upper is not None):
        fail(st, "expected acc += vector[a:b]")
    out["slice"] = "(%s, %s)" % (tr_int_env(st.value.slice.lower, envL), tr_int_env(st.value.slice.upper, envL))
    if not (is_assign(T[6]) and ast.unparse(T[6].value) == "%s - %s" % (one, acc)):
        fail(T[6], "expected row = one - acc")
    row = T[6].targets[0].id
    if not (is_assign(T[7], vec) and call_of(T[7].value, "np.insert") and len(T[7].value.args) == 3 and not T[7].value.keywords
            and ast.unparse(T[7].value.args[0]) == vec and ast.unparse(T[7].value.args[2]) == row):
        fail(T[7], "expected vector = np.insert(vector, pos, row)")
    out["insert_pos"] = tr_int_env(T[7].value.args[1], envT)
    # ---- flag False
    if not (len(E) == 2 and is_assign(E[0], vec) and ast.unparse(E[0].value) in ("var", "copy.copy(var)", "np.copy(var)", "var.copy()") and is_assign(E[1], "num_outcomes")):
        fail(b[2], "flag False: expected vector = var ; num_outcomes = ...")
    out["m_false"] = tr_int_env(E[1].value, envT)
    # ---- reshape
    rs = b[4].value
    if not (call_of(rs, "%s.reshape" % vec) and len(rs.args) == 1 and isinstance(rs.args[0], ast.Tuple) and len(rs.args[0].elts) == 3):
        fail(b[4], "expected vector.reshape((a, b, c))")
    for tag, mm in (("true", "(gen_v2h_m_true dim len)"), ("false", "(gen_v2h_m_false dim len)")):
        envR = dict(env); envR["num_outcomes"] = mm
        out["reshape_" + tag] = "(%s, %s, %s)" % tuple(tr_int_env(x, envR) for x in rs.args[0].elts)
    lp = b[5]
    if not (ast.unparse(lp.iter) == b[4].targets[0].id and len(lp.body) == 1 and ast.unparse(lp.body[0]) == "%s.append(%s)" % (b[3].targets[0].id, ast.unparse(lp.target))
            and ast.unparse(b[6].value) == b[3].targets[0].id):
        fail(lp, "expected the list of the reshaped blocks to be returned")
    return out


def tr_h2v(fdef):
    """mprocess.convert_hss_to_var"""
    b = body_wo_doc(fdef)
    if not (len(b) == 2 and isinstance(b[0], ast.If) and isinstance(b[0].test, ast.Name) and b[0].test.id == FLAG and isinstance(b[1], ast.Return)):
        fail(fdef, "convert_hss_to_var: unexpected statement skeleton")
    T, E = b[0].body, b[0].orelse
    if not (len(T) == 3 and is_assign(T[0]) and ast.unparse(T[0].value) == "[]" and isinstance(T[1], ast.For) and len(T[1].body) == 1 and isinstance(T[1].body[0], ast.If)):
        fail(b[0], "flag True: expected a list built in a for loop with one if/else")
    lp = T[1]
    if not (call_of(lp.iter, "enumerate") and isinstance(lp.target, ast.Tuple) and len(lp.target.elts) == 2):
        fail(lp, "expected for index, hs in enumerate(hss)")
    idx, hs = lp.target.elts[0].id, lp.target.elts[1].id
    seq = ast.unparse(lp.iter.args[0])
    iff = lp.body[0]
    lst = T[0].targets[0].id
    if not (len(iff.body) == 1 and len(iff.orelse) == 1 and ast.unparse(iff.orelse[0]) == "%s.append(%s.flatten())" % (lst, hs)):
        fail(iff, "else branch must append hs.flatten()")
    st = iff.body[0]
    inner = st.value.args[0] if isinstance(st, ast.Expr) and call_of(st.value, lst + ".append") and len(st.value.args) == 1 else None
    if not (inner is not None and isinstance(inner, ast.Call) and isinstance(inner.func, ast.Attribute) and inner.func.attr == "flatten" and call_of(inner.func.value, "np.delete")):
        fail(st, "expected tmp.append(np.delete(hs, r, axis=a).flatten())")
    dl = inner.func.value
    ax = [kw for kw in dl.keywords if kw.arg == "axis"]
    if not (len(dl.args) == 2 and ast.unparse(dl.args[0]) == hs and len(ax) == 1):
        fail(dl, "expected np.delete(hs, r, axis=a)")
    names = {idx: "i", "len(%s)" % seq: "m"}
    cond = tr_cond(iff.test, names)
    if not (is_assign(T[2]) and ast.unparse(T[2].value) == "np.hstack(%s)" % lst and len(E) == 1 and is_assign(E[0], T[2].targets[0].id)
            and ast.unparse(E[0].value) in ("np.reshape(%s, -1)" % seq, "np.hstack([h.flatten() for h in %s])" % seq) and ast.unparse(b[1].value) == T[2].targets[0].id):
        fail(b[0], "expected var = np.hstack(tmp) / var = np.reshape(hss, -1); return var")
    return cond, tr_int_env(dl.args[1], {}), tr_int_env(ax[0].value, {})


COPY_FORMS = ("copy.deepcopy(%s)", "copy.copy(%s)", "%s.copy()", "np.copy(%s)", "np.array(%s)")
DIM_ENV = {"self.dim": "dim", "c_sys.dim": "dim", "self.composite_system.dim": "dim"}


def is_copy_of(e, src):
    return ast.unparse(e) in [f % src for f in COPY_FORMS]


def tr_wval(e):
    if isinstance(e, ast.Constant) and e.value in (0, 1) and not isinstance(e.value, bool):
        return "VOne" if e.value == 1 else "VZero"
    if isinstance(e, ast.Constant) and e.value in (0.0, 1.0):
        return "VOne" if e.value == 1.0 else "VZero"
    if ast.unparse(e) in ("1 / np.sqrt(%s)" % k for k in DIM_ENV):
        return "VInvSqrtDim"
    fail(e, "unsupported assigned value %s" % ast.unparse(e))


def tr_slice(sl):
    """index or slice -> (lo, hi option) as Gallina terms"""
    if isinstance(sl, ast.Slice):
        if sl.step is not None:
            fail(sl, "slice step")
        lo = "0" if sl.lower is None else tr_int_env(sl.lower, DIM_ENV)
        hi = "None" if sl.upper is None else "(Some %s)" % tr_int_env(sl.upper, DIM_ENV)
        return lo, hi
    i = tr_int_env(sl, DIM_ENV)
    return i, "(Some (%s + 1))" % i


def tr_write(st, name):
    """`name[i] = c` | `name[a:b] = c` | `name[r][..] = c` | `name[r, ..] = c`  ->  Gallina write, or None if st is not a subscript assignment"""
    if not (isinstance(st, ast.Assign) and len(st.targets) == 1 and isinstance(st.targets[0], ast.Subscript)):
        return None
    t = st.targets[0]
    v = tr_wval(st.value)
    if isinstance(t.value, ast.Name) and t.value.id == name:
        if isinstance(t.slice, ast.Tuple):
            if len(t.slice.elts) != 2 or isinstance(t.slice.elts[0], ast.Slice):
                fail(st, "unsupported 2-d index")
            lo, hi = tr_slice(t.slice.elts[1])
            return "W2 %s %s %s %s" % (tr_int_env(t.slice.elts[0], DIM_ENV), lo, hi, v)
        lo, hi = tr_slice(t.slice)
        return "W1 %s %s %s" % (lo, hi, v)
    if isinstance(t.value, ast.Subscript) and isinstance(t.value.value, ast.Name) and t.value.value.id == name and not isinstance(t.value.slice, (ast.Slice, ast.Tuple)):
        lo, hi = tr_slice(t.slice)
        return "W2 %s %s %s %s" % (tr_int_env(t.value.slice, DIM_ENV), lo, hi, v)
    fail(st, "subscript assignment to something else than the copied array")


def no_other_mutation(stmts, name):
    for st in stmts:
        for n in ast.walk(st):
            if isinstance(n, (ast.AugAssign, ast.Delete)) or (isinstance(n, ast.Assign) and any(not isinstance(t, ast.Name) for t in n.targets)):
                fail(n, "unsupported mutation after the writes")
            if isinstance(n, ast.Call) and isinstance(n.func, ast.Attribute) and n.func.attr in ("fill", "put", "itemset", "sort", "resize", "setfield", "ravel", "reshape", "view", "flatten") \
                    and isinstance(n.func.value, ast.Name) and n.func.value.id == name:
                fail(n, "method call on the copied array")


def tr_eqproj_obj(fdef, attr):
    """vec = copy.deepcopy(self.vec); vec[..] = c; ...; <construct the new object from vec>; return"""
    b = body_wo_doc(fdef)
    if not (b and is_assign(b[0]) and is_copy_of(b[0].value, "self." + attr)):
        fail(fdef, "the first statement must bind a copy of self.%s" % attr)
    name = b[0].targets[0].id
    ws, k = [], 1
    while k < len(b):
        w = tr_write(b[k], name)
        if w is None:
            break
        ws.append(w); k += 1
    rest = b[k:]
    no_other_mutation(rest, name)
    if not rest or not isinstance(rest[-1], ast.Return) or not any(isinstance(n, ast.Name) and n.id == name for st in rest for n in ast.walk(st)):
        fail(fdef, "the written copy must be handed to the constructor of the returned object")
    if any(isinstance(n, ast.Attribute) and ast.unparse(n) == "self." + attr for st in rest for n in ast.walk(st)):
        fail(fdef, "the original array is used after the copy was written")
    return ws


def tr_eqproj_var(fdef):
    """if on_para_eq_constraint: new_var = var  else: new_var = copy.deepcopy(var); new_var[..] = c; ...   return new_var"""
    b = body_wo_doc(fdef)
    if not (len(b) == 2 and isinstance(b[0], ast.If) and isinstance(b[0].test, ast.Name) and b[0].test.id == FLAG and isinstance(b[1], ast.Return)
            and isinstance(b[1].value, ast.Name)):
        fail(fdef, "expected if on_para_eq_constraint: ... else: ...; return <name>")
    name = b[1].value.id
    T, E = b[0].body, b[0].orelse
    true_is_arg = len(T) == 1 and is_assign(T[0], name) and ast.unparse(T[0].value) == "var"
    if not (true_is_arg or (len(T) == 1 and is_assign(T[0], name) and is_copy_of(T[0].value, "var"))):
        fail(b[0], "flag True: expected new_var = var (or a copy of it)")
    if not (E and is_assign(E[0], name) and is_copy_of(E[0].value, "var")):
        fail(b[0], "flag False: the first statement must bind a copy of var")
    ws = []
    for st in E[1:]:
        w = tr_write(st, name)
        if w is None:
            fail(st, "flag False: only subscript assignments of constants may follow the copy")
        ws.append(w)
    return ws, true_is_arg


def tr_field(e, leaves):
    """elementwise arithmetic over named arrays / scalars -> Gallina term over F (leaves: python source text -> Gallina variable)"""
    key = ast.unparse(e)
    if key in leaves:
        return leaves[key]
    if isinstance(e, ast.BinOp):
        op = {ast.Add: "cadd F", ast.Sub: "csub F", ast.Mult: "cmul F", ast.Div: "kdiv F"}.get(type(e.op))
        if op is None:
            fail(e, "field operator")
        return "(%s %s %s)" % (op, tr_field(e.left, leaves), tr_field(e.right, leaves))
    fail(e, "unsupported arithmetic expression %s" % key)


def strip_dtype(call):
    return [kw for kw in call.keywords if kw.arg != "dtype"]


def tr_povm_eq(stmts, vecs_src, tag, lines):
    """size = <int>; m = len(V); c = np.hstack([np.array([<first>]), np.zeros(<n>)]); a_bar = np.sum(np.array(V), axis=<k>) / m;
       new_vecs = []; for vec in V: new_vec = <expr over vec, a_bar, c>; new_vecs.append(new_vec)"""
    if len(stmts) < 6:
        fail(stmts[0], "povm equality projection: too few statements")
    st = stmts
    if not (is_assign(st[0], "size") and is_assign(st[1], "m") and ast.unparse(st[1].value) == "len(%s)" % vecs_src and is_assign(st[2], "c")
            and is_assign(st[3], "a_bar") and is_assign(st[4]) and ast.unparse(st[4].value) == "[]" and isinstance(st[5], ast.For)):
        fail(st[0], "povm equality projection: unexpected statement skeleton")
    lines.append("Definition gen_povm_%s_size (dim : Z) : Z := %s." % (tag, tr_int_env(st[0].value, DIM_ENV)))
    c = st[2].value
    if not (call_of(c, "np.hstack") and len(c.args) == 1 and isinstance(c.args[0], ast.List) and len(c.args[0].elts) == 2):
        fail(c, "expected c = np.hstack([np.array([x]), np.zeros(n)])")
    a, z = c.args[0].elts
    if not (call_of(a, "np.array") and len(a.args) == 1 and isinstance(a.args[0], ast.List) and len(a.args[0].elts) == 1 and not strip_dtype(a)
            and call_of(z, "np.zeros") and len(z.args) == 1 and not strip_dtype(z)):
        fail(c, "expected np.array([x]) and np.zeros(n)")
    sds = {"np.sqrt(%s)" % k: "sd" for k in DIM_ENV}; sds["m"] = "m"
    lines.append("Definition gen_povm_%s_c_first (F : OF) (sd m : F) : F := %s." % (tag, tr_field(a.args[0].elts[0], sds)))
    lines.append("Definition gen_povm_%s_c_zeros (dim : Z) : Z := %s." % (tag, tr_int_env(z.args[0], {"size": "(gen_povm_%s_size dim)" % tag, **DIM_ENV})))
    ab = st[3].value
    sm = ab.left if isinstance(ab, ast.BinOp) else None
    if not (sm is not None and call_of(sm, "np.sum") and len(sm.args) == 1 and ast.unparse(sm.args[0]) in ("np.array(%s)" % vecs_src, vecs_src)
            and len(sm.keywords) == 1 and sm.keywords[0].arg == "axis"):
        fail(st[3], "expected a_bar = np.sum(np.array(vecs), axis=k) <op> m")
    lines.append("Definition gen_povm_%s_axis : Z := %s." % (tag, tr_int_env(sm.keywords[0].value, {})))
    lines.append("Definition gen_povm_%s_abar (F : OF) (s m : F) : F := %s." % (tag, tr_field(ab, {ast.unparse(sm): "s", "m": "m"})))
    lp = st[5]
    lst = st[4].targets[0].id
    if not (isinstance(lp.target, ast.Name) and ast.unparse(lp.iter) == vecs_src and len(lp.body) == 2 and is_assign(lp.body[0])
            and ast.unparse(lp.body[1]) == "%s.append(%s)" % (lst, lp.body[0].targets[0].id) and not lp.orelse):
        fail(lp, "expected for vec in vecs: new_vec = <expr>; new_vecs.append(new_vec)")
    lines.append("Definition gen_povm_%s_newvec (F : OF) (vec a_bar c : F) : F := %s." % (tag, tr_field(lp.body[0].value, {lp.target.id: "vec", "a_bar": "a_bar", "c": "c"})))
    rest = st[6:]
    for n in [n for s_ in st for n in ast.walk(s_)]:
        if isinstance(n, (ast.AugAssign,)) or (isinstance(n, ast.Assign) and any(isinstance(t, ast.Subscript) for t in n.targets)):
            fail(n, "povm equality projection must not update arrays in place")
    if not any(isinstance(n, ast.Name) and n.id == lst for s_ in rest for n in ast.walk(s_)):
        fail(st[5], "the new vecs must be used to build the result")


def tr_mp_eq(stmts, tag, lines):
    """vec = np.zeros(<n>); for hs in hss: vec += hs[<r>]; vec[<i>] -= <c>; new = []; for hs in hss: hs[<r2>] -= <expr over vec, len(hss)>; new.append(hs)"""
    st = stmts
    if not (len(st) >= 5 and is_assign(st[0], "vec") and call_of(st[0].value, "np.zeros") and len(st[0].value.args) == 1 and isinstance(st[1], ast.For)
            and isinstance(st[2], ast.AugAssign) and is_assign(st[3]) and ast.unparse(st[3].value) == "[]" and isinstance(st[4], ast.For)):
        fail(st[0], "mprocess equality projection: unexpected statement skeleton")
    lines.append("Definition gen_mp_%s_zeros (dim : Z) : Z := %s." % (tag, tr_int_env(st[0].value.args[0], {"dim": "dim", **DIM_ENV})))
    l1 = st[1]
    b = l1.body[0] if len(l1.body) == 1 else None
    if not (ast.unparse(l1.iter) == "hss" and isinstance(l1.target, ast.Name) and isinstance(b, ast.AugAssign) and isinstance(b.op, ast.Add) and ast.unparse(b.target) == "vec"
            and isinstance(b.value, ast.Subscript) and ast.unparse(b.value.value) == l1.target.id and not isinstance(b.value.slice, (ast.Slice, ast.Tuple))):
        fail(l1, "expected for hs in hss: vec += hs[r]")
    lines.append("Definition gen_mp_%s_acc_row : Z := %s." % (tag, tr_int_env(b.value.slice, {})))
    d = st[2]
    if not (isinstance(d.op, ast.Sub) and isinstance(d.target, ast.Subscript) and ast.unparse(d.target.value) == "vec" and not isinstance(d.target.slice, (ast.Slice, ast.Tuple))):
        fail(d, "expected vec[i] -= c")
    lines.append("Definition gen_mp_%s_dec_idx : Z := %s." % (tag, tr_int_env(d.target.slice, {})))
    lines.append("Definition gen_mp_%s_dec_val : Z := %s." % (tag, tr_int_env(d.value, {})))
    l2 = st[4]; lst = st[3].targets[0].id
    if not (ast.unparse(l2.iter) == "hss" and isinstance(l2.target, ast.Name) and len(l2.body) == 2 and isinstance(l2.body[0], ast.AugAssign) and isinstance(l2.body[0].op, ast.Sub)
            and isinstance(l2.body[0].target, ast.Subscript) and ast.unparse(l2.body[0].target.value) == l2.target.id and not isinstance(l2.body[0].target.slice, (ast.Slice, ast.Tuple))
            and ast.unparse(l2.body[1]) == "%s.append(%s)" % (lst, l2.target.id)):
        fail(l2, "expected for hs in hss: hs[r] -= <expr>; new_hss.append(hs)")
    lines.append("Definition gen_mp_%s_upd_row : Z := %s." % (tag, tr_int_env(l2.body[0].target.slice, {})))
    lines.append("Definition gen_mp_%s_upd (F : OF) (vec m : F) : F := %s." % (tag, tr_field(l2.body[0].value, {"vec": "vec", "len(hss)": "m"})))
    if not any(isinstance(n, ast.Name) and n.id == lst for s_ in st[5:] for n in ast.walk(s_)):
        fail(l2, "the updated hss must be used to build the result")


def tr_povm_mp_eq(repo, lines):
    t = ast.parse(open(os.path.join(repo, "quara/objects/povm.py")).read())
    b = body_wo_doc(find_method(t, "Povm", "calc_proj_eq_constraint"))
    if not (isinstance(b[0], ast.If) and isinstance(b[0].body[0], ast.Raise) and not b[0].orelse):
        fail(b[0], "Povm.calc_proj_eq_constraint must start with the basis guard")
    b = [x for x in b[1:]]
    b[0:2] = [b[0], b[1]]
    tr_povm_eq(b, "self.vecs", "obj", lines)
    b = body_wo_doc(find_method(t, "Povm", "calc_proj_eq_constraint_with_var"))
    if not (is_assign(b[0], "vecs") and call_of(b[0].value, "convert_var_to_vecs")):
        fail(b[0], "expected vecs = convert_var_to_vecs(c_sys, var, on_para_eq_constraint)")
    tr_povm_eq(b[1:], "vecs", "var", lines)
    t = ast.parse(open(os.path.join(repo, "quara/objects/mprocess.py")).read())
    for meth, src, tag in (("calc_proj_eq_constraint", "self.hss", "obj"), ("calc_proj_eq_constraint_with_var", None, "var")):
        b = body_wo_doc(find_method(t, "MProcess", meth))
        if not (is_assign(b[0], "dim") and is_assign(b[1], "hss")):
            fail(b[0], "expected dim = ...; hss = <copy>")
        v = b[1].value
        if src is not None:
            ok = is_copy_of(v, src) and ast.unparse(v).startswith("copy.deepcopy(")
        else:
            ok = call_of(v, "copy.deepcopy") and len(v.args) == 1 and call_of(v.args[0], "convert_var_to_hss")
        if not ok:
            fail(b[1], "MProcess equality projection must work on a DEEP COPY of its hss")
        tr_mp_eq(b[2:], tag, lines)


STATICS = [("state.py", "State"), ("povm.py", "Povm"), ("gate.py", "Gate"), ("mprocess.py", "MProcess")]


def tr_static_defaults(repo):
    rows = []
    for fn, cls in STATICS:
        tree = ast.parse(open(os.path.join(repo, "quara/objects", fn)).read())
        for meth in ("calc_proj_eq_constraint_with_var", "calc_proj_ineq_constraint_with_var"):
            f = find_method(tree, cls, meth)
            names = [a.arg for a in f.args.args]
            if FLAG not in names:
                fail(f, "no on_para_eq_constraint parameter")
            k = names.index(FLAG) - (len(names) - len(f.args.defaults))
            if k < 0:
                fail(f, "on_para_eq_constraint has no default")
            c = const_val(f.args.defaults[k])
            if c is None:
                fail(f, "non-constant default")
            rows.append(("%s.%s" % (cls, meth), c))
    return rows


def main():
    repo, out = sys.argv[1], sys.argv[2]
    try:
        tree = ast.parse(open(os.path.join(repo, "quara/objects/qoperation.py")).read())
        lines = ["(* REGENERATED by gen/c04_py2coq.py from quara/objects/qoperation.py and quara/objects/mprocess.py - do not edit *)",
                 "From Coq Require Import String List Bool ZArith.", "From QV.Core Require Import OF.", "From QV.Model Require Import C04_PySem.", "Import ListNotations.",
                 "Open Scope string_scope.", ""]
        for f in FACTORIES:
            flags, forwards, callees = tr_factory(find_method(tree, "QOperation", f))
            lines.append("Definition gen_%s_flags (req : option bool) (own : bool) : list pyval :=\n  [%s]." % (f, ";\n   ".join(flags)))
            lines.append("Definition gen_%s_forwards : list (string * bool) := [%s]." % (f, "; ".join("(%s, %s)" % (coq_str(p), "true" if b else "false") for p, b in forwards)))
            lines.append("Definition gen_%s_callees : list string := [%s]." % (f, "; ".join(coq_str(c) for c in callees)))
            lines.append("")
        tree2 = ast.parse(open(os.path.join(repo, "quara/objects/mprocess.py")).read())
        cond, lo, hi, cflag = tr_mp_ineq(find_method(tree2, "MProcess", "calc_proj_ineq_constraint_with_var"))
        lines.append("Open Scope Z_scope.")
        lines.append("Definition gen_mp_ineq_delete (flag : bool) (i m : Z) : bool := %s." % cond)
        lines.append("Definition gen_mp_ineq_slice (dim : Z) : Z * Z := (%s, %s)." % (lo, hi))
        lines.append("Definition gen_mp_ineq_callee_flag : pyval := %s." % cflag)
        v2h = tr_v2h(find_function(tree2, "convert_var_to_hss"))
        lines.append("Definition gen_v2h_hs_size (dim : Z) : Z := %s." % v2h["hs_size"])
        for k in ("m_true", "m_false", "loop_n", "insert_pos"):
            lines.append("Definition gen_v2h_%s (dim len : Z) : Z := %s." % (k, v2h[k]))
        for k in ("one_len", "one_index", "one_value", "acc_len"):
            lines.append("Definition gen_v2h_%s (dim len : Z) : Z := %s." % (k, v2h[k]))
        lines.append("Definition gen_v2h_slice (dim len o : Z) : Z * Z := %s." % v2h["slice"])
        lines.append("Definition gen_v2h_reshape_true (dim len : Z) : Z * Z * Z := %s." % v2h["reshape_true"])
        lines.append("Definition gen_v2h_reshape_false (dim len : Z) : Z * Z * Z := %s." % v2h["reshape_false"])
        cond2, row, axis = tr_h2v(find_function(tree2, "convert_hss_to_var"))
        lines.append("Definition gen_h2v_delete (i m : Z) : bool := %s." % cond2.replace("flag", "true"))
        lines.append("Definition gen_h2v_row : Z := %s." % row)
        lines.append("Definition gen_h2v_axis : Z := %s." % axis)
        lines.append("Open Scope string_scope.")
        lines.append("Definition gen_static_defaults : list (string * pyval) := [%s]." % "; ".join("(%s, %s)" % (coq_str(n), c) for n, c in tr_static_defaults(repo)))
        lines.append("Open Scope Z_scope.")
        for fn, cls, attr, tag in (("state.py", "State", "vec", "state"), ("gate.py", "Gate", "hs", "gate")):
            t = ast.parse(open(os.path.join(repo, "quara/objects", fn)).read())
            ws = tr_eqproj_obj(find_method(t, cls, "calc_proj_eq_constraint"), attr)
            lines.append("Definition gen_%s_obj_writes (dim : Z) : list write := [%s]." % (tag, "; ".join(ws)))
            ws, tia = tr_eqproj_var(find_method(t, cls, "calc_proj_eq_constraint_with_var"))
            lines.append("Definition gen_%s_var_writes (dim : Z) : list write := [%s]." % (tag, "; ".join(ws)))
            lines.append("Definition gen_%s_var_true_is_arg : bool := %s." % (tag, "true" if tia else "false"))
        tr_povm_mp_eq(repo, lines)
        open(out, "w").write("\n".join(lines) + "\n")
    except Unsupported as e:
        sys.stderr.write("UNSUPPORTED: %s\n" % e)
        sys.exit(3)
    except (SyntaxError, OSError) as e:
        sys.stderr.write("ERROR: %s\n" % e)
        sys.exit(4)


if __name__ == "__main__":
    main()
