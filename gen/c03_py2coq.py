#!/usr/bin/env python3
"""Fail-closed translator (property C03) for the integer / string-dispatch code of quara that the arithmetic translator
gen/py2coq.py cannot express (closures over `self`, dict results, string modes, `range` loops, variables first bound inside a
branch or a loop, exceptions):

  quara/objects/qoperations.py   SetQOperations._get_operation_mode_to_total_index_map
                                 SetQOperations._get_mode_from_index_var_total
                                 SetQOperations._get_operation_item_var_first_index
                                 SetQOperations.index_var_total_from_local_info
                                 SetQOperations.local_info_from_index_var_total
                                 SetQOperations.set_qoperations_from_var_total   (its slicing skeleton: length guard, start/end bookkeeping,
                                 which piece var_total[start:end] goes to which operation, under which class the result is stored; the
                                 calls of generate_from_var / SetQOperations(...) stay symbolic; var_total is represented by its length)
                                 the 18 accessors var_* / size_var_* / _all_qoperations (as layouts, class Accessor)
  quara/protocol/qtomography/standard/standard_{qst,povmt,qpt,qmpt}.py
                                 the `if on_para_eq_constraint: self._num_variables = ... else: self._num_variables = ...` of __init__

Target: Gallina over the small exception monad of coq/theories/Model/C03_PySem.v (pyres / pbind / pget / pfold).  Every method
becomes  gen_<name> (s : sizes) <python parameters> : pyres <result>.

When an offset method calls an accessor the translation substitutes
  self.size_var_<kind>s()      ->  size_kind s K<kind>        (sum of that kind's per-operation variable counts)
  self.size_var_total()        ->  size_total s
  self.size_var_<kind>         ->  s K<kind>                  (as a callable: i |-> the i-th variable count, IndexError past the end)
  self.<kind>s                 ->  s K<kind>                  (only ever enumerated for its length; the translator checks that)
  calls of the other translated methods -> the regenerated functions
  dict(state=, gate=, povm=, mprocess=) -> Build_fimap ;  dict(mode=, index_operations=, index_var_local=) -> a triple
  state.dim / gate.dim / povm.dim / mprocess.dim -> dim ; len(vecs) / num_outcomes -> m     (num_variables)
The accessors themselves (var_<kind>s, var_total, size_var_<kind>s, size_var_total, var_<kind>, size_var_<kind>, _all_qoperations) are
translated as LAYOUTS (class Accessor below) and coq/gen/C03_SetEquiv.v proves that they compute what is substituted above; what stays
trusted is listed at class Accessor (NumPy concatenation facts).

Subset of statements: docstring; `x = e`; `x += e`; `x: T` (declares x, unbound); `if / elif / else`; `for i in range(e)`;
`for i, _ in enumerate(x)`; `return e`; `raise IndexError|ValueError(<message>)`.  A variable that is not assigned on every path
(declared only, first assigned inside a branch or a loop) is carried as an option and reading it is `pget` (UnboundLocalError).
Effectful sub-expressions (calls that may raise, reads of possibly-unbound variables, dict lookups with a computed key) are hoisted
into binds, left to right.  Anything else raises Unsupported: the tie is then reported broken, never silently skipped.
"""
import ast, sys, os

KINDS = ["state", "gate", "povm", "mprocess"]
KCON = {"state": "KState", "gate": "KGate", "povm": "KPovm", "mprocess": "KMproc"}
PLURAL = {"states": "state", "gates": "gate", "povms": "povm", "mprocesses": "mprocess"}
METHODS = {   # python name -> (coq name, [(param, type)], result type)
    "_get_operation_mode_to_total_index_map": ("gen_first_index_map", [], "fim"),
    "_get_mode_from_index_var_total": ("gen_mode_from_index_var_total", [("index_var_total", "Z")], "str"),
    "_get_operation_item_var_first_index": ("gen_item_var_first_index", [("mode", "str"), ("index", "Z")], "Z"),
    "index_var_total_from_local_info": ("gen_index_var_total_from_local_info", [("mode", "str"), ("index_operations", "Z"), ("index_var_local", "Z")], "Z"),
    "local_info_from_index_var_total": ("gen_local_info_from_index_var_total", [("index_var_total", "Z")], "info"),
}
# the slicing skeleton of set_qoperations_from_var_total: the parameter var_total is represented by its LENGTH (a Z); the result is the PLAN
# [(kind under which the regenerated operation is stored, (kind, index, start, end) of the operation regenerated from var_total[start:end])]
REGEN = {"set_qoperations_from_var_total": ("gen_regen_plan", [("var_total", "veclen")], "plan")}
CLASSKEY = {"State": "KState", "Gate": "KGate", "Povm": "KPovm", "MProcess": "KMproc"}
ORDER = ["_get_operation_mode_to_total_index_map", "_get_mode_from_index_var_total", "_get_operation_item_var_first_index",
         "index_var_total_from_local_info", "local_info_from_index_var_total"]
COQTY = {"Z": "Z", "str": "string", "fim": "fimap", "sizelist": "(list Z)", "strlist": "(list string)", "info": "(string * Z * Z)",
         "msg": "unit", "veclen": "Z", "oplist": "(list (kind * Z * Z))", "op": "(kind * Z * Z)", "slice": "(Z * Z)", "regen": "(kind * Z * Z * Z)",
         "plan": "(list (kind * (kind * Z * Z * Z)))"}
EXC = {"IndexError": "EIndex", "ValueError": "EValue"}


class Unsupported(Exception):
    pass


def fail(node, msg):
    raise Unsupported("%s (line %s): %s" % (type(node).__name__, getattr(node, "lineno", "?"), msg))


def coq_str(s):
    if any(ord(ch) < 32 or ord(ch) > 126 or ch == '"' for ch in s):
        raise Unsupported("string constant %r" % s)
    return '"%s"%%string' % s


class Method:
    """one method body -> Coq text.  env: name -> (type, 'def' | 'maybe'); the Coq variable of a 'maybe' name holds an option."""

    def __init__(self, fdef):
        self.f = fdef
        self.cname, self.params, self.rtype = (METHODS[fdef.name] if fdef.name in METHODS else REGEN[fdef.name])
        self.fresh = 0
        self.defined_before = []     # coq names of methods already emitted (callable)

    def tmp(self):
        self.fresh += 1
        return "t%d_" % self.fresh

    # ------------------------------------------------------------ expressions
    # returns (coq_text, type, binds) ; binds = [(coq_var, monadic_text)] to perform first, in order
    def expr(self, e, env):
        if isinstance(e, ast.Constant):
            if type(e.value) is int:
                return "(%d)%%Z" % e.value, "Z", []
            if type(e.value) is str:
                return coq_str(e.value), "str", []
            fail(e, "constant %r" % (e.value,))
        if isinstance(e, ast.Name):
            if e.id not in env:
                fail(e, "unknown variable %s" % e.id)
            t, st = env[e.id]
            if st == "def":
                return e.id, t, []
            v = self.tmp()
            return v, t, [(v, "(pget %s)" % e.id)]
        if isinstance(e, ast.List):
            if not e.elts or not all(isinstance(x, ast.Constant) and type(x.value) is str for x in e.elts):
                fail(e, "only non-empty lists of str constants")
            return "[%s]" % "; ".join(coq_str(x.value) for x in e.elts), "strlist", []
        if isinstance(e, ast.BinOp) and isinstance(e.op, (ast.Add, ast.Sub)):
            a, ta, ba = self.expr(e.left, env)
            b, tb, bb = self.expr(e.right, env)
            if ta != "Z" or tb != "Z":
                fail(e, "arithmetic on %s, %s" % (ta, tb))
            return "(%s %s %s)%%Z" % (a, "+" if isinstance(e.op, ast.Add) else "-", b), "Z", ba + bb
        if isinstance(e, ast.Attribute) and isinstance(e.value, ast.Name) and e.value.id == "self":
            # self.size_var_<kind>  (used as a callable)  /  self.<kind>s  (the list of operations, enumerated only)
            if e.attr.startswith("size_var_") and e.attr[len("size_var_"):] in KINDS:
                return "(s %s)" % KCON[e.attr[len("size_var_"):]], "sizelist", []
            if e.attr in PLURAL:
                return "(s %s)" % KCON[PLURAL[e.attr]], "sizelist", []
            fail(e, "attribute self.%s" % e.attr)
        if isinstance(e, ast.Subscript) and not isinstance(e.slice, ast.Slice):
            a, ta, ba = self.expr(e.value, env)
            if ta != "fim":
                fail(e, "subscript of %s" % ta)
            if isinstance(e.slice, ast.Constant) and type(e.slice.value) is str:
                if e.slice.value not in KINDS:
                    fail(e, "unknown key %r of the first-index map" % e.slice.value)
                return "(fi_%s %s)" % (e.slice.value, a), "Z", ba
            k, tk, bk = self.expr(e.slice, env)
            if tk != "str":
                fail(e, "key of type %s" % tk)
            v = self.tmp()
            return v, "Z", ba + bk + [(v, "(fim_get %s %s)" % (a, k))]
        if isinstance(e, ast.Call) and isinstance(e.func, ast.Attribute) and e.func.attr in ("format", "join") and self.msg_ok(e):
            return "tt", "msg", []          # an exception message: cannot raise, has no effect, usable only as the argument of a raise
        if isinstance(e, ast.Dict):
            # {State: [], Gate: [], Povm: [], MProcess: []} : the regenerated operations, grouped by class; starts empty
            if sorted(ast.unparse(k_) for k_ in e.keys) != sorted(CLASSKEY) or not all(isinstance(v_, ast.List) and not v_.elts for v_ in e.values):
                fail(e, "dict literal")
            return "[]", "plan", []
        if isinstance(e, ast.Call) and isinstance(e.func, ast.Name) and e.func.id == "__append__" and len(e.args) == 3:
            # D[type(q)].append(x)  (rewritten by preprocess): stored under the kind of q
            d_, td, bd = self.expr(e.args[0], env)
            q_, tq, bq = self.expr(e.args[1], env)
            x_, tx, bx = self.expr(e.args[2], env)
            if (td, tq, tx) != ("plan", "op", "regen"):
                fail(e, "append of %s under type(%s) to %s" % (tx, tq, td))
            return "(%s ++ [(op_kind %s, %s)])" % (d_, q_, x_), "plan", bd + bq + bx
        if isinstance(e, ast.Call) and isinstance(e.func, ast.Name) and e.func.id == "SetQOperations" and not e.args:
            kw = {k_.arg: k_.value for k_ in e.keywords}
            want = {"states": "State", "gates": "Gate", "povms": "Povm", "mprocesses": "MProcess"}
            if sorted(kw) != sorted(want):
                fail(e, "SetQOperations(...) keywords")
            base = None
            for k_, cls_ in want.items():
                v_ = kw[k_]
                if not (isinstance(v_, ast.Subscript) and isinstance(v_.value, ast.Name) and isinstance(v_.slice, ast.Name) and v_.slice.id == cls_):
                    fail(e, "SetQOperations(%s=...) is not <dict>[%s]" % (k_, cls_))
                if base is not None and v_.value.id != base:
                    fail(e, "SetQOperations(...) built from two dicts")
                base = v_.value.id
            d_, td, bd = self.expr(ast.Name(id=base, ctx=ast.Load()), env)
            if td != "plan":
                fail(e, "SetQOperations(...) of %s" % td)
            return d_, "plan", bd
        if isinstance(e, ast.Call) and isinstance(e.func, ast.Name) and e.func.id == "len" and len(e.args) == 1 and not e.keywords:
            a_ = e.args[0]
            if isinstance(a_, ast.Name) and a_.id in env and env[a_.id][0] == "veclen":
                return self.expr(a_, env)[0], "Z", self.expr(a_, env)[2]
            if isinstance(a_, ast.Call) and isinstance(a_.func, ast.Attribute) and a_.func.attr == "to_var" and not a_.args and not a_.keywords:
                q_, tq, bq = self.expr(a_.func.value, env)
                if tq == "op":
                    return "(op_size %s)" % q_, "Z", bq
            fail(e, "len(%s)" % ast.unparse(a_))
        if isinstance(e, ast.Subscript) and isinstance(e.slice, ast.Slice):
            v_, tv, bv = self.expr(e.value, env)
            if tv != "veclen" or e.slice.lower is None or e.slice.upper is None or e.slice.step is not None:
                fail(e, "slice")
            a_, ta, ba = self.expr(e.slice.lower, env)
            b_, tb, bb = self.expr(e.slice.upper, env)
            if ta != "Z" or tb != "Z":
                fail(e, "slice bounds")
            return "(%s, %s)" % (a_, b_), "slice", bv + ba + bb
        if isinstance(e, ast.Call) and isinstance(e.func, ast.Attribute) and e.func.attr == "generate_from_var":
            args = list(e.args) + [k_.value for k_ in e.keywords if k_.arg == "var"]
            if len(args) != 1 or any(k_.arg != "var" for k_ in e.keywords):
                fail(e, "generate_from_var arguments")
            q_, tq, bq = self.expr(e.func.value, env)
            v_, tv, bv = self.expr(args[0], env)
            if (tq, tv) != ("op", "slice"):
                fail(e, "generate_from_var of %s on %s" % (tv, tq))
            return "(op_kind %s, op_index %s, fst %s, snd %s)" % (q_, q_, v_, v_), "regen", bq + bv
        if isinstance(e, ast.Call) and isinstance(e.func, ast.Name) and e.func.id == "dict" and not e.args:
            kw = {k.arg: k.value for k in e.keywords}
            if len(kw) != len(e.keywords) or None in kw:
                fail(e, "repeated / starred key")
            if sorted(kw) == sorted(KINDS):
                order, con, ts, rt = KINDS, "(Build_fimap %s)", ["Z"] * 4, "fim"
            elif sorted(kw) == ["index_operations", "index_var_local", "mode"]:
                order, con, ts, rt = ["mode", "index_operations", "index_var_local"], None, ["str", "Z", "Z"], "info"
            else:
                fail(e, "dict with keys %s" % sorted(kw))
            vals, binds = {}, []
            for k_ in [k.arg for k in e.keywords]:          # python evaluates the values in the order written
                v, t, b = self.expr(kw[k_], env)
                if t != ts[order.index(k_)]:
                    fail(e, "value of key %s has type %s" % (k_, t))
                vals[k_] = v; binds += b
            out = (con % " ".join(vals[k_] for k_ in order)) if con else "(" + ", ".join(vals[k_] for k_ in order) + ")"
            return out, rt, binds
        if isinstance(e, ast.Call):
            if e.keywords:
                fail(e, "keyword arguments")
            f = e.func
            if isinstance(f, ast.Attribute) and isinstance(f.value, ast.Name) and f.value.id == "self":
                n = f.attr
                if n == "size_var_total" and not e.args:
                    return "(size_total s)", "Z", []
                if n.startswith("size_var_") and n[len("size_var_"):] in PLURAL and not e.args:
                    return "(size_kind s %s)" % KCON[PLURAL[n[len("size_var_"):]]], "Z", []
                if n == "_all_qoperations" and not e.args:
                    if "gen_all_qoperations_order" not in self.defined_before:
                        fail(e, "call of _all_qoperations before its definition")
                    return "(all_ops s gen_all_qoperations_order)", "oplist", []
                if n in METHODS:
                    cn, ps, rt = METHODS[n]
                    if cn not in self.defined_before:
                        fail(e, "call of %s before its definition (translation order)" % n)
                    if len(e.args) != len(ps):
                        fail(e, "arity of %s" % n)
                    args, binds = [], []
                    for a_, (pn, pt) in zip(e.args, ps):
                        x, tx, bx = self.expr(a_, env)
                        if tx != pt:
                            fail(e, "argument %s of %s has type %s" % (pn, n, tx))
                        args.append(x); binds += bx
                    v = self.tmp()
                    return v, rt, binds + [(v, "(%s s %s)" % (cn, " ".join(args)) if args else "(%s s)" % cn)]
                fail(e, "method self.%s" % n)
            if isinstance(f, ast.Name) and f.id in env and env[f.id][0] == "sizelist" and len(e.args) == 1:
                g, tg, bg = self.expr(f, env)
                x, tx, bx = self.expr(e.args[0], env)
                if tx != "Z":
                    fail(e, "index of type %s" % tx)
                v = self.tmp()
                return v, "Z", bg + bx + [(v, "(py_call_size %s %s)" % (g, x))]
        fail(e, "expression %s" % ast.unparse(e))

    def cond(self, e, env):
        """-> (coq bool text, binds)"""
        if isinstance(e, ast.BoolOp):
            parts = [self.cond(v, env) for v in e.values]
            if any(b for _, b in parts[1:]):
                fail(e, "effectful operand after a short-circuit operator")
            op = " && " if isinstance(e.op, ast.And) else " || "
            return "(" + op.join(p for p, _ in parts) + ")%bool", parts[0][1]
        if isinstance(e, ast.UnaryOp) and isinstance(e.op, ast.Not):
            c, b = self.cond(e.operand, env)
            return "(negb %s)" % c, b
        if isinstance(e, ast.Compare):
            terms = [e.left] + list(e.comparators)
            tr = [self.expr(t, env) for t in terms]
            binds = [b for _, _, bs in tr for b in bs]
            if len(e.ops) > 1 and any(bs for _, _, bs in tr[2:]):
                fail(e, "effectful operand late in a chained comparison")
            out = []
            for op, (a, ta, _), (b, tb, _) in zip(e.ops, tr[:-1], tr[1:]):
                if isinstance(op, (ast.In, ast.NotIn)):
                    if ta != "str" or tb != "strlist":
                        fail(e, "`in` needs str and a list of str")
                    t = "(existsb (String.eqb %s) %s)" % (a, b)
                    out.append(t if isinstance(op, ast.In) else "(negb %s)" % t)
                    continue
                if ta != tb or ta not in ("Z", "str"):
                    fail(e, "comparison of %s with %s" % (ta, tb))
                if ta == "str":
                    if isinstance(op, ast.Eq):
                        out.append("(String.eqb %s %s)" % (a, b))
                    elif isinstance(op, ast.NotEq):
                        out.append("(negb (String.eqb %s %s))" % (a, b))
                    else:
                        fail(e, "ordering of strings")
                    continue
                m = {ast.Eq: "(%s =? %s)%%Z", ast.NotEq: "(negb (%s =? %s)%%Z)", ast.Lt: "(%s <? %s)%%Z", ast.LtE: "(%s <=? %s)%%Z",
                     ast.Gt: "(%s >? %s)%%Z", ast.GtE: "(%s >=? %s)%%Z"}
                if type(op) not in m:
                    fail(e, "comparison operator")
                out.append(m[type(op)] % (a, b))
            return ("(" + " && ".join(out) + ")%bool" if len(out) > 1 else out[0]), binds
        fail(e, "condition %s" % ast.unparse(e))

    @staticmethod
    def wrap(binds, body):
        for v, m in reversed(binds):
            body = "pbind %s (fun %s =>\n  %s)" % (m, v, body)
        return body

    # ------------------------------------------------------------ static analysis helpers
    def msg_ok(self, e):
        """the argument of an exception constructor: may not raise, has no effect (it is dropped)"""
        if isinstance(e, (ast.Constant, ast.Name)):
            return True
        if isinstance(e, ast.JoinedStr):
            return all(isinstance(v, ast.Constant) or (isinstance(v, ast.FormattedValue) and isinstance(v.value, ast.Name) and v.format_spec is None) for v in e.values)
        if isinstance(e, ast.Call) and isinstance(e.func, ast.Attribute) and e.func.attr in ("format", "join") and not e.keywords:
            return self.msg_ok(e.func.value) and all(self.msg_ok(a) for a in e.args)
        return False

    def assigned(self, stmts):
        out = []
        for s_ in stmts:
            for n in ast.walk(s_):
                tg = None
                if isinstance(n, ast.Assign) and len(n.targets) == 1 and isinstance(n.targets[0], ast.Name):
                    tg = n.targets[0].id
                elif isinstance(n, (ast.AugAssign, ast.AnnAssign)) and isinstance(n.target, ast.Name):
                    tg = n.target.id
                elif isinstance(n, (ast.Assign, ast.AugAssign, ast.AnnAssign)):
                    fail(n, "assignment target")
                if tg is not None and tg not in out:
                    out.append(tg)
        return out

    @staticmethod
    def reads(stmts):
        return {n.id for s_ in stmts for n in ast.walk(s_) if isinstance(n, ast.Name) and isinstance(n.ctx, ast.Load)}

    def types_of_assigned(self, stmts, env):
        """types of the variables assigned somewhere in stmts (first assignment decides; later ones must agree)"""
        env = dict(env); out = {}

        def visit(block):
            for s_ in block:
                if isinstance(s_, ast.Assign):
                    _, t, _ = self.expr(s_.value, env)
                    name = s_.targets[0].id
                elif isinstance(s_, ast.AugAssign):
                    name = s_.target.id
                    t = env[name][0] if name in env else fail(s_, "augmented assignment to an unknown variable")
                elif isinstance(s_, ast.AnnAssign):
                    name = s_.target.id; t = self.ann_type(s_)
                elif isinstance(s_, ast.If):
                    visit(s_.body); visit(s_.orelse); continue
                elif isinstance(s_, ast.For):
                    for nm in self.loop_names(s_):
                        env[nm] = (self.loop_elt(s_, env), "def")
                    visit(s_.body); continue
                else:
                    continue
                if name in out and out[name] != t:
                    fail(s_, "variable %s changes type %s -> %s" % (name, out[name], t))
                if name in env and env[name][0] != t:
                    fail(s_, "variable %s changes type %s -> %s" % (name, env[name][0], t))
                out[name] = t
                env[name] = (t, "def")
        visit(stmts)
        return out

    def ann_type(self, s_):
        a = ast.unparse(s_.annotation)
        if a == "str":
            return "str"
        if a == "int":
            return "Z"
        if a.startswith("List[") and s_.value is None:
            return "sizelist"
        fail(s_, "annotation %s" % a)

    @staticmethod
    def loop_elt(s_, env):
        """element type of a loop: an operation when iterating over a list of operations, an integer otherwise"""
        return "op" if isinstance(s_.iter, ast.Name) and s_.iter.id in env and env[s_.iter.id][0] == "oplist" and isinstance(s_.target, ast.Name) else "Z"

    def preprocess(self, stmts):
        """two surface forms of the regeneration loop, rewritten into plain assignments:
           a, b = e1, e2            ->  a = e1 ; b = e2      (accepted only when e2 does not mention a)
           D[type(q)].append(x)     ->  D = __append__(D, q, x)"""
        out = []
        for st in stmts:
            if isinstance(st, ast.Assign) and len(st.targets) == 1 and isinstance(st.targets[0], ast.Tuple) and isinstance(st.value, ast.Tuple) \
                    and len(st.targets[0].elts) == len(st.value.elts) and all(isinstance(t_, ast.Name) for t_ in st.targets[0].elts):
                names = [t_.id for t_ in st.targets[0].elts]
                for i_, v_ in enumerate(st.value.elts):
                    if any(isinstance(n_, ast.Name) and n_.id in names[:i_] for n_ in ast.walk(v_)):
                        fail(st, "tuple assignment whose right-hand side mentions an earlier target")
                for t_, v_ in zip(st.targets[0].elts, st.value.elts):
                    a_ = ast.Assign(targets=[ast.Name(id=t_.id, ctx=ast.Store())], value=v_)
                    ast.copy_location(a_, st); ast.fix_missing_locations(a_); out.append(a_)
                continue
            if isinstance(st, ast.Expr) and isinstance(st.value, ast.Call) and isinstance(st.value.func, ast.Attribute) and st.value.func.attr == "append" \
                    and len(st.value.args) == 1 and not st.value.keywords and isinstance(st.value.func.value, ast.Subscript):
                sub = st.value.func.value
                if isinstance(sub.value, ast.Name) and isinstance(sub.slice, ast.Call) and isinstance(sub.slice.func, ast.Name) and sub.slice.func.id == "type" \
                        and len(sub.slice.args) == 1 and isinstance(sub.slice.args[0], ast.Name) and not sub.slice.keywords:
                    call = ast.Call(func=ast.Name(id="__append__", ctx=ast.Load()), args=[ast.Name(id=sub.value.id, ctx=ast.Load()), sub.slice.args[0], st.value.args[0]], keywords=[])
                    a_ = ast.Assign(targets=[ast.Name(id=sub.value.id, ctx=ast.Store())], value=call)
                    ast.copy_location(a_, st); ast.fix_missing_locations(a_); out.append(a_)
                    continue
            for fld in ("body", "orelse"):
                if hasattr(st, fld) and isinstance(getattr(st, fld), list) and getattr(st, fld) and isinstance(getattr(st, fld)[0], ast.stmt):
                    setattr(st, fld, self.preprocess(getattr(st, fld)))
            out.append(st)
        return out

    def loop_names(self, s_):
        if isinstance(s_.target, ast.Name):
            return [s_.target.id]
        if isinstance(s_.target, ast.Tuple) and len(s_.target.elts) == 2 and all(isinstance(x, ast.Name) for x in s_.target.elts) and s_.target.elts[1].id == "_":
            return [s_.target.elts[0].id]
        fail(s_, "loop target")

    # ------------------------------------------------------------ statements
    def pack(self, names, env):
        """tuple of the CURRENT values of names (option-typed for 'maybe' names)"""
        return "(" + ", ".join(names) + ")" if len(names) != 1 else names[0]

    def pat(self, names):
        return "'(" + ", ".join(names) + ")" if len(names) != 1 else names[0]

    def block(self, stmts, env, k, after_reads=frozenset()):
        """Coq text (type pyres R) of stmts followed by k(env).  after_reads: names read after this block (for loop locals)."""
        if not stmts:
            return k(env)
        s_, rest = stmts[0], stmts[1:]
        later = self.reads(rest) | set(after_reads)
        cont = lambda env2: self.block(rest, env2, k, after_reads)
        if isinstance(s_, ast.Expr) and isinstance(s_.value, ast.Constant) and isinstance(s_.value.value, str):
            return cont(env)
        if isinstance(s_, ast.Return):
            if s_.value is None:
                fail(s_, "bare return")
            return self.ret(s_.value, env)
        if isinstance(s_, ast.Raise):
            if not (isinstance(s_.exc, ast.Call) and isinstance(s_.exc.func, ast.Name) and s_.exc.func.id in EXC and not s_.exc.keywords
                    and all(self.msg_ok(a) for a in s_.exc.args) and s_.cause is None):
                fail(s_, "raise of anything but IndexError/ValueError(<plain message>)")
            return "PErr %s" % EXC[s_.exc.func.id]
        if isinstance(s_, ast.AnnAssign):
            if s_.value is not None or not isinstance(s_.target, ast.Name):
                fail(s_, "annotated assignment with a value")
            t = self.ann_type(s_)
            env2 = dict(env); env2[s_.target.id] = (t, "maybe")
            return "let %s := (@None %s) in\n  %s" % (s_.target.id, COQTY[t], cont(env2))
        if isinstance(s_, ast.AugAssign):
            if not isinstance(s_.target, ast.Name):
                fail(s_, "augmented assignment target")
            fake = ast.Assign(targets=[ast.Name(id=s_.target.id, ctx=ast.Store())],
                              value=ast.BinOp(left=ast.Name(id=s_.target.id, ctx=ast.Load()), op=s_.op, right=s_.value))
            ast.copy_location(fake, s_); ast.fix_missing_locations(fake)
            return self.block([fake] + rest, env, k, after_reads)
        if isinstance(s_, ast.Assign):
            if len(s_.targets) != 1 or not isinstance(s_.targets[0], ast.Name):
                fail(s_, "assignment target")
            name = s_.targets[0].id
            v, t, binds = self.expr(s_.value, env)
            if name in env and env[name][0] != t:
                fail(s_, "variable %s changes type" % name)
            env2 = dict(env)
            if name in env and env[name][1] == "maybe":
                body = "let %s := Some %s in\n  %s" % (name, v, cont(env2))
            else:
                env2[name] = (t, "def")
                body = "let %s := %s in\n  %s" % (name, v, cont(env2))
            return self.wrap(binds, body)
        if isinstance(s_, ast.If):
            c, binds = self.cond(s_.test, env)
            if self.ends(s_.body) and (not s_.orelse or self.ends(s_.orelse)):
                a = self.block(s_.body, env, lambda e_: fail(s_, "fallthrough"))
                b = self.block(s_.orelse, env, lambda e_: fail(s_, "fallthrough")) if s_.orelse else cont(env)
                return self.wrap(binds, "if %s then %s\n  else %s" % (c, a, b))
            # join: the variables assigned in some branch are carried out of the `if`
            tys = self.types_of_assigned(s_.body + s_.orelse, env)
            names = [n for n in self.assigned(s_.body + s_.orelse)]
            pre, env1 = "", dict(env)
            for n in names:
                if n not in env1:
                    env1[n] = (tys[n], "maybe")
                    pre += "let %s := (@None %s) in\n  " % (n, COQTY[tys[n]])
            yield_ = lambda e_: "POk %s" % self.pack(names, e_)
            a = self.block(s_.body, env1, yield_)
            b = self.block(s_.orelse, env1, yield_) if s_.orelse else yield_(env1)
            return pre + self.wrap(binds, "pbind (if %s then %s\n  else %s) (fun %s =>\n  %s)" % (c, a, b, self.pat(names), cont(env1)))
        if isinstance(s_, ast.For):
            if s_.orelse:
                fail(s_, "for-else")
            (ivar,) = self.loop_names(s_)
            it = s_.iter
            elt = self.loop_elt(s_, env)
            if elt == "op":
                x, tx, binds = self.expr(it, env)
                it = ast.Call(func=ast.Name(id="__ops__", ctx=ast.Load()), args=[it], keywords=[])
            elif not (isinstance(it, ast.Call) and isinstance(it.func, ast.Name) and not it.keywords and len(it.args) == 1):
                fail(s_, "loop iterable")
            else:
                x, tx, binds = self.expr(it.args[0], env)
            if it.func.id == "__ops__":
                idx = x
            elif it.func.id == "range" and isinstance(s_.target, ast.Name) and tx == "Z":
                idx = "(py_range %s)" % x
            elif it.func.id == "enumerate" and isinstance(s_.target, ast.Tuple) and tx == "sizelist":
                idx = "(py_enum_idx %s)" % x
            else:
                fail(s_, "loop over %s(%s)" % (it.func.id, tx))
            if any(isinstance(n, (ast.Return, ast.Raise, ast.Break, ast.Continue, ast.For, ast.While)) for b_ in s_.body for n in ast.walk(b_)):
                fail(s_, "return / raise / break / continue / nested loop inside a loop")
            envb = dict(env); envb[ivar] = (elt, "def")
            tys = self.types_of_assigned(s_.body, envb)
            names = self.assigned(s_.body)
            if ivar in names:
                fail(s_, "assignment to the loop variable")
            # loop-local: assigned by a top-level statement of the body before any read, unknown before the loop, not read afterwards
            local, seen_read = [], set()
            for b_ in s_.body:
                if isinstance(b_, ast.Assign) and isinstance(b_.targets[0], ast.Name):
                    nm = b_.targets[0].id
                    if nm not in env and nm not in later and nm not in seen_read and nm not in self.reads([b_.value]) \
                            and sum(1 for n in ast.walk(ast.Module(body=s_.body, type_ignores=[])) if isinstance(n, ast.Name) and n.id == nm and isinstance(n.ctx, ast.Store)) == 1:
                        local.append(nm)
                seen_read |= self.reads([b_])
            carried = [n for n in names if n not in local]
            pre, env1 = "", dict(env)
            for n in carried:
                if n not in env1:
                    env1[n] = (tys[n], "maybe")
                    pre += "let %s := (@None %s) in\n  " % (n, COQTY[tys[n]])
            envb = dict(env1); envb[ivar] = (elt, "def")
            body = self.block(s_.body, envb, lambda e_: "POk %s" % self.pack(carried, e_))
            if not carried:
                fail(s_, "loop without carried state")
            return pre + self.wrap(binds, "pbind (pfold (fun %s %s =>\n    %s) %s %s) (fun %s =>\n  %s)" % (
                self.pat(carried), ivar, body, idx, self.pack(carried, env1), self.pat(carried), cont(env1)))
        fail(s_, "statement")

    def ends(self, stmts):
        if not stmts:
            return False
        last = stmts[-1]
        if isinstance(last, (ast.Return, ast.Raise)):
            return True
        if isinstance(last, ast.If) and last.orelse:
            return self.ends(last.body) and self.ends(last.orelse)
        return False

    def ret(self, e, env):
        v, t, binds = self.expr(e, env)
        if t != self.rtype:
            fail(e, "result of type %s, expected %s" % (t, self.rtype))
        return self.wrap(binds, "POk %s" % v)

    RESERVED = {"s", "sizes", "pbind", "pget", "pfold", "POk", "PErr", "Some", "None", "fun", "let", "in", "if", "then", "else", "match", "with", "end",
                "fst", "snd", "nth", "map", "seq", "length", "negb", "existsb", "size_kind", "size_total", "fim_get", "py_range", "py_enum_idx", "py_call_size",
                "Build_fimap", "fi_state", "fi_gate", "fi_povm", "fi_mprocess", "KState", "KGate", "KPovm", "KMproc", "Z", "string", "list", "bool", "true", "false",
                "EIndex", "EValue", "EUnbound", "EKey", "fimap", "pyres", "forall", "Definition", "Type", "Prop", "Set", "as", "return", "at", "using"}

    def translate(self, defined_before):
        self.defined_before = defined_before
        f = self.f
        for n in ast.walk(f):
            nm = n.id if isinstance(n, ast.Name) else n.arg if isinstance(n, ast.arg) else None
            if nm is not None and (nm in self.RESERVED or nm.startswith("gen_") or (nm.endswith("_") and nm[:1] == "t" and nm[1:-1].isdigit()) or not nm.isidentifier() or not nm.isascii()):
                if nm != "_":
                    fail(n, "identifier %s would capture a name of the generated text" % nm)
        if f.args.vararg or f.args.kwarg or f.args.kwonlyargs or f.args.defaults or f.decorator_list:
            fail(f, "signature")
        names = [a.arg for a in f.args.args]
        if names != ["self"] + [p for p, _ in self.params]:
            fail(f, "parameters %s, expected %s" % (names, ["self"] + [p for p, _ in self.params]))
        env = {p: (t, "def") for p, t in self.params}
        stmts = self.preprocess(list(f.body)) if f.name in REGEN else f.body
        body = self.block(stmts, env, lambda e_: fail(f, "function falls off its end"))
        ps = " ".join("(%s : %s)" % (p, COQTY[t]) for p, t in self.params)
        return "Definition %s (s : sizes) %s : pyres %s :=\n  %s." % (self.cname, ps, COQTY[self.rtype], body)


# ---------------------------------------------------------------------------------- num_variables of the four tomography classes
NV = [("quara/protocol/qtomography/standard/standard_qst.py", "StandardQst", "gen_nv_qst"),
      ("quara/protocol/qtomography/standard/standard_qpt.py", "StandardQpt", "gen_nv_qpt"),
      ("quara/protocol/qtomography/standard/standard_povmt.py", "StandardPovmt", "gen_nv_povmt"),
      ("quara/protocol/qtomography/standard/standard_qmpt.py", "StandardQmpt", "gen_nv_qmpt")]


def nv_expr(e):
    """integer expression over  <obj>.dim (-> dim),  len(vecs) / num_outcomes (-> m),  + - * ** (const 2 or 4), int constants"""
    if isinstance(e, ast.Constant) and type(e.value) is int:
        return "(%d)" % e.value
    if isinstance(e, ast.Attribute) and e.attr == "dim" and isinstance(e.value, ast.Name) and e.value.id in ("state", "gate", "povm", "mprocess"):
        return "dim"
    if isinstance(e, ast.Name) and e.id == "num_outcomes":
        return "m"
    if isinstance(e, ast.Call) and isinstance(e.func, ast.Name) and e.func.id == "len" and len(e.args) == 1 and not e.keywords \
            and isinstance(e.args[0], ast.Name) and e.args[0].id == "vecs":
        return "m"
    if isinstance(e, ast.BinOp):
        if isinstance(e.op, ast.Pow):
            if not (isinstance(e.right, ast.Constant) and e.right.value in (2, 4)):
                fail(e, "only ** 2 and ** 4")
            a = nv_expr(e.left)
            return "(%s)" % " * ".join([a] * e.right.value)
        ops = {ast.Add: "+", ast.Sub: "-", ast.Mult: "*"}
        if type(e.op) in ops:
            return "(%s %s %s)" % (nv_expr(e.left), ops[type(e.op)], nv_expr(e.right))
    fail(e, "num_variables expression %s" % ast.unparse(e))


def nv_translate(repo, path, cls, coq_name):
    tree = ast.parse(open(os.path.join(repo, path)).read())
    cdef = [n for n in tree.body if isinstance(n, ast.ClassDef) and n.name == cls]
    if len(cdef) != 1:
        raise Unsupported("class %s not found in %s" % (cls, path))
    stores = [n for n in ast.walk(cdef[0]) if isinstance(n, ast.Attribute) and n.attr == "_num_variables" and isinstance(n.ctx, ast.Store)]
    init = [n for n in cdef[0].body if isinstance(n, ast.FunctionDef) and n.name == "__init__"]
    if len(init) != 1:
        raise Unsupported("%s.__init__" % cls)
    hits = []
    for n in init[0].body:           # top level of __init__ only: the assignment is unconditional but for the flag
        if isinstance(n, ast.If) and any(isinstance(x, ast.Attribute) and x.attr == "_num_variables" for x in ast.walk(n)):
            hits.append(n)
    if len(hits) != 1 or len(stores) != 2:
        raise Unsupported("%s: expected exactly one top-level `if` of __init__ assigning self._num_variables in both branches (found %d, %d stores)" % (cls, len(hits), len(stores)))
    n = hits[0]
    if not (isinstance(n.test, ast.Name) and n.test.id == "on_para_eq_constraint" and len(n.body) == 1 and len(n.orelse) == 1):
        raise Unsupported("%s: shape of the num_variables `if`" % cls)
    if any(isinstance(x, ast.Name) and x.id == "on_para_eq_constraint" and isinstance(x.ctx, ast.Store) for x in ast.walk(init[0])):
        raise Unsupported("%s: on_para_eq_constraint is reassigned in __init__" % cls)
    br = []
    for b in (n.body[0], n.orelse[0]):
        if not (isinstance(b, ast.Assign) and len(b.targets) == 1 and isinstance(b.targets[0], ast.Attribute) and b.targets[0].attr == "_num_variables"
                and isinstance(b.targets[0].value, ast.Name) and b.targets[0].value.id == "self"):
            raise Unsupported("%s: branch of the num_variables `if`" % cls)
        br.append(nv_expr(b.value))
    return "(* from %s : %s.__init__ *)\nDefinition %s (dim m : Z) (on_para_eq_constraint : bool) : Z :=\n  (if on_para_eq_constraint then %s else %s)%%Z." % (path, cls, coq_name, br[0], br[1])


# ---------------------------------------------------------------------------------- the accessors the offset methods are built on
# var_<kind>s, var_total, size_var_<kind>s, size_var_total, var_<kind>(index), size_var_<kind>(index), _all_qoperations.
# They are NumPy one-liners; what is translated is their LAYOUT: which list of operations, in which order, which operation.
# Symbolic values:  ("ops", K)  self.<kind>s            ("vecs", K)  [x.to_var() for x in self.<kind>s]
#                   ("vec", coq : list kind)  a vector that is the concatenation of the blocks of these kinds, in this order
#                   ("order", coq : list kind)  a list of operations = all operations of these kinds, in this order
#                   ("op", coq : kind * Z)  one operation        ("opvec", coq : kind * Z)  its variable vector
#                   ("int", coq : Z)          ("mint", coq : pyres Z)
# Trusted NumPy / Python facts (named in the manifest): np.hstack(vs) is the concatenation of vs in order and so is
# `np.hstack(vs) if vs else np.array([])`; len of a concatenation is the sum of the lengths; sum(list) adds from 0; list + list concatenates;
# xs[i] is the i-th element with Python's index rules (py_call_size); len(op.to_var()) is that operation's variable count.
ACC = {}
for _k in KINDS:
    _pl = [p_ for p_, k_ in PLURAL.items() if k_ == _k][0]
    ACC["var_" + _pl] = ("gen_var_%s_layout" % _pl, [], "vec")
    ACC["size_var_" + _pl] = ("gen_size_var_%s" % _pl, [], "int")
    ACC["var_" + _k] = ("gen_var_%s" % _k, ["index"], "opvec")
    ACC["size_var_" + _k] = ("gen_size_var_%s" % _k, ["index"], "mint")
ACC["var_total"] = ("gen_var_total_layout", [], "vec")
ACC["size_var_total"] = ("gen_size_var_total", [], "int")
ACC["_all_qoperations"] = ("gen_all_qoperations_order", [], "order")
ACC_ORDER = (["var_" + p_ for p_ in PLURAL] + ["var_total"] + ["size_var_" + p_ for p_ in PLURAL] + ["size_var_total"]
             + ["var_" + k_ for k_ in KINDS] + ["size_var_" + k_ for k_ in KINDS] + ["_all_qoperations"])


class Accessor:
    def __init__(self, fdef, done):
        self.f, self.done = fdef, done
        self.cname, self.params, self.rkind = ACC[fdef.name]

    def call_self(self, e, env):
        f = e.func
        n = f.attr
        if n not in ACC:
            fail(e, "method self.%s" % n)
        cn, ps, rk = ACC[n]
        if cn not in self.done:
            fail(e, "call of %s before its definition (translation order)" % n)
        args = list(e.args)
        for kw in e.keywords:
            if kw.arg is None or kw.arg not in ps or len(args) != ps.index(kw.arg):
                fail(e, "keyword arguments of %s" % n)
            args.append(kw.value)
        if len(args) != len(ps):
            fail(e, "arity of %s" % n)
        ctext = []
        for a in args:
            k_, t_ = self.ev(a, env)
            if k_ != "int":
                fail(e, "argument of %s" % n)
            ctext.append(t_)
        needs_s = rk in ("int", "mint")
        return rk, "(%s%s%s)" % (cn, " s" if needs_s else "", "".join(" " + c for c in ctext)) if (needs_s or ctext) else cn

    def ev(self, e, env):
        if isinstance(e, ast.Name):
            if e.id not in env:
                fail(e, "unknown variable %s" % e.id)
            return env[e.id]
        if isinstance(e, ast.Attribute) and isinstance(e.value, ast.Name) and e.value.id == "self" and e.attr in PLURAL:
            return "ops", KCON[PLURAL[e.attr]]
        if isinstance(e, ast.ListComp):
            if len(e.generators) != 1 or e.generators[0].ifs or e.generators[0].is_async or not isinstance(e.generators[0].target, ast.Name):
                fail(e, "list comprehension shape")
            g = e.generators[0]
            k_, t_ = self.ev(g.iter, env)
            elt = e.elt
            if k_ == "ops" and isinstance(elt, ast.Call) and not elt.args and not elt.keywords and isinstance(elt.func, ast.Attribute) and elt.func.attr == "to_var" \
                    and isinstance(elt.func.value, ast.Name) and elt.func.value.id == g.target.id:
                return "vecs", t_
            fail(e, "list comprehension")
        if isinstance(e, ast.IfExp):
            # np.hstack(V) if V else np.array([])
            if isinstance(e.test, ast.Name) and self.is_np(e.body, "hstack") and len(e.body.args) == 1 and isinstance(e.body.args[0], ast.Name) \
                    and e.body.args[0].id == e.test.id and self.is_np(e.orelse, "array") and len(e.orelse.args) == 1 \
                    and isinstance(e.orelse.args[0], ast.List) and not e.orelse.args[0].elts:
                k_, t_ = self.ev(e.test, env)
                if k_ == "vecs":
                    return "vec", "[%s]" % t_
            fail(e, "conditional expression")
        if isinstance(e, ast.Call):
            if self.is_np(e, "hstack") and len(e.args) == 1 and isinstance(e.args[0], ast.List) and e.args[0].elts:
                parts = [self.ev(x, env) for x in e.args[0].elts]
                if any(k_ != "vec" for k_, _ in parts):
                    fail(e, "np.hstack of something that is not a list of variable vectors")
                return "vec", "(" + " ++ ".join(t_ for _, t_ in parts) + ")"
            if isinstance(e.func, ast.Name) and e.func.id == "len" and len(e.args) == 1 and not e.keywords:
                k_, t_ = self.ev(e.args[0], env)
                if k_ == "vec":
                    return "int", "(layout_len s %s)" % t_
                if k_ == "opvec":
                    return "mint", "(opref_len s %s)" % t_
                fail(e, "len of %s" % k_)
            if isinstance(e.func, ast.Name) and e.func.id == "sum" and len(e.args) == 1 and not e.keywords and isinstance(e.args[0], ast.List) and e.args[0].elts:
                parts = [self.ev(x, env) for x in e.args[0].elts]
                if any(k_ != "int" for k_, _ in parts):
                    fail(e, "sum of non-integers")
                out = "0"
                for _, t_ in parts:
                    out = "(%s + %s)" % (out, t_)
                return "int", "%s%%Z" % out
            if isinstance(e.func, ast.Attribute) and isinstance(e.func.value, ast.Name) and e.func.value.id == "self":
                return self.call_self(e, env)
            if isinstance(e.func, ast.Attribute) and e.func.attr == "to_var" and not e.args and not e.keywords:
                k_, t_ = self.ev(e.func.value, env)
                if k_ == "op":
                    return "opvec", t_
            fail(e, "call %s" % ast.unparse(e))
        if isinstance(e, ast.Subscript):
            k_, t_ = self.ev(e.value, env)
            i_k, i_t = self.ev(e.slice, env)
            if k_ == "ops" and i_k == "int":
                return "op", "(%s, %s)" % (t_, i_t)
            fail(e, "subscript")
        if isinstance(e, ast.BinOp) and isinstance(e.op, ast.Add):
            a, ta = self.ev(e.left, env)
            b, tb = self.ev(e.right, env)
            as_order = lambda k_, t_: t_ if k_ == "order" else "[%s]" % t_ if k_ == "ops" else fail(e, "+ of %s" % k_)
            return "order", "(%s ++ %s)" % (as_order(a, ta), as_order(b, tb))
        fail(e, "expression %s" % ast.unparse(e))

    @staticmethod
    def is_np(e, name):
        return isinstance(e, ast.Call) and not e.keywords and isinstance(e.func, ast.Attribute) and e.func.attr == name \
            and isinstance(e.func.value, ast.Name) and e.func.value.id == "np"

    def translate(self):
        f = self.f
        if f.args.vararg or f.args.kwarg or f.args.kwonlyargs or f.args.defaults or f.decorator_list:
            fail(f, "signature")
        if [a.arg for a in f.args.args] != ["self"] + self.params:
            fail(f, "parameters")
        env = {p_: ("int", p_) for p_ in self.params}
        result = None
        for st in f.body:
            if isinstance(st, ast.Expr) and isinstance(st.value, ast.Constant) and isinstance(st.value.value, str):
                continue
            if result is not None:
                fail(st, "statement after return")
            if isinstance(st, ast.Assign) and len(st.targets) == 1 and isinstance(st.targets[0], ast.Name):
                if st.targets[0].id in self.params:
                    fail(st, "assignment to a parameter")
                env[st.targets[0].id] = self.ev(st.value, env)
            elif isinstance(st, ast.Return) and st.value is not None:
                result = self.ev(st.value, env)
            else:
                fail(st, "statement")
        if result is None:
            fail(f, "no return")
        k_, t_ = result
        if k_ == "ops" and self.rkind == "order":
            k_, t_ = "order", "[%s]" % t_
        if k_ != self.rkind:
            fail(f, "result is %s, expected %s" % (k_, self.rkind))
        ty = {"vec": "list kind", "order": "list kind", "opvec": "(kind * Z)", "int": "Z", "mint": "pyres Z"}[k_]
        ps = (" (s : sizes)" if k_ in ("int", "mint") else "") + "".join(" (%s : Z)" % p_ for p_ in self.params)
        return "Definition %s%s : %s :=\n  %s." % (self.cname, ps, ty, t_)


HEADER = """(* GENERATED by /verif/gen/c03_py2coq.py from the current source - do not edit, not committed. *)
From Coq Require Import ZArith List Bool String.
From QV.Model Require Import C03_VarObj C03_SetQOps C03_PySem.
Import ListNotations.
"""


def main():
    repo, outpath = sys.argv[1], sys.argv[2]
    try:
        src = os.path.join(repo, "quara/objects/qoperations.py")
        tree = ast.parse(open(src).read())
        cdef = [n for n in tree.body if isinstance(n, ast.ClassDef) and n.name == "SetQOperations"]
        if len(cdef) != 1:
            raise Unsupported("class SetQOperations not found")
        out, done = [HEADER], []
        for name in ORDER:
            fd = [n for n in cdef[0].body if isinstance(n, ast.FunctionDef) and n.name == name]
            if len(fd) != 1:
                raise Unsupported("method %s not found (or defined twice)" % name)
            m = Method(fd[0])
            out.append("(* from quara/objects/qoperations.py : SetQOperations.%s *)" % name)
            out.append(m.translate(list(done)))
            out.append("")
            done.append(m.cname)
        acc_done = []
        for name in ACC_ORDER:
            fd = [n for n in cdef[0].body if isinstance(n, ast.FunctionDef) and n.name == name]
            if len(fd) != 1:
                raise Unsupported("method %s not found (or defined twice)" % name)
            a = Accessor(fd[0], list(acc_done))
            out.append("(* from quara/objects/qoperations.py : SetQOperations.%s *)" % name)
            out.append(a.translate())
            out.append("")
            acc_done.append(a.cname)
        for name in REGEN:
            fd = [n for n in cdef[0].body if isinstance(n, ast.FunctionDef) and n.name == name]
            if len(fd) != 1:
                raise Unsupported("method %s not found (or defined twice)" % name)
            m = Method(fd[0])
            out.append("(* from quara/objects/qoperations.py : SetQOperations.%s  (slicing skeleton; var_total stands for len(var_total)) *)" % name)
            out.append(m.translate(list(done) + list(acc_done)))
            out.append("")
        for path, cls, cn in NV:
            out.append(nv_translate(repo, path, cls, cn))
            out.append("")
    except Unsupported as e:
        print("UNSUPPORTED: %s" % e)
        sys.exit(3)
    open(outpath, "w").write("\n".join(out))
    print("ok -> %s" % outpath)


if __name__ == "__main__":
    main()
