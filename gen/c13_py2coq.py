#!/usr/bin/env python3
"""C13 translator (fail-closed): regenerates, from the CURRENT source of quara, the decision tables of the C13 state machines.

usage: c13_py2coq.py <repo> <out.v>

Translated (every piece is pure dispatch / bookkeeping logic; numerical content is not touched):
  G1  quara/objects/composite_system.py, class CompositeSystem - the nine lazily built attributes:
        gen_tested s    which attribute the getter that RETURNS attribute s tests for None
        gen_fills s     the attributes assigned when that getter misses (inline, or through the _calc_* builder it calls)
        gen_deletes s   the attributes that delete_<s>() sets to None ([] when there is no such method)
        gen_reads_only_basis   every builder reads self._total_basis and no other cache attribute
  G2  quara/loss_function/weighted_probability_based_squared_error.py, WeightedProbabilityBasedSquaredError._set_weights_by_mode,
      quara/loss_function/weighted_relative_entropy.py, WeightedRelativeEntropy._set_weights_by_mode:
        gen_sq_action m / gen_re_action m   what the method does for mode string m: GReset (setter called with None), GCustom
        (setter called with self.option.weights), GInv b (weights computed from the data with n = num_data (b = false) or
        num_data - 1 (b = true)), GKeep (no branch);
      quara/loss_function/standard_qtomography_based_weighted_probability_based_squared_error.py:
        gen_fast_setter_rebuilds   set_weight_matrices is overridden and calls self._calc_extend_weight_matrix()
        gen_fast_clears_on_none    _calc_extend_weight_matrix starts with "if self.weight_matrices is None: self._extend_weight_matrix = None; return"
      quara/loss_function/standard_qtomography_based_weighted_relative_entropy.py:
        gen_refast_setter_rebuilds set_weights is overridden and calls self._calc_extend_weights()
  G3  quara/minimization_algorithm/projected_gradient_descent.py, ProjectedGradientDescent:
        gen_pgd_keeps_user   __init__ stores `func_proj is not None` in a flag and set_constraint_from_standard_qt_and_option
                             returns early exactly when that flag is set (and on nothing else)
        gen_pgd_choice eq ineq   which projection is assigned to self._func_proj for the four flag combinations
                             (PPhysical / PEq / PIneq / PSelf)
  G4  the call skeletons of ProbabilityBasedLossFunction.set_from_standard_qtomography_option_data and of the loop of
      LossMinimizationEstimator.calc_estimate_sequence (see g4)
  G5  _copy of State / Gate / Povm / MProcess (deep-copied vs passed-through members), QOperation.copy / MProcess.copy (see g5)
  G6  purity of every @property getter of 26 source files (see g6)
Anything that does not match the expected shape makes the translator FAIL (exit 1): nothing is skipped silently."""
import ast, os, sys

SLOTS = [("_basis_basisconjugate", "BBc"), ("_dict_from_hs_to_choi", "H2C"), ("_dict_from_choi_to_hs", "C2H"), ("_basis_T_sparse", "BT"),
         ("_basisconjugate_sparse", "Bc"), ("_basisconjugate_basis_sparse", "BcB"), ("_basis_basisconjugate_T_sparse", "BBcT"),
         ("_basis_basisconjugate_T_sparse_from_1", "BBcT1"), ("_basishermitian_basis_T_from_1", "BhB1")]
SLOT = dict(SLOTS)


class Reject(Exception):
    pass


def need(cond, msg):
    if not cond:
        raise Reject(msg)


def parse(repo, rel):
    p = os.path.join(repo, rel)
    return ast.parse(open(p, encoding="utf-8").read(), filename=p)


def find_class(tree, name):
    for n in tree.body:
        if isinstance(n, ast.ClassDef) and n.name == name:
            return n
    raise Reject("class %s not found" % name)


def methods(cls):
    return {n.name: n for n in cls.body if isinstance(n, ast.FunctionDef)}


def self_attr(node):
    """name of X in `self.X`, else None"""
    if isinstance(node, ast.Attribute) and isinstance(node.value, ast.Name) and node.value.id == "self":
        return node.attr
    return None


def body_nodoc(fn):
    b = list(fn.body)
    if b and isinstance(b[0], ast.Expr) and isinstance(getattr(b[0], "value", None), ast.Constant) and isinstance(b[0].value.value, str):
        b = b[1:]
    return b


def stores(nodes):
    """slot attributes assigned (self._X = ...) anywhere inside the given statements"""
    out = []
    for st in nodes:
        for n in ast.walk(st):
            if isinstance(n, (ast.Assign, ast.AnnAssign, ast.AugAssign)):
                tg = n.targets if isinstance(n, ast.Assign) else [n.target]
                for t in tg:
                    a = self_attr(t)
                    if a in SLOT and a not in out:
                        out.append(a)
    return out


def loads(nodes):
    out = set()
    for st in nodes:
        for n in ast.walk(st):
            a = self_attr(n)
            if a is not None and isinstance(n.ctx, ast.Load):
                out.add(a)
    return out


def self_calls(nodes):
    out = []
    for st in nodes:
        for n in ast.walk(st):
            if isinstance(n, ast.Call):
                a = self_attr(n.func)
                if a is not None:
                    out.append(a)
    return out


def is_none_test(test):
    """`self._X is None` -> X"""
    if isinstance(test, ast.Compare) and len(test.ops) == 1 and isinstance(test.ops[0], ast.Is) and \
            isinstance(test.comparators[0], ast.Constant) and test.comparators[0].value is None:
        return self_attr(test.left)
    return None


# ------------------------------------------------------------------------------------------------ G1
def g1(repo):
    cls = find_class(parse(repo, "quara/objects/composite_system.py"), "CompositeSystem")
    ms = methods(cls)
    # __init__ initialises exactly the nine attributes with None
    init_none = []
    for st in body_nodoc(ms["__init__"]):
        if isinstance(st, ast.Assign) and isinstance(st.value, ast.Constant) and st.value.value is None:
            for t in st.targets:
                a = self_attr(t)
                if a is not None:
                    init_none.append(a)
    need(sorted(init_none) == sorted(SLOT), "__init__ sets %s to None, expected exactly the nine cache attributes" % sorted(init_none))
    builders = {}
    for name, fn in ms.items():
        if name.startswith("_calc_"):
            b = body_nodoc(fn)
            builders[name] = (stores(b), loads(b))
    tested, fills, deletes, reads = {}, {}, {a: [] for a in SLOT}, {}
    classified = {"__init__"} | set(builders)
    for name, fn in ms.items():
        if name in classified:
            continue
        b = body_nodoc(fn)
        st_all = stores(b)
        if name.startswith("delete_"):
            # body: only `self._X = None` statements
            target = "_" + name[len("delete_"):]
            need(target in SLOT, "delete method %s does not correspond to a cache attribute" % name)
            cleared = []
            for st in b:
                need(isinstance(st, ast.Assign) and isinstance(st.value, ast.Constant) and st.value.value is None and
                     all(self_attr(t) in SLOT for t in st.targets), "%s: statement other than `self._X = None`" % name)
                cleared += [self_attr(t) for t in st.targets]
            deletes[target] = cleared
            classified.add(name)
            continue
        # getter shape: [if self._X is None: <build>] ... return self._Y[...]
        guard = [st for st in b if isinstance(st, ast.If) and is_none_test(st.test) in SLOT]
        if not guard:
            need(not st_all, "method %s assigns cache attributes %s but is neither getter, builder nor delete method" % (name, st_all))
            continue
        need(len(guard) == 1 and not guard[0].orelse, "getter %s: more than one / an else branch on the None test" % name)
        x = is_none_test(guard[0].test)
        inline = stores(guard[0].body)
        called = [c for c in self_calls(guard[0].body) if c in builders]
        need(bool(inline) != bool(called) and len(called) <= 1, "getter %s: the miss branch must either build inline or call exactly one _calc_* builder" % name)
        need(not [a for a in st_all if a not in inline], "getter %s assigns cache attributes outside its miss branch" % name)
        filled = inline if inline else builders[called[0]][0]
        rd = loads(guard[0].body) if inline else builders[called[0]][1]
        # what is returned: every `return` of the method returns self._Y or a subscript of it, with one and the same Y
        rets = set()
        for n in ast.walk(fn):
            if isinstance(n, ast.Return) and n.value is not None:
                v = n.value
                while isinstance(v, ast.Subscript):
                    v = v.value
                a = self_attr(v)
                need(a in SLOT, "getter %s returns something that is not a cache attribute" % name)
                rets.add(a)
        need(len(rets) == 1, "getter %s returns %s" % (name, sorted(rets)))
        y = rets.pop()
        need(y not in tested, "two getters return %s" % y)
        tested[y], fills[y], reads[y] = x, filled, rd
        classified.add(name)
    need(sorted(tested) == sorted(SLOT), "no getter found for %s" % sorted(set(SLOT) - set(tested)))
    only_basis = all("_total_basis" in reads[a] and not (reads[a] & set(SLOT)) - set(fills[a]) for a in SLOT)
    mk = lambda d, f: "  match s with\n" + "".join("  | %s => %s\n" % (SLOT[a], f(d[a])) for a, _ in SLOTS) + "  end.\n"
    lst = lambda l: "[" + "; ".join(SLOT[a] for a in l) + "]"
    out = "Definition gen_tested (s : slot) : slot :=\n" + mk(tested, lambda a: SLOT[a])
    out += "Definition gen_fills (s : slot) : list slot :=\n" + mk(fills, lst)
    out += "Definition gen_deletes (s : slot) : list slot :=\n" + mk(deletes, lst)
    out += "Definition gen_reads_only_basis : bool := %s.\n" % ("true" if only_basis else "false")
    return out


# ------------------------------------------------------------------------------------------------ G2
def mode_strings(test, var):
    """`var == "a"` or `var == "a" or var == "b" ...` -> ["a", "b"]"""
    if isinstance(test, ast.BoolOp) and isinstance(test.op, ast.Or):
        out = []
        for v in test.values:
            out += mode_strings(v, var)
        return out
    need(isinstance(test, ast.Compare) and len(test.ops) == 1 and isinstance(test.ops[0], ast.Eq) and isinstance(test.left, ast.Name)
         and test.left.id == var and isinstance(test.comparators[0], ast.Constant) and isinstance(test.comparators[0].value, str),
         "mode test is not a comparison of %s with a string" % var)
    return [test.comparators[0].value]


def mode_table(fn, setter):
    """the if/elif chain of _set_weights_by_mode -> [(mode string, action)]"""
    need(len(fn.args.args) >= 2, "unexpected signature")
    var = fn.args.args[1].arg
    b = body_nodoc(fn)
    need(len(b) == 1 and isinstance(b[0], ast.If), "_set_weights_by_mode is not a single if/elif chain")
    table = []
    node = b[0]
    while node is not None:
        names = mode_strings(node.test, var)
        calls = [n for st in node.body for n in ast.walk(st) if isinstance(n, ast.Call) and self_attr(n.func) == setter]
        need(len(calls) == 1 and len(calls[0].args) == 1 and not calls[0].keywords, "branch %s: expected exactly one call self.%s(x)" % (names, setter))
        arg = calls[0].args[0]
        if isinstance(arg, ast.Constant) and arg.value is None:
            acts = {m: "GReset" for m in names}
        elif isinstance(arg, ast.Attribute) and arg.attr == "weights" and self_attr(arg.value) == "option":
            acts = {m: "GCustom" for m in names}
        else:
            need(isinstance(arg, ast.Name), "branch %s: unexpected setter argument" % names)
            # the covariance is computed with num_data for the modes of an inner `if var == "...":`, with num_data - 1 otherwise
            inner = [n for st in node.body for n in ast.walk(st) if isinstance(n, ast.If) and isinstance(n.test, (ast.Compare, ast.BoolOp))
                     and any(isinstance(x, ast.Name) and x.id == var for x in ast.walk(n.test))]
            need(len(inner) == 1 and inner[0].orelse, "branch %s: expected one inner if/else on the mode" % names)

            def denom(stmts):
                cs = [n for st in stmts for n in ast.walk(st) if isinstance(n, ast.Call) and isinstance(n.func, ast.Attribute) and n.func.attr == "calc_covariance_mat"]
                need(len(cs) == 1 and len(cs[0].args) == 2, "expected one call calc_covariance_mat(q, n)")
                a = cs[0].args[1]
                if isinstance(a, ast.Name):
                    return "false"
                need(isinstance(a, ast.BinOp) and isinstance(a.op, ast.Sub) and isinstance(a.left, ast.Name) and isinstance(a.right, ast.Constant) and a.right.value == 1,
                     "second argument of calc_covariance_mat is neither n nor n - 1")
                return "true"
            sample_modes = mode_strings(inner[0].test, var)
            d_then, d_else = denom(inner[0].body), denom(inner[0].orelse)
            acts = {m: "GInv %s" % (d_then if m in sample_modes else d_else) for m in names}
        table += sorted(acts.items())
        nxt = node.orelse
        if not nxt:
            node = None
        else:
            need(len(nxt) == 1 and isinstance(nxt[0], ast.If), "final else branch in _set_weights_by_mode")
            node = nxt[0]
    return table


def emit_modes(name, table):
    s = "Definition %s (m : string) : gaction :=\n" % name
    for m, a in table:
        s += "  if String.eqb m \"%s\" then %s else\n" % (m, a)
    return s + "  GKeep.\n"


def g2(repo):
    sq = find_class(parse(repo, "quara/loss_function/weighted_probability_based_squared_error.py"), "WeightedProbabilityBasedSquaredError")
    need("_set_weights_by_mode" in methods(sq), "WeightedProbabilityBasedSquaredError._set_weights_by_mode not found")
    out = emit_modes("gen_sq_action", mode_table(methods(sq)["_set_weights_by_mode"], "set_weight_matrices"))
    re_ = find_class(parse(repo, "quara/loss_function/weighted_relative_entropy.py"), "WeightedRelativeEntropy")
    need("_set_weights_by_mode" in methods(re_), "WeightedRelativeEntropy._set_weights_by_mode not found (misspelt again?)")
    out += emit_modes("gen_re_action", mode_table(methods(re_)["_set_weights_by_mode"], "set_weights"))
    fast = methods(find_class(parse(repo, "quara/loss_function/standard_qtomography_based_weighted_probability_based_squared_error.py"),
                              "StandardQTomographyBasedWeightedProbabilityBasedSquaredError"))

    def override_calls(ms, setter, rebuild):
        if setter not in ms:
            return False
        b = body_nodoc(ms[setter])
        sup = [n for st in b for n in ast.walk(st) if isinstance(n, ast.Call) and isinstance(n.func, ast.Attribute) and n.func.attr == setter
               and isinstance(n.func.value, ast.Call) and isinstance(n.func.value.func, ast.Name) and n.func.value.func.id == "super"]
        return len(sup) == 1 and rebuild in self_calls(b)
    out += "Definition gen_fast_setter_rebuilds : bool := %s.\n" % ("true" if override_calls(fast, "set_weight_matrices", "_calc_extend_weight_matrix") else "false")
    clears = False
    if "_calc_extend_weight_matrix" in fast:
        b = body_nodoc(fast["_calc_extend_weight_matrix"])
        if b and isinstance(b[0], ast.If) and isinstance(b[0].test, ast.Compare) and isinstance(b[0].test.ops[0], ast.Is) and \
                self_attr(b[0].test.left) == "weight_matrices" and isinstance(b[0].test.comparators[0], ast.Constant) and b[0].test.comparators[0].value is None:
            body = b[0].body
            clears = (len(body) == 2 and isinstance(body[0], ast.Assign) and self_attr(body[0].targets[0]) == "_extend_weight_matrix"
                      and isinstance(body[0].value, ast.Constant) and body[0].value.value is None and isinstance(body[1], ast.Return))
    out += "Definition gen_fast_clears_on_none : bool := %s.\n" % ("true" if clears else "false")
    refast = methods(find_class(parse(repo, "quara/loss_function/standard_qtomography_based_weighted_relative_entropy.py"),
                                "StandardQTomographyBasedWeightedRelativeEntropy"))
    out += "Definition gen_refast_setter_rebuilds : bool := %s.\n" % ("true" if override_calls(refast, "set_weights", "_calc_extend_weights") else "false")
    return out


# ------------------------------------------------------------------------------------------------ G3
def g3(repo):
    cls = find_class(parse(repo, "quara/minimization_algorithm/projected_gradient_descent.py"), "ProjectedGradientDescent")
    ms = methods(cls)
    init = body_nodoc(ms["__init__"])
    arg = ms["__init__"].args.args[1].arg
    flag = None
    for st in init:
        tgt = st.targets[0] if isinstance(st, ast.Assign) else st.target if isinstance(st, ast.AnnAssign) else None
        val = getattr(st, "value", None)
        if tgt is not None and self_attr(tgt) and isinstance(val, ast.Compare) and len(val.ops) == 1 and isinstance(val.ops[0], ast.IsNot) and \
                isinstance(val.left, ast.Name) and val.left.id == arg and isinstance(val.comparators[0], ast.Constant) and val.comparators[0].value is None:
            flag = self_attr(tgt)
    fn = ms["set_constraint_from_standard_qt_and_option"]
    b = body_nodoc(fn)
    early = [st for st in b if isinstance(st, ast.If) and len(st.body) == 1 and isinstance(st.body[0], ast.Return) and st.body[0].value is None]
    keeps = flag is not None and len(early) == 1 and self_attr(early[0].test) == flag and not early[0].orelse and \
        sum(isinstance(n, ast.Return) for n in ast.walk(fn)) == 1
    out = "Definition gen_pgd_keeps_user : bool := %s.\n" % ("true" if keeps else "false")
    # the four-way choice
    opt = fn.args.args[2].arg
    chain = [st for st in b if isinstance(st, ast.If) and st not in early]
    need(len(chain) == 1, "set_constraint_from_standard_qt_and_option: expected one if/elif chain after the early return")

    def flags(test):
        need(isinstance(test, ast.BoolOp) and isinstance(test.op, ast.And) and len(test.values) == 2, "flag test is not `a == .. and b == ..`")
        d = {}
        for v in test.values:
            need(isinstance(v, ast.Compare) and isinstance(v.ops[0], ast.Eq) and isinstance(v.left, ast.Attribute) and isinstance(v.left.value, ast.Name)
                 and v.left.value.id == opt and isinstance(v.comparators[0], ast.Constant) and isinstance(v.comparators[0].value, bool), "unexpected flag comparison")
            d[v.left.attr] = v.comparators[0].value
        need(sorted(d) == ["on_algo_eq_constraint", "on_algo_ineq_constraint"], "unexpected flags %s" % sorted(d))
        return d["on_algo_eq_constraint"], d["on_algo_ineq_constraint"]

    def choice(stmts):
        need(len(stmts) == 1 and isinstance(stmts[0], ast.Assign) and self_attr(stmts[0].targets[0]) == "_func_proj" and isinstance(stmts[0].value, ast.Call),
             "branch does not consist of one assignment to self._func_proj")
        f = stmts[0].value.func
        need(isinstance(f, ast.Attribute), "unexpected projection expression")
        return {"func_calc_proj_physical_with_var": "PPhysical", "func_calc_proj_eq_constraint_with_var": "PEq",
                "func_calc_proj_ineq_constraint_with_var": "PIneq", "proj_to_self": "PSelf"}.get(f.attr) or need(False, "unknown projection %s" % f.attr)
    table = {}
    node = chain[0]
    while True:
        table[flags(node.test)] = choice(node.body)
        if len(node.orelse) == 1 and isinstance(node.orelse[0], ast.If):
            node = node.orelse[0]
        else:
            rest = [(e, i) for e in (True, False) for i in (True, False) if (e, i) not in table]
            need(len(rest) == 1 and node.orelse, "the if/elif chain does not cover exactly three combinations + else")
            table[rest[0]] = choice(node.orelse)
            break
    bb = lambda v: "true" if v else "false"
    out += "Definition gen_pgd_choice (eq ineq : bool) : gproj :=\n  match eq, ineq with\n"
    for (e, i), c in sorted(table.items(), reverse=True):
        out += "  | %s, %s => %s\n" % (bb(e), bb(i), c)
    return out + "  end.\n"


# ------------------------------------------------------------------------------------------------ G4
def call_seq(stmts, receivers):
    """the calls `<receiver>.<method>(...)` (receiver a plain name of the given set) in textual / execution order, descending into
    if bodies (conditional calls are marked with '?'); loops, try blocks and nested functions are rejected"""
    out = []
    for st in stmts:
        need(not isinstance(st, (ast.For, ast.While, ast.Try, ast.FunctionDef, ast.With)), "unexpected compound statement in a configuration sequence")
        if isinstance(st, ast.If):
            cond_calls = [c for c in call_seq(st.body, receivers)]
            if st.orelse:
                cond_calls += call_seq(st.orelse, receivers)
            # `if x.check() == False: raise` - validation only, no configuration call inside
            if all(isinstance(b, ast.Raise) for b in st.body):
                continue
            out += [c if c.endswith("?") else c + "?" for c in cond_calls]
            continue
        for n in ast.walk(st):
            if isinstance(n, ast.Call) and isinstance(n.func, ast.Attribute) and isinstance(n.func.value, ast.Name) and n.func.value.id in receivers:
                out.append("%s.%s" % (n.func.value.id, n.func.attr))
    return out


def g4(repo):
    """quara/loss_function/probability_based_loss_function.py, ProbabilityBasedLossFunction.set_from_standard_qtomography_option_data:
         gen_loss_configure_calls   the sequence of self.* calls (the weights are set LAST, after the probability functions)
       quara/protocol/qtomography/standard/loss_minimization_estimator.py, LossMinimizationEstimator.calc_estimate_sequence:
         gen_est_loop_calls         the loss.* / algo.* calls INSIDE the loop over the data sets, in order (time measurement and
                                    validation-only `if ...: raise` statements skipped): every data set re-configures loss and algorithm
         gen_est_calls_before_loop / _after_loop   loss.* / algo.* calls before / after that loop"""
    cls = find_class(parse(repo, "quara/loss_function/probability_based_loss_function.py"), "ProbabilityBasedLossFunction")
    fn = methods(cls)["set_from_standard_qtomography_option_data"]
    seq1 = call_seq(body_nodoc(fn), {"self"})
    cls = find_class(parse(repo, "quara/protocol/qtomography/standard/loss_minimization_estimator.py"), "LossMinimizationEstimator")
    fn = methods(cls)["calc_estimate_sequence"]
    b = body_nodoc(fn)
    loops = [st for st in b if isinstance(st, ast.For)]
    need(len(loops) == 1 and not loops[0].orelse, "calc_estimate_sequence: expected exactly one for loop")
    need(isinstance(loops[0].iter, ast.Name) and loops[0].iter.id == fn.args.args[2].arg, "the loop does not run over the sequence of data sets")
    inner = [st for st in loops[0].body if not (isinstance(st, ast.If) and any(isinstance(x, ast.Name) and x.id.startswith("is_") for x in ast.walk(st.test)))]
    seq2 = call_seq(inner, {"loss", "algo"})
    calls_in = lambda stmts: [c for st in stmts for c in
                              ["%s.%s" % (n.func.value.id, n.func.attr) for n in ast.walk(st) if isinstance(n, ast.Call) and isinstance(n.func, ast.Attribute)
                               and isinstance(n.func.value, ast.Name) and n.func.value.id in ("loss", "algo")]]
    pos = b.index(loops[0])
    lst = lambda l: "[" + "; ".join('"%s"' % x for x in l) + "]"
    return ("Definition gen_loss_configure_calls : list string := %s.\nDefinition gen_est_loop_calls : list string := %s.\n"
            "Definition gen_est_calls_before_loop : list string := %s.\nDefinition gen_est_calls_after_loop : list string := %s.\n" % (
                lst(seq1), lst(seq2), lst(calls_in(b[:pos])), lst(calls_in(b[pos + 1:]))))


# ------------------------------------------------------------------------------------------------ G5 / G6
def g5(repo):
    """_copy of State / Gate / Povm / MProcess: which members are handed to the new object deep-copied (`copy.deepcopy(self.x)`) and
    which are passed through (`self.x`):   gen_copy_<Class> : list (string * bool)   (member, deep-copied?)
    QOperation.copy: gen_copy_uses_private_copy = the value of the new object is `self._copy()` and the object is built by
    `self.__class__(...)`; MProcess.copy likewise takes all its values from `self._copy()`"""
    out = ""
    for rel, cname in (("quara/objects/state.py", "State"), ("quara/objects/gate.py", "Gate"), ("quara/objects/povm.py", "Povm"), ("quara/objects/mprocess.py", "MProcess")):
        fn = methods(find_class(parse(repo, rel), cname))["_copy"]
        b = body_nodoc(fn)
        need(len(b) == 1 and isinstance(b[0], ast.Return) and b[0].value is not None, "%s._copy is not a single return statement" % cname)
        elems = b[0].value.elts if isinstance(b[0].value, ast.Tuple) else [b[0].value]
        items = []
        for e in elems:
            if isinstance(e, ast.Call) and isinstance(e.func, ast.Attribute) and e.func.attr == "deepcopy" and isinstance(e.func.value, ast.Name) \
                    and e.func.value.id == "copy" and len(e.args) == 1 and self_attr(e.args[0]):
                items.append((self_attr(e.args[0]), "true"))
            elif self_attr(e):
                items.append((self_attr(e), "false"))
            else:
                raise Reject("%s._copy returns something that is neither copy.deepcopy(self.x) nor self.x" % cname)
        out += "Definition gen_copy_%s : list (string * bool) := [%s].\n" % (cname, "; ".join('("%s", %s)' % it for it in items))

    def uses_copy(fn):
        b = body_nodoc(fn)
        asg = [st for st in b if isinstance(st, ast.Assign) and isinstance(st.value, ast.Call) and self_attr(st.value.func) == "_copy" and not st.value.args]
        if len(asg) != 1:
            return False
        names = set()
        for t in asg[0].targets:
            for n in ast.walk(t):
                if isinstance(n, ast.Name):
                    names.add(n.id)
        # the constructor call of the new object receives the copied values by name
        ctor = [n for st in b for n in ast.walk(st) if isinstance(n, ast.Call) and ((isinstance(n.func, ast.Attribute) and n.func.attr == "__class__" and self_attr(n.func) == "__class__")
                                                                                   or (isinstance(n.func, ast.Name) and n.func.id[:1].isupper()))]
        if len(ctor) != 1:
            return False
        passed = {a.id for a in ctor[0].args if isinstance(a, ast.Name)} | {k.value.id for k in ctor[0].keywords if isinstance(k.value, ast.Name)}
        return names <= passed and bool(names)
    q_copy = methods(find_class(parse(repo, "quara/objects/qoperation.py"), "QOperation"))["copy"]
    m_copy = methods(find_class(parse(repo, "quara/objects/mprocess.py"), "MProcess"))["copy"]
    out += "Definition gen_copy_uses_private_copy : bool := %s.\n" % ("true" if uses_copy(q_copy) and uses_copy(m_copy) else "false")
    return out


GETTER_FILES = ["quara/objects/qoperation.py", "quara/objects/state.py", "quara/objects/gate.py", "quara/objects/povm.py", "quara/objects/mprocess.py",
                "quara/objects/multinomial_distribution.py", "quara/objects/state_ensemble.py", "quara/objects/elemental_system.py", "quara/objects/matrix_basis.py",
                "quara/objects/qoperations.py", "quara/qcircuit/experiment.py", "quara/protocol/qtomography/qtomography.py",
                "quara/protocol/qtomography/standard/standard_qtomography.py", "quara/protocol/qtomography/standard/standard_qst.py",
                "quara/protocol/qtomography/standard/standard_povmt.py", "quara/protocol/qtomography/standard/standard_qpt.py",
                "quara/protocol/qtomography/standard/standard_qmpt.py", "quara/loss_function/loss_function.py", "quara/loss_function/probability_based_loss_function.py",
                "quara/loss_function/weighted_probability_based_squared_error.py", "quara/loss_function/weighted_relative_entropy.py",
                "quara/loss_function/standard_qtomography_based_weighted_probability_based_squared_error.py",
                "quara/loss_function/standard_qtomography_based_weighted_relative_entropy.py", "quara/minimization_algorithm/minimization_algorithm.py",
                "quara/minimization_algorithm/projected_gradient_descent.py", "quara/minimization_algorithm/projected_gradient_descent_backtracking.py"]


def g6(repo):
    """every @property getter of the object / tomography / loss / algorithm classes is a PURE READ: its body contains no assignment
    whose target is (a subscript / attribute of) `self.*`, no `del`, and no call of a `self.set*` / `self._set*` / `self._calc*` / `setattr`:
         gen_getters_scanned : nat         number of getters looked at
         gen_impure_getters : list string  "Class.property" of the getters that write
    (CompositeSystem is not in this list: its lazily building getters are the subject of G1)"""
    impure, count = [], 0
    for rel in GETTER_FILES:
        for cls in [n for n in parse(repo, rel).body if isinstance(n, ast.ClassDef)]:
            for fn in [n for n in cls.body if isinstance(n, ast.FunctionDef)]:
                if not any(isinstance(d, ast.Name) and d.id == "property" for d in fn.decorator_list):
                    continue
                count += 1
                bad = False
                for n in ast.walk(fn):
                    tg = n.targets if isinstance(n, (ast.Assign, ast.Delete)) else [n.target] if isinstance(n, (ast.AugAssign, ast.AnnAssign)) else []
                    for t in tg:
                        for x in ast.walk(t):
                            if isinstance(x, ast.Name) and x.id == "self":
                                bad = True
                    if isinstance(n, ast.Call):
                        a = self_attr(n.func)
                        if (a and (a.startswith("set") or a.startswith("_set") or a.startswith("_calc") or a.startswith("reset"))) or \
                                (isinstance(n.func, ast.Name) and n.func.id in ("setattr", "delattr")):
                            bad = True
                if bad:
                    impure.append("%s.%s" % (cls.name, fn.name))
    need(count >= 60, "only %d property getters found - the scan does not see the classes any more" % count)
    return "Definition gen_getters_scanned : nat := %d.\nDefinition gen_impure_getters : list string := [%s].\n" % (count, "; ".join('"%s"' % x for x in impure))


def main():
    repo, outp = sys.argv[1], sys.argv[2]
    try:
        text = "(* GENERATED by gen/c13_py2coq.py from %s - do not edit *)\nFrom Coq Require Import List String Bool.\nFrom QV.Model Require Import C13_Cache.\nImport ListNotations.\nOpen Scope string_scope.\n\n" % repo
        text += "Inductive gaction := GKeep | GReset | GCustom | GInv (unbiased : bool).\nInductive gproj := PPhysical | PEq | PIneq | PSelf.\n\n"
        text += g1(repo) + "\n" + g2(repo) + "\n" + g3(repo) + "\n" + g4(repo) + "\n" + g5(repo) + "\n" + g6(repo)
    except Reject as e:
        print("REJECT: %s" % e)
        sys.exit(1)
    except (KeyError, IndexError, AttributeError, OSError, SyntaxError) as e:
        print("REJECT: source has an unexpected shape (%s: %s)" % (type(e).__name__, e))
        sys.exit(1)
    open(outp, "w").write(text)


if __name__ == "__main__":
    main()
