#!/usr/bin/env python3
"""C10's own fail-closed translator (derived from gen/c11_py2coq.py, extended): regenerates, from /repo's CURRENT source, the Gallina text of

  quara/minimization_algorithm/projected_gradient_descent.py
      ProjectedGradientDescent.__init__ + set_constraint_from_standard_qt_and_option  -> gen_keeps_installed, gen_select, gen_configure
  quara/objects/qoperation.py
      QOperation.func_calc_proj_physical_with_var                                     -> gen_closure (order / parametrisation / cap the closure runs with)
  quara/protocol/qtomography/standard/projected_linear_estimator.py
      ProjectedLinearEstimator.calc_estimate_sequence                                 -> gen_ple_sequence (linear estimates -> set order -> project -> to_var)
  quara/minimization_algorithm/projected_gradient_descent_backtracking.py
      ProjectedGradientDescentBacktracking._is_doing_for_alpha                        -> gen_is_doing_for_alpha
      ProjectedGradientDescentBacktracking.optimize                                   -> gen_bt_body, gen_bt_locals, gen_bt_for, gen_bt_optimize
      (+ the code before the loop: validation raises -> gen_bt_precondition (likewise mom, fista); start point and step parameter from the options
                                                                                         -> gen_bt_start, gen_bt_mu; likewise gen_mom_start, gen_mom_gamma,
         gen_fista_start, gen_fista_delta; np.sqrt on naturals -> sqn)
  quara/minimization_algorithm/projected_gradient_descent_with_momentum.py
      ProjectedGradientDescentWithMomentum.optimize                                   -> gen_mom_body, gen_mom_for, gen_mom_optimize
  quara/minimization_algorithm/projected_fast_iterative_shrinkage_thresholding_algorithm.py
      ProjectedFastIterativeShrinkageThresholdingAlgorithm.optimize                   -> gen_fista_body, gen_fista_for, gen_fista_optimize

coq/gen/C10_Equiv.v re-proves on every run that the regenerated definitions agree with the hand-written model (Model/C10_Estimators.v) the
property theorems are stated about, and transports the theorems (step size 2^-j in (0,1], iterates = iterated model steps, feasibility).

What is abstracted (variables of the generated section = the oracles of the model):
  loss_function.value(e) -> f e    loss_function.gradient(e) -> g e    self.func_proj(e) -> P e    np.sqrt -> sq    np.ceil(np.log10(e)) -> mag e
  the float literal 0.95 -> z0 (momentum's constant; the model has it as a parameter)
numpy arithmetic is mapped by TYPE (F | vec | int | nat | Z | bool | listF | optvec | optZ):  x + y -> vadd, a * y -> vscale, x / a -> C10_vdiv,
np.dot -> dot n, np.abs -> C10_absF, np.sqrt(np.sum(e ** 2)) -> sq (C10_nrm2 n e); Python int arithmetic on the loop counter and integer literals
is embedded into F (C10_ofnat; +, -, * are ring homomorphic and `/` is true division), so `(k - 2) / (k + 1)` is exact also for k = 1;
`error_values` (appended at the END in Python) is represented newest-FIRST: append -> cons, l[-r:] -> firstn r, np.sum -> C10_lsum, len -> length;
`while c: a = e` -> gen_while with explicit fuel that returns the CURRENT value when the fuel runs out (the model's convention; the Python loop is
unbounded); the if/elif chain over the four stopping-mode strings -> match on C10_mode; `if c: a = e; b = e'` (no else) -> conditional update of
variables that already exist; `if on_iteration_history:` blocks, logging and printing are skipped after checking that they only touch history
variables.  The shift block `if x_next is not None: a = b; ...` may copy None-initialised variables only when each of them is assigned
unconditionally at the top level of the loop body (so they are all set once x_next is).
LOOP-CARRIED STATE is fixed per algorithm (table STATE): a name that is read in the loop body before it is written there and is neither in that
table nor a loop invariant makes the translation FAIL (e.g. a step size or a loss value carried over from the previous iteration).
Anything outside this subset raises Unsupported: the tie is then reported broken, never silently skipped.

usage: c10_py2coq.py <repo> <out.v>"""
import ast, os, sys


class Unsupported(Exception):
    pass


def fail(node, msg):
    raise Unsupported("%s (line %s): %s" % (type(node).__name__, getattr(node, "lineno", "?"), msg))


MODES = {"single_difference_loss": "C10_SingleDiffLoss", "sum_absolute_difference_loss": "C10_SumAbsDiffLoss",
         "sum_absolute_difference_variable": "C10_SumAbsDiffVar", "sum_absolute_difference_projected_gradient": "C10_SumAbsDiffProjGrad"}
MODE_ATTR = "algorithm_option.mode_stopping_criterion_gradient_descent"
HISTORY_NAMES = {"fxs", "xs", "ys", "alphas", "moments", "zetas", "start_time", "computation_time"}
INVARIANT = {"self", "loss_function", "loss_function_option", "algorithm_option", "on_iteration_history", "max_iteration",
             "np", "logger", "logging", "time", "min", "len", "range", "print", "True", "False", "None"}
FLOATS = {1.0: "(c1 F)", 0.5: "(C10_half F)", 2.0: "(C10_two F)", 0.0: "(c0 F)", 0.95: "z0"}

# per algorithm: file, class, result class, loop-carried state (name, type) in the order of the generated tuple, loop-invariant scalars (name, type)
ALGOS = {
    "bt": dict(file="quara/minimization_algorithm/projected_gradient_descent_backtracking.py", cls="ProjectedGradientDescentBacktracking",
               res="ProjectedGradientDescentBacktrackingResult",
               state=[("x_prev", "vec"), ("x_next", "optvec"), ("error_values", "listF")],
               params=[("mu", "F"), ("gamma", "F"), ("eps", "F")], locals=["y_prev", "alpha"]),
    "mom": dict(file="quara/minimization_algorithm/projected_gradient_descent_with_momentum.py", cls="ProjectedGradientDescentWithMomentum",
                res="ProjectedGradientDescentWithMomentumResult",
                state=[("x_prev", "vec"), ("moment_prev", "vec"), ("zeta", "F"), ("magnitude_prev", "Z"), ("x_next", "optvec"), ("moment_next", "optvec"),
                       ("error_values", "listF")],
                params=[("gamma", "F"), ("eps", "F")], locals=[]),
    "fista": dict(file="quara/minimization_algorithm/projected_fast_iterative_shrinkage_thresholding_algorithm.py",
                  cls="ProjectedFastIterativeShrinkageThresholdingAlgorithm", res="ProjectedFastIterativeShrinkageThresholdingAlgorithmResult",
                  state=[("x_prev_prev", "vec"), ("x_prev", "vec"), ("x_next", "optvec"), ("error_values", "listF")],
                  params=[("delta", "F"), ("eps", "F")], locals=[]),
}
COQTY = {"F": "F", "vec": "vec", "optvec": "option vec", "listF": "list F", "Z": "Z", "optZ": "option Z", "bool": "bool", "nat": "nat"}


def toF(v, t, node):
    """numeric value of Python type int (embedded) or float as an F term"""
    if t in ("F", "int"):
        return v
    fail(node, "a %s where a number is expected" % t)


class Ex:
    """expression translator with a type environment"""

    def __init__(self, types, is_doing_name=None):
        self.t = dict(types)
        self.is_doing_name = is_doing_name

    def ex(self, e):
        src = ast.unparse(e)
        if isinstance(e, ast.Constant):
            if e.value is True:
                return "true", "bool"
            if e.value is False:
                return "false", "bool"
            if isinstance(e.value, float):
                if e.value in FLOATS:
                    return FLOATS[e.value], "F"
                fail(e, "float constant %r (known: %s)" % (e.value, sorted(FLOATS)))
            if isinstance(e.value, int) and 0 <= e.value <= 64:
                return {0: "(c0 F)", 1: "(c1 F)", 2: "(C10_two F)"}.get(e.value, "(C10_ofnat F %d)" % e.value), "int"
            fail(e, "constant %r" % (e.value,))
        if isinstance(e, ast.Name):
            if e.id not in self.t:
                fail(e, "unknown / untyped variable %s" % e.id)
            if self.t[e.id] == "natk":                       # the loop counter: a Python int
                return "(C10_ofnat F %s)" % e.id, "int"
            return e.id, self.t[e.id]
        if isinstance(e, ast.Attribute):
            if src == "algorithm_option.num_history_stopping_criterion_gradient_descent":
                return "h", "nat"
            fail(e, "attribute %s" % src)
        if isinstance(e, ast.BinOp):
            a, ta = self.ex(e.left)
            b, tb = self.ex(e.right)
            op = type(e.op)
            num = ("F", "int")
            if ta in num and tb in num and op in (ast.Add, ast.Sub, ast.Mult):
                return "(%s F %s %s)" % ({ast.Add: "cadd", ast.Sub: "csub", ast.Mult: "cmul"}[op], a, b), ("int" if (ta, tb) == ("int", "int") else "F")
            if ta in num and tb in num and op is ast.Div:
                return "(kdiv F %s %s)" % (a, b), "F"
            if (ta, tb) == ("vec", "vec") and op in (ast.Add, ast.Sub):
                return "(%s %s %s)" % ({ast.Add: "vadd", ast.Sub: "vsub"}[op], a, b), "vec"
            if ta in num and tb == "vec" and op is ast.Mult:
                return "(vscale %s %s)" % (a, b), "vec"
            if ta == "vec" and tb in num and op is ast.Div:
                return "(C10_vdiv F %s %s)" % (a, b), "vec"
            fail(e, "operator %s on %s, %s" % (op.__name__, ta, tb))
        if isinstance(e, ast.Compare) and len(e.ops) == 1:
            a, ta = self.ex(e.left)
            b, tb = self.ex(e.comparators[0])
            if isinstance(e.ops[0], ast.Gt) and ta in ("F", "int") and tb in ("F", "int"):
                return "(negb (kleb F %s %s))" % (a, b), "bool"          # a > b  <->  not (a <= b)
            if isinstance(e.ops[0], ast.Lt) and (ta, tb) == ("Z", "Z"):
                return "(Z.ltb %s %s)" % (a, b), "bool"
            fail(e, "comparison %s (%s, %s)" % (src, ta, tb))
        if isinstance(e, ast.IfExp):
            c, tc = self.ex(e.test)
            a, ta = self.ex(e.body)
            b, tb = self.ex(e.orelse)
            if tc != "bool" or ta != tb:
                fail(e, "conditional expression types")
            return "(if %s then %s else %s)" % (c, a, b), ta
        if isinstance(e, ast.Call):
            fn = ast.unparse(e.func)
            args = e.args
            kw = {k.arg for k in e.keywords}
            if fn == "loss_function.value" and len(args) == 1 and kw <= {"validate"}:
                a, ta = self.ex(args[0])
                if ta != "vec":
                    fail(e, "loss value of a non-vector")
                return "(f %s)" % a, "F"
            if fn == "loss_function.gradient" and len(args) == 1 and not kw:
                a, ta = self.ex(args[0])
                if ta != "vec":
                    fail(e, "gradient of a non-vector")
                return "(g %s)" % a, "vec"
            if fn == "self.func_proj" and len(args) == 1 and not kw:
                a, ta = self.ex(args[0])
                if ta != "vec":
                    fail(e, "projection of a non-vector")
                return "(P %s)" % a, "vec"
            if fn == "np.dot" and len(args) == 2 and not kw:
                a, ta = self.ex(args[0])
                b, tb = self.ex(args[1])
                if (ta, tb) != ("vec", "vec"):
                    fail(e, "np.dot types")
                return "(dot n %s %s)" % (a, b), "F"
            if fn == "np.abs" and len(args) == 1 and not kw:
                a, ta = self.ex(args[0])
                if ta != "F":
                    fail(e, "np.abs of a non-scalar")
                return "(C10_absF F %s)" % a, "F"
            if fn == "np.ceil" and len(args) == 1 and not kw:
                s = args[0]
                if isinstance(s, ast.Call) and ast.unparse(s.func) == "np.log10" and len(s.args) == 1 and not s.keywords:
                    a, ta = self.ex(s.args[0])
                    if ta != "F":
                        fail(e, "magnitude of a non-scalar")
                    return "(mag %s)" % a, "Z"
                fail(e, "np.ceil of something that is not np.log10(.)")
            if fn == "np.sqrt" and len(args) == 1 and not kw:
                s = args[0]
                if (isinstance(s, ast.Call) and ast.unparse(s.func) == "np.sum" and len(s.args) == 1 and not s.keywords
                        and isinstance(s.args[0], ast.BinOp) and isinstance(s.args[0].op, ast.Pow)
                        and isinstance(s.args[0].right, ast.Constant) and s.args[0].right.value == 2):
                    a, ta = self.ex(s.args[0].left)
                    if ta != "vec":
                        fail(e, "norm of a non-vector")
                    return "(sq (C10_nrm2 F n %s))" % a, "F"
                fail(e, "np.sqrt of something that is not np.sum(v ** 2)")
            if fn == "np.sum" and len(args) == 1 and not kw:
                s = args[0]
                if (isinstance(s, ast.Subscript) and isinstance(s.slice, ast.Slice) and s.slice.upper is None and s.slice.step is None
                        and isinstance(s.slice.lower, ast.UnaryOp) and isinstance(s.slice.lower.op, ast.USub)):
                    l, tl = self.ex(s.value)
                    r, tr = self.ex(s.slice.lower.operand)
                    if (tl, tr) != ("listF", "nat"):
                        fail(e, "window sum types")
                    return "(C10_lsum F (firstn %s %s))" % (r, l), "F"          # Python appends at the end, the model conses at the front
                fail(e, "np.sum of something that is not l[-r:]")
            if fn == "min" and len(args) == 2 and not kw:
                a, ta = self.ex(args[0])
                b, tb = self.ex(args[1])
                if (ta, tb) != ("nat", "nat"):
                    fail(e, "min types")
                return "(Nat.min %s %s)" % (a, b), "nat"
            if fn == "len" and len(args) == 1 and not kw:
                a, ta = self.ex(args[0])
                if ta != "listF":
                    fail(e, "len of a non-list")
                return "(List.length %s)" % a, "nat"
            if self.is_doing_name and fn == "self." + self.is_doing_name and not kw:
                if len(args) != 5 or ast.unparse(args[4]) != "loss_function":
                    fail(e, "call of %s with an unexpected argument list" % self.is_doing_name)
                parts = [self.ex(a) for a in args[:4]]
                if [t for _, t in parts] != ["vec", "vec", "F", "F"]:
                    fail(e, "argument types of %s" % self.is_doing_name)
                return "(gen_is_doing_for_alpha %s)" % " ".join(p for p, _ in parts), "bool"
            fail(e, "call %s" % fn)
        fail(e, "expression %s" % src)


def names_read(node):
    return {n.id for n in ast.walk(node) if isinstance(n, ast.Name) and isinstance(n.ctx, ast.Load)}


def get_method(tree, cls, name):
    for c in tree.body:
        if isinstance(c, ast.ClassDef) and c.name == cls:
            for f in c.body:
                if isinstance(f, ast.FunctionDef) and f.name == name:
                    return f
    raise Unsupported("method %s.%s not found" % (cls, name))


def strip_doc(body):
    if body and isinstance(body[0], ast.Expr) and isinstance(body[0].value, ast.Constant) and isinstance(body[0].value.value, str):
        return body[1:]
    return body


# ------------------------------------------------------------------ _is_doing_for_alpha
def tr_is_doing(fdef):
    params = [a.arg for a in fdef.args.args]
    if params != ["self", "x_prev", "y_prev", "alpha", "gamma", "loss_function"] or fdef.args.defaults or fdef.args.kwonlyargs:
        fail(fdef, "signature of _is_doing_for_alpha is %s" % params)
    env = Ex({"x_prev": "vec", "y_prev": "vec", "alpha": "F", "gamma": "F"})
    lets = []
    body = strip_doc(fdef.body)
    for st in body[:-1]:
        if not (isinstance(st, ast.Assign) and len(st.targets) == 1 and isinstance(st.targets[0], ast.Name)):
            fail(st, "statement in _is_doing_for_alpha")
        v, t = env.ex(st.value)
        env.t[st.targets[0].id] = t
        lets.append("  let %s := %s in" % (st.targets[0].id, v))
    if not isinstance(body[-1], ast.Return):
        fail(body[-1], "last statement must be return")
    r, t = env.ex(body[-1].value)
    if t != "bool":
        fail(body[-1], "return type")
    return ("Definition gen_is_doing_for_alpha (x_prev y_prev : vec) (alpha gamma : F) : bool :=\n" + "\n".join(lets) + "\n  %s." % r)


# ------------------------------------------------------------------ optimize (three algorithms, one statement translator)
def history_only(stmts):
    """statements allowed inside `if on_iteration_history:` / logging blocks: appends to and assignments of history variables"""
    for st in stmts:
        if isinstance(st, ast.Expr) and isinstance(st.value, ast.Call):
            fn = ast.unparse(st.value.func)
            if fn.endswith(".append") and fn.split(".")[0] in HISTORY_NAMES:
                continue
            if fn in ("print", "logger.debug"):
                continue
        if isinstance(st, ast.Assign) and all(isinstance(t, ast.Name) and t.id in HISTORY_NAMES | {"start_red", "end_color", "result"} for t in st.targets):
            continue
        if isinstance(st, ast.Return):
            continue
        fail(st, "statement in a history / logging block touches something else than history variables")


# ------------------------------------------------------------------ the if/elif chains BEFORE the loop (start point, step parameter)
PRE_PARAM = {"bt": ("mu", "mu"), "mom": ("gamma", "r"), "fista": ("delta", "delta")}          # assigned variable, option attribute it is built from


def pre_atom(t, optattr):
    """one conjunct of a chain test -> (Coq bool, set of facts it establishes)"""
    src = ast.unparse(t)
    if src == "algorithm_option." + optattr:
        return "(C10_truthy F %s)" % optattr, {"opt"}
    if src == "algorithm_option.%s is None" % optattr:
        return "(match %s with None => true | Some _ => false end)" % optattr, set()
    if src == "algorithm_option.var_start is not None":
        return "(match vs with Some _ => true | None => false end)", {"vs"}
    if src == "algorithm_option.var_start is None":
        return "(match vs with Some _ => false | None => true end)", set()
    if src == "self._qt":
        return "(match qt with Some _ => true | None => false end)", {"qt"}
    fail(t, "test atom %s" % src)


def pre_value(e, optattr, facts):
    """numeric expression of a chain branch -> Coq term of type F"""
    src = ast.unparse(e)
    if src == "algorithm_option." + optattr:
        if "opt" not in facts:
            fail(e, "the option value is used in a branch that does not test it")
        return "(C10_getF F %s)" % optattr
    if isinstance(e, ast.Constant) and isinstance(e.value, int) and not isinstance(e.value, bool) and 0 <= e.value <= 64:
        return {1: "(c1 F)", 2: "(C10_two F)", 3: "(C10_three F)", 10: "(C10_ten F)"}.get(e.value, "(C10_ofnat F %d)" % e.value)
    if src == "np.sqrt(len(algorithm_option.var_start))":
        if "vs" not in facts:
            fail(e, "len(var_start) in a branch that does not test var_start")
        return "(sqn (match vs with Some l_ => l_ | None => O end))"
    if src == "np.sqrt(self._qt.num_variables)":
        if "qt" not in facts:
            fail(e, "self._qt.num_variables in a branch that does not test self._qt")
        return "(sqn (match qt with Some m_ => m_ | None => O end))"
    if isinstance(e, ast.BinOp) and type(e.op) in (ast.Mult, ast.Div):
        return "(%s F %s %s)" % ("cmul" if isinstance(e.op, ast.Mult) else "kdiv", pre_value(e.left, optattr, facts), pre_value(e.right, optattr, facts))
    fail(e, "expression %s" % src)


def tr_pre(tag, pre):
    """the start point and the step parameter as functions of the options; every other top-level statement before the loop is checked elsewhere
    (initialisations) or is validation (raise on missing value / gradient)"""
    target, optattr = PRE_PARAM[tag]
    start = param = None
    for st in pre:
        if not isinstance(st, ast.If):
            continue
        assigned = {t.id for sub in ast.walk(st) for a in ([sub] if isinstance(sub, ast.Assign) else []) for t in a.targets if isinstance(t, ast.Name)}
        if assigned == {"x_prev"}:
            want_else = "x_prev = algorithm_option.var_start"
            want_then = "x_prev = self._qt.generate_empty_estimation_obj_with_setting_info().generate_origin_obj().to_var()"
            if not (ast.unparse(st.test) == "algorithm_option.var_start is None" and [ast.unparse(x) for x in st.body] == [want_then]
                    and [ast.unparse(x) for x in st.orelse] == [want_else]) or start is not None:
                fail(st, "start-point statement")
            start = "Definition gen_%s_start (var_start origin : option vec) : option vec := match var_start with None => origin | Some v_ => Some v_ end." % tag
        elif assigned == {target}:
            if param is not None:
                fail(st, "%s is assigned by two statements" % target)
            cur, arms = st, []
            while True:
                conj = cur.test.values if isinstance(cur.test, ast.BoolOp) and isinstance(cur.test.op, ast.And) else [cur.test]
                tests, facts = [], set()
                for c in conj:
                    t, fs = pre_atom(c, optattr)
                    tests.append(t); facts |= fs
                if not (len(cur.body) == 1 and isinstance(cur.body[0], ast.Assign) and ast.unparse(cur.body[0].targets[0]) == target):
                    fail(cur, "a branch must be `%s = <expr>`" % target)
                arms.append((" && ".join(tests), "Some %s" % pre_value(cur.body[0].value, optattr, facts)))
                if len(cur.orelse) == 1 and isinstance(cur.orelse[0], ast.If):
                    cur = cur.orelse[0]
                    continue
                if not (len(cur.orelse) == 1 and isinstance(cur.orelse[0], ast.Raise)):
                    fail(cur, "the chain must end with raise")
                break
            term = "None"
            for c, v in reversed(arms):
                term = "if %s then %s\n    else %s" % (c, v, term)
            param = "Definition gen_%s_%s (%s : option F) (vs qt : option nat) : option F :=\n    %s." % (tag, target, optattr, term)
        elif assigned & {"x_prev", target}:
            fail(st, "x_prev / %s assigned together with something else" % target)
    # validation: `if <test>: raise ValueError(...)` statements before the loop; every one must be a recognised test (fail-closed)
    VALID = {"loss_function.on_value == False": "(Bool.eqb on_value false)", "loss_function.on_value is False": "(Bool.eqb on_value false)",
             "not loss_function.on_value": "(negb on_value)",
             "loss_function.on_gradient == False": "(Bool.eqb on_gradient false)", "loss_function.on_gradient is False": "(Bool.eqb on_gradient false)",
             "not loss_function.on_gradient": "(negb on_gradient)"}
    raises = []
    for st in pre:
        if isinstance(st, ast.If) and len(st.body) == 1 and isinstance(st.body[0], ast.Raise) and not st.orelse:
            t = ast.unparse(st.test)
            if t not in VALID:
                fail(st, "validation test %s" % t)
            exc = st.body[0].exc
            if not (isinstance(exc, ast.Call) and ast.unparse(exc.func) == "ValueError"):
                fail(st, "validation raises something else than ValueError")
            raises.append(VALID[t])
        elif isinstance(st, ast.Raise):
            fail(st, "unconditional raise before the loop")
    valid = "Definition gen_%s_precondition (on_value on_gradient : bool) : bool := %s." % (
        tag, " && ".join("negb %s" % r for r in raises) if raises else "true")
    if start is None or param is None:
        fail(pre[0], "start point / %s chain not found before the loop" % target)
    # no other statement before the loop may assign them
    for st in pre:
        if isinstance(st, ast.Assign) and any(isinstance(t, ast.Name) and t.id in ("x_prev", target) for t in st.targets):
            fail(st, "unconditional assignment to x_prev / %s before the loop" % target)
    return valid + "\n" + start + "\n" + param


def tr_optimize(tag, fdef):
    spec = ALGOS[tag]
    params = [a.arg for a in fdef.args.args]
    if params[:4] != ["self", "loss_function", "loss_function_option", "algorithm_option"] or "on_iteration_history" not in params:
        fail(fdef, "signature of optimize is %s" % params)
    body = strip_doc(fdef.body)
    loops = [i for i, st in enumerate(body) if isinstance(st, ast.For)]
    if len(loops) != 1:
        fail(fdef, "expected exactly one top-level for loop")
    pre, loop, post = body[:loops[0]], body[loops[0]], body[loops[0] + 1:]
    state = spec["state"]
    state_names = [nm for nm, _ in state]
    inv = dict(spec["params"])
    # ---- before the loop: what the state and the invariants are initialised with
    seen = {}
    for st in pre:
        for sub in ast.walk(st):
            if isinstance(sub, ast.Assign):
                for t in sub.targets:
                    if isinstance(t, ast.Name):
                        seen.setdefault(t.id, []).append(sub.value)
            if isinstance(sub, (ast.While, ast.For)):
                fail(sub, "loop before the main loop")
    def only(nm, src):
        got = [ast.unparse(v) for v in seen.get(nm, [])]
        if got != [src]:
            fail(fdef, "before the loop %s is assigned %s (expected %s)" % (nm, got, [src]))
    only("max_iteration", "algorithm_option.max_iteration_optimization")
    only("eps", "algorithm_option.eps")
    only("error_values", "[]")
    none_init = set()
    for nm, ty in state:
        if ty in ("optvec", "optZ"):
            only(nm, "None")
            none_init.add(nm)
        elif nm not in seen and nm != "error_values":
            fail(fdef, "state variable %s is not initialised before the loop" % nm)
    for nm in inv:
        if nm not in seen:
            fail(fdef, "%s is not initialised before the loop" % nm)
    if tag == "bt":
        only("gamma", "algorithm_option.gamma")
    # initial values of the loop-carried scalars that the model fixes (translated; x_prev / moment_prev / mu / gamma / delta are inputs)
    init_env = Ex({"x_prev": "vec"})
    inits = {}
    for nm, want_ty in (("zeta", "F"), ("magnitude_prev", "Z"), ("x_prev_prev", "vec")):
        if nm in state_names:
            if len(seen.get(nm, [])) != 1:
                fail(fdef, "%s must be assigned exactly once before the loop" % nm)
            v, ty = init_env.ex(seen[nm][0])
            if ty != want_ty:
                fail(fdef, "initial value of %s has type %s" % (nm, ty))
            inits[nm] = v
    extra = set(seen) - set(state_names) - set(inv) - {"max_iteration", "is_doing", "magnitude_next"} - HISTORY_NAMES
    # ---- the for header and the break
    if not (isinstance(loop.target, ast.Name) and loop.target.id == "k" and ast.unparse(loop.iter) == "range(1, max_iteration + 1)" and not loop.orelse):
        fail(loop, "loop header is not `for k in range(1, max_iteration + 1)`")
    stmts = list(loop.body)
    if not (isinstance(stmts[-1], ast.If) and ast.unparse(stmts[-1].test) == "not is_doing" and len(stmts[-1].body) == 1
            and isinstance(stmts[-1].body[0], ast.Break) and not stmts[-1].orelse):
        fail(stmts[-1], "the loop body must end with `if not is_doing: break`")
    for sub in ast.walk(loop):
        if isinstance(sub, (ast.Break, ast.Continue)) and sub is not stmts[-1].body[0]:
            fail(sub, "another break / continue in the loop")
    top_assigned = {st.targets[0].id for st in stmts if isinstance(st, ast.Assign) and len(st.targets) == 1 and isinstance(st.targets[0], ast.Name)}
    types = dict(state)
    types.update(inv)
    types["k"] = "natk"
    env = Ex(types, is_doing_name="_is_doing_for_alpha" if tag == "bt" else None)
    defined = set()
    out = []

    def check_reads(node, allow=()):
        for nm in names_read(node):
            if nm in defined or nm in state_names or nm in inv or nm in INVARIANT or nm == "k" or nm in allow:
                continue
            if nm in extra or nm in seen or nm in top_assigned:
                fail(node, "`%s` is read in the loop body before it is written there: a loop-carried variable outside the modelled state %s" % (nm, state_names))
            fail(node, "unknown name %s" % nm)

    i = 0
    while i < len(stmts) - 1:
        st = stmts[i]
        # a. shift:  if x_next is not None: <v_prev = v_next>+
        if isinstance(st, ast.If) and ast.unparse(st.test) == "x_next is not None":
            if st.orelse or i != 0 or env.t["x_next"] != "optvec":
                fail(st, "shift statement must come first and have no else")
            for a in st.body:
                if not (isinstance(a, ast.Assign) and len(a.targets) == 1 and isinstance(a.targets[0], ast.Name) and isinstance(a.value, ast.Name)):
                    fail(a, "shift block: only `a = b`")
                dst, srcn = a.targets[0].id, a.value.id
                if dst not in state_names or env.t.get(dst) != "vec":
                    fail(a, "shift block assigns %s, which is not a vector of the state" % dst)
                if srcn in none_init:
                    if srcn not in top_assigned:
                        fail(a, "%s is copied in the shift block but not assigned unconditionally in the loop body" % srcn)
                    rhs = "match %s with Some v_ => v_ | None => %s end" % (srcn, dst)
                elif env.t.get(srcn) == "vec" and srcn in state_names:
                    rhs = srcn
                else:
                    fail(a, "shift block copies %s" % srcn)
                # sequential lets: a later assignment of the block sees the earlier ones, as in Python
                out.append("let %s := match x_next with Some _ => %s | None => %s end in" % (dst, rhs, dst))
            i += 1
            continue
        # h. history / logging blocks
        if isinstance(st, ast.If) and ast.unparse(st.test) in ("on_iteration_history", "logger.isEnabledFor(logging.DEBUG)"):
            if st.orelse:
                fail(st, "else branch of a history block")
            history_only(st.body)
            for sub in st.body:
                check_reads(sub, allow=HISTORY_NAMES)
            i += 1
            continue
        # d. the stopping-mode chain
        if isinstance(st, ast.If) and ast.unparse(st.test).startswith(MODE_ATTR + " == "):
            branches = {}
            cur = st
            target = None
            while True:
                t = cur.test
                if not (isinstance(t, ast.Compare) and len(t.ops) == 1 and isinstance(t.ops[0], ast.Eq) and ast.unparse(t.left) == MODE_ATTR
                        and isinstance(t.comparators[0], ast.Constant) and t.comparators[0].value in MODES):
                    fail(cur, "test of the stopping-mode chain")
                if not (len(cur.body) == 1 and isinstance(cur.body[0], ast.Assign) and len(cur.body[0].targets) == 1
                        and isinstance(cur.body[0].targets[0], ast.Name)):
                    fail(cur, "a branch of the stopping-mode chain must be ONE assignment")
                tg = cur.body[0].targets[0].id
                if target not in (None, tg) or tg in state_names or tg in inv:
                    fail(cur, "branches assign different variables / a state variable")
                target = tg
                if t.comparators[0].value in branches:
                    fail(cur, "mode string tested twice")
                check_reads(cur.body[0].value)
                v, ty = env.ex(cur.body[0].value)
                if ty != "F":
                    fail(cur, "error value is not a scalar")
                branches[t.comparators[0].value] = v
                if len(cur.orelse) == 1 and isinstance(cur.orelse[0], ast.If):
                    cur = cur.orelse[0]
                    continue
                if cur.orelse:
                    fail(cur, "else branch of the stopping-mode chain")
                break
            if set(branches) != set(MODES):
                fail(st, "the stopping-mode chain covers %s, expected all of %s" % (sorted(branches), sorted(MODES)))
            out.append("let %s := match mode with\n      %s\n      end in" % (
                target, "\n      ".join("| %s => %s" % (MODES[k], branches[k]) for k in MODES)))
            env.t[target] = "F"
            defined.add(target)
            i += 1
            continue
        # f. conditional update:  if c: a = e; b = e'   (no else; only variables that already exist)
        if isinstance(st, ast.If):
            if st.orelse:
                fail(st, "if statement with else in the loop body")
            check_reads(st.test)
            c, tc = env.ex(st.test)
            if tc != "bool":
                fail(st, "condition type")
            names, vals = [], []
            sub_env = Ex(env.t, env.is_doing_name)
            for a in st.body:
                if not (isinstance(a, ast.Assign) and len(a.targets) == 1 and isinstance(a.targets[0], ast.Name)):
                    fail(a, "conditional block: only assignments")
                nm = a.targets[0].id
                if nm not in env.t or (nm not in state_names and nm not in defined) or nm in names or nm in none_init or nm in ("x_prev", "error_values"):
                    fail(a, "conditional assignment to %s (must be an existing scalar of the state or a local)" % nm)
                for r in names_read(a.value):
                    if r in names:
                        fail(a, "a conditional assignment reads a variable assigned earlier in the same block")
                check_reads(a.value)
                v, ty = sub_env.ex(a.value)
                if ty != env.t[nm]:
                    fail(a, "conditional assignment changes the type of %s" % nm)
                names.append(nm); vals.append(v)
            if len(names) == 1:
                out.append("let %s := if %s then %s else %s in" % (names[0], c, vals[0], names[0]))
            else:
                out.append("let '(%s) := if %s then (%s) else (%s) in" % (", ".join(names), c, ", ".join(vals), ", ".join(names)))
            i += 1
            continue
        # c. while cond: v = e
        if isinstance(st, ast.While):
            if not (len(st.body) == 1 and isinstance(st.body[0], ast.Assign) and len(st.body[0].targets) == 1
                    and isinstance(st.body[0].targets[0], ast.Name) and not st.orelse):
                fail(st, "while body must be one assignment")
            v = st.body[0].targets[0].id
            if env.t.get(v) != "F" or v not in defined:
                fail(st, "the variable of the while loop must be a scalar initialised in this iteration")
            check_reads(st.test)
            check_reads(st.body[0].value)
            c, tc = env.ex(st.test)
            b, tb = env.ex(st.body[0].value)
            if tc != "bool" or tb != "F":
                fail(st, "while types")
            out.append("let %s := gen_while fuel (fun %s => %s) (fun %s => %s) %s in" % (v, v, c, v, b, v))
            i += 1
            continue
        # e. error_values.append(error_value)
        if isinstance(st, ast.Expr) and isinstance(st.value, ast.Call) and ast.unparse(st.value.func) == "error_values.append":
            if len(st.value.args) != 1 or st.value.keywords:
                fail(st, "append arguments")
            check_reads(st.value.args[0])
            a, ta = env.ex(st.value.args[0])
            if ta != "F":
                fail(st, "appended value is not a scalar")
            out.append("let error_values := %s :: error_values in" % a)
            i += 1
            continue
        # b. plain assignment
        if isinstance(st, ast.Assign) and len(st.targets) == 1 and isinstance(st.targets[0], ast.Name):
            nm = st.targets[0].id
            check_reads(st.value)
            v, ty = env.ex(st.value)
            if ty == "int":
                ty = "F"
            if nm in none_init:
                want = {"optvec": "vec", "optZ": "Z"}[dict(state)[nm]]
                if ty != want:
                    fail(st, "%s must be assigned a %s" % (nm, want))
                out.append("let %s := %s in" % (nm, v))
                env.t[nm] = ty
                defined.add(nm)
            else:
                if nm in state_names or nm in inv:
                    fail(st, "unexpected unconditional assignment to the state / invariant variable %s" % nm)
                out.append("let %s := %s in" % (nm, v))
                env.t[nm] = ty
                defined.add(nm)
            i += 1
            continue
        fail(st, "statement in the loop body: %s" % ast.unparse(st)[:80])
    for nm in none_init:
        if env.t.get(nm) not in ("vec", "Z"):
            fail(loop, "the loop body does not assign %s" % nm)
    if env.t.get("is_doing") != "bool":
        fail(loop, "the loop body does not compute is_doing")
    tup = ", ".join(("Some %s" % nm) if nm in none_init else nm for nm in state_names)
    state_ty = " * ".join(COQTY[t] for _, t in state)
    binders = " ".join("(%s : %s)" % (nm, COQTY[t]) for nm, t in spec["params"]) + " (k : nat) " + " ".join("(%s : %s)" % (nm, COQTY[t]) for nm, t in state)
    body_txt = "\n    ".join(out)
    gen_body = ("Definition gen_%s_state : Type := (%s)%%type.\n"
                "Definition gen_%s_body (mode : C10_mode) (h fuel : nat) %s\n    : gen_%s_state * bool :=\n    %s\n    ((%s), is_doing)." % (
                    tag, state_ty, tag, binders, tag, body_txt, tup))
    gen_locals = ""
    if spec["locals"]:
        for nm in spec["locals"]:
            if nm not in defined:
                fail(loop, "the loop body no longer has the local %s" % nm)
        # the locals as they are when the last of them has been computed (the statements up to there)
        upto = max(idx for idx, l in enumerate(out) if any(l.startswith("let %s :=" % nm) for nm in spec["locals"]))
        loc_ty = " * ".join(COQTY[env.t[nm]] for nm in spec["locals"])
        gen_locals = ("Definition gen_%s_locals (mode : C10_mode) (h fuel : nat) %s\n    : (%s)%%type :=\n    %s\n    (%s)." % (
            tag, binders, loc_ty, "\n    ".join(out[:upto + 1]), ", ".join(spec["locals"])))
    # ---- after the loop:  if k == max_iteration: <printing>;  both returns hand out x_next (and k, error_values)
    warn = [st for st in post if isinstance(st, ast.If) and ast.unparse(st.test) == "k == max_iteration"]
    if len(warn) != 1 or warn[0].orelse:
        fail(fdef, "expected `if k == max_iteration:` (warning) after the loop")
    history_only(warn[0].body)
    rets = [nd for st in post for nd in ast.walk(st) if isinstance(nd, ast.Return)]
    ctors = [nd for st in post for nd in ast.walk(st) if isinstance(nd, ast.Call) and ast.unparse(nd.func) == spec["res"]]
    if not rets or not ctors:
        fail(fdef, "no result after the loop")
    for c in ctors:
        if not c.args or ast.unparse(c.args[0]) != "x_next":
            fail(c, "the result is not built from x_next")
        kw = {k_.arg: ast.unparse(k_.value) for k_ in c.keywords}
        for a, b in (("k", "k"), ("error_values", "error_values")):
            if a in kw and kw[a] != b:
                fail(c, "result field %s = %s" % (a, kw[a]))
    for st in post:
        if st is warn[0]:
            continue
        if isinstance(st, ast.If) and ast.unparse(st.test) == "on_iteration_history":
            for blk in (st.body, st.orelse):
                history_only(blk)
            continue
        fail(st, "statement after the loop")
    pnames = " ".join(nm for nm, _ in spec["params"])
    pbind = " ".join("(%s : %s)" % (nm, COQTY[t]) for nm, t in spec["params"])
    init_binders, init_tuple = [], []
    for nm, t in state:
        if nm in inits:
            init_tuple.append(inits[nm])
        elif t in ("optvec", "optZ"):
            init_tuple.append("None")
        elif nm == "error_values":
            init_tuple.append("[]")
        else:
            init_binders.append("(%s : %s)" % (nm, COQTY[t]))
            init_tuple.append(nm)
    pat = ", ".join(nm for nm, _ in state)
    skeleton = """(* for k in range(1, max_iteration + 1): <body>; if not is_doing: break   -- [rem] iterations left including this one *)
Inductive gen_%(t)s_result := Gen_%(t)s_Broke (s : gen_%(t)s_state) (k : nat) | Gen_%(t)s_Exhausted (s : gen_%(t)s_state) (k : nat) | Gen_%(t)s_Unbound.
Fixpoint gen_%(t)s_for (mode : C10_mode) (h fuel : nat) %(pb)s (rem k : nat) (s : gen_%(t)s_state) : gen_%(t)s_result :=
  match rem with
  | O => Gen_%(t)s_Unbound
  | S r =>
      let '(%(pat)s) := s in
      let '(s', is_doing) := gen_%(t)s_body mode h fuel %(pn)s k %(args)s in
      if negb is_doing then Gen_%(t)s_Broke s' k
      else match r with
           | O => Gen_%(t)s_Exhausted s' k
           | S _ => gen_%(t)s_for mode h fuel %(pn)s r (S k) s'
           end
  end.
Definition gen_%(t)s_optimize (mode : C10_mode) (h fuel : nat) %(pb)s (max_iteration : nat) %(ib)s : gen_%(t)s_result :=
  gen_%(t)s_for mode h fuel %(pn)s max_iteration 1 (%(it)s).""" % dict(t=tag, pb=pbind, pn=pnames, pat=pat, args=" ".join(nm for nm, _ in state),
                                                                    ib=" ".join(init_binders), it=", ".join(init_tuple))
    return "\n\n".join(x for x in (tr_pre(tag, pre), gen_body, gen_locals, skeleton) if x)


# ------------------------------------------------------------------ the decision function
PGD = "quara/minimization_algorithm/projected_gradient_descent.py"
QOP = "quara/objects/qoperation.py"
ORDER_SRC = {"option.mode_proj_order": "(o_order o)"}
PARA_SRC = {"setting_info.on_para_eq_constraint": "(t_on_para t)"}
MAXIT_SRC = {"option.max_iteration_proj_physical": "(o_maxit_proj o)"}


def tr_closure(fdef):
    """QOperation.func_calc_proj_physical_with_var(self, on_para_eq_constraint=None, mode_proj_order="eq_ineq", max_iteration=1000):
    which (order, parametrisation flag, cap) the Dykstra loop of the returned closure runs with"""
    params = [a.arg for a in fdef.args.args]
    if params != ["self", "on_para_eq_constraint", "mode_proj_order", "max_iteration"]:
        fail(fdef, "signature of func_calc_proj_physical_with_var is %s" % params)
    body = strip_doc(fdef.body)
    para = "para_arg_raw"
    objs = {"self": "self_order"}          # object name -> its mode_proj_order
    inner = None
    for st in body:
        src = ast.unparse(st)
        if isinstance(st, ast.If) and ast.unparse(st.test) == "on_para_eq_constraint is None":
            if [ast.unparse(x) for x in st.body] != ["on_para_eq_constraint = self._on_para_eq_constraint"] or st.orelse:
                fail(st, "default of on_para_eq_constraint")
            para = "defaulted"
            continue
        if isinstance(st, ast.Assign) and len(st.targets) == 1 and isinstance(st.targets[0], ast.Name) and ast.unparse(st.value) == "self.copy()":
            objs[st.targets[0].id] = "self_order"
            continue
        if (isinstance(st, ast.Expr) and isinstance(st.value, ast.Call) and isinstance(st.value.func, ast.Attribute) and st.value.func.attr == "set_mode_proj_order"
                and isinstance(st.value.func.value, ast.Name) and st.value.func.value.id in objs and st.value.func.value.id != "self"
                and len(st.value.args) == 1 and not st.value.keywords and ast.unparse(st.value.args[0]) == "mode_proj_order"):
            objs[st.value.func.value.id] = "order_arg"
            continue
        if isinstance(st, ast.FunctionDef):
            if inner is not None or [a.arg for a in st.args.args] != ["var"]:
                fail(st, "inner function")
            inner = st
            continue
        if isinstance(st, ast.Return):
            if inner is None or ast.unparse(st.value) != inner.name:
                fail(st, "the function must return its inner closure")
            continue
        fail(st, "statement in func_calc_proj_physical_with_var: %s" % src[:70])
    if inner is None or para != "defaulted":
        fail(fdef, "no closure / no default handling of on_para_eq_constraint")
    calls = [nd for nd in ast.walk(inner) if isinstance(nd, ast.Call) and isinstance(nd.func, ast.Attribute) and nd.func.attr == "calc_proj_physical_with_var"]
    rets = [nd for nd in ast.walk(inner) if isinstance(nd, ast.Return)]
    if len(calls) != 1 or len(rets) != 1:
        fail(inner, "the closure must call calc_proj_physical_with_var exactly once and return once")
    c = calls[0]
    tgt = ast.unparse(c.func.value)
    if tgt not in objs:
        fail(c, "calc_proj_physical_with_var is called on %s" % tgt)
    if len(c.args) != 1 or ast.unparse(c.args[0]) != "var":
        fail(c, "positional arguments of the call")
    kw = {k_.arg: ast.unparse(k_.value) for k_ in c.keywords}
    if set(kw) - {"on_para_eq_constraint", "max_iteration"}:
        fail(c, "keyword arguments %s" % sorted(kw))
    # value flow of the returned variable: `new_var = <call>; return new_var` or `return <call>`
    rv = ast.unparse(rets[0].value)
    assigns = {ast.unparse(a.targets[0]): a.value for a in ast.walk(inner) if isinstance(a, ast.Assign) and len(a.targets) == 1}
    if not (rets[0].value is c or (rv in assigns and assigns[rv] is c)):
        fail(rets[0], "the closure does not return the result of calc_proj_physical_with_var")
    para_t = {"on_para_eq_constraint": "(match para_arg with Some b => b | None => self_para end)", None: "true"}[kw.get("on_para_eq_constraint")] if kw.get("on_para_eq_constraint") in ("on_para_eq_constraint", None) else None
    if para_t is None:
        fail(c, "on_para_eq_constraint=%s" % kw.get("on_para_eq_constraint"))
    if kw.get("max_iteration") == "max_iteration":
        maxit_t = "maxit_arg"
    elif kw.get("max_iteration") is None:
        maxit_t = "1000%Z"          # the default of calc_proj_physical_with_var
    else:
        fail(c, "max_iteration=%s" % kw.get("max_iteration"))
    return ("(* the closure returned by func_calc_proj_physical_with_var runs calc_proj_physical_with_var of an object whose mode_proj_order is ... *)\n"
            "Definition gen_closure (self_order : C10_order) (self_para : bool) (para_arg : option bool) (order_arg : C10_order) (maxit_arg : Z)\n"
            "    : C10_order * bool * Z := (%s, %s, %s)." % (objs[tgt], para_t, maxit_t))


def tr_select(cls):
    init = next(f for f in cls.body if isinstance(f, ast.FunctionDef) and f.name == "__init__")
    setc = next(f for f in cls.body if isinstance(f, ast.FunctionDef) and f.name == "set_constraint_from_standard_qt_and_option")
    if [a.arg for a in init.args.args] != ["self", "func_proj"]:
        fail(init, "signature of __init__")
    # ---- __init__: which attributes describe "a projection was handed over"
    attrs = {}
    for st in strip_doc(init.body):
        src = ast.unparse(st)
        if src == "super().__init__()":
            continue
        tgt = st.target if isinstance(st, ast.AnnAssign) else (st.targets[0] if isinstance(st, ast.Assign) and len(st.targets) == 1 else None)
        if tgt is None or not (isinstance(tgt, ast.Attribute) and ast.unparse(tgt.value) == "self"):
            fail(st, "statement in __init__: %s" % src[:60])
        attrs[tgt.attr] = ast.unparse(st.value)
    if attrs.get("_func_proj") != "func_proj":
        fail(init, "__init__ does not store func_proj in self._func_proj")
    # ---- set_constraint_from_standard_qt_and_option
    if [a.arg for a in setc.args.args] != ["self", "qt", "option"]:
        fail(setc, "signature of set_constraint_from_standard_qt_and_option")
    body = strip_doc(setc.body)
    if ast.unparse(body[0]) != "self._qt = qt":
        fail(body[0], "first statement")
    st = body[1]
    if not (isinstance(st, ast.If) and len(st.body) == 1 and isinstance(st.body[0], ast.Return) and st.body[0].value is None and not st.orelse):
        fail(st, "early return")
    test = ast.unparse(st.test)
    if test == "self._func_proj is not None":
        keeps = "orb given derived"                       # whatever is installed (given or derived earlier) is kept
    elif test.startswith("self.") and attrs.get(test[5:]) == "func_proj is not None":
        keeps = "given"                                   # only a projection handed to the constructor is kept
        for other in setc.body[2:]:
            for nd in ast.walk(other):
                if isinstance(nd, ast.Attribute) and isinstance(nd.ctx, ast.Store) and nd.attr == test[5:]:
                    fail(nd, "the flag %s is modified outside __init__" % test[5:])
    else:
        fail(st, "early-return test %s" % test)
    if ast.unparse(body[2]) != "setting_info = self._qt.generate_empty_estimation_obj_with_setting_info()":
        fail(body[2], "setting_info")
    if len(body) != 4 or not isinstance(body[3], ast.If):
        fail(setc, "expected the if/elif/else chain as the last statement")

    def flag_test(t):
        """option.on_algo_eq_constraint == B and option.on_algo_ineq_constraint == B'  -> Coq bool"""
        if not (isinstance(t, ast.BoolOp) and isinstance(t.op, ast.And) and len(t.values) == 2):
            fail(t, "flag test")
        parts = []
        for v, attr, fld in zip(t.values, ("on_algo_eq_constraint", "on_algo_ineq_constraint"), ("o_eq", "o_ineq")):
            if not (isinstance(v, ast.Compare) and len(v.ops) == 1 and isinstance(v.ops[0], ast.Eq) and ast.unparse(v.left) == "option." + attr
                    and isinstance(v.comparators[0], ast.Constant) and isinstance(v.comparators[0].value, bool)):
                fail(v, "flag test part")
            parts.append("Bool.eqb (%s o) %s" % (fld, "true" if v.comparators[0].value else "false"))
        return "(%s && %s)" % tuple(parts)

    def branch(stmts):
        if not (len(stmts) == 1 and isinstance(stmts[0], ast.Assign) and ast.unparse(stmts[0].targets[0]) == "self._func_proj" and isinstance(stmts[0].value, ast.Call)):
            fail(stmts[0], "a branch must be `self._func_proj = <call>`")
        c = stmts[0].value
        fn = ast.unparse(c.func)
        kw = {k_.arg: ast.unparse(k_.value) for k_ in c.keywords}
        pos = [ast.unparse(a) for a in c.args]
        if fn == "func_proj.proj_to_self" and not pos and not kw:
            return "{| d_kind := KIdentity; d_on_para := false; d_order := EqIneq; d_maxit := 0%Z |}"
        if fn in ("setting_info.func_calc_proj_eq_constraint_with_var", "setting_info.func_calc_proj_ineq_constraint_with_var"):
            arg = pos[0] if len(pos) == 1 and not kw else (kw.get("on_para_eq_constraint") if not pos and set(kw) == {"on_para_eq_constraint"} else None)
            if arg not in PARA_SRC:
                fail(c, "argument of %s" % fn)
            return "{| d_kind := %s; d_on_para := %s; d_order := EqIneq; d_maxit := 0%%Z |}" % ("KEq" if "_eq_" in fn.split(".")[1][:18] else "KIneq", PARA_SRC[arg])
        if fn == "setting_info.func_calc_proj_physical_with_var" and not pos:
            if set(kw) - {"on_para_eq_constraint", "mode_proj_order", "max_iteration"}:
                fail(c, "keywords %s" % sorted(kw))
            if "on_para_eq_constraint" in kw and kw["on_para_eq_constraint"] not in PARA_SRC:
                fail(c, "on_para_eq_constraint=%s" % kw["on_para_eq_constraint"])
            if "mode_proj_order" in kw and kw["mode_proj_order"] not in ORDER_SRC:
                fail(c, "mode_proj_order=%s" % kw["mode_proj_order"])
            if "max_iteration" in kw and kw["max_iteration"] not in MAXIT_SRC:
                fail(c, "max_iteration=%s" % kw["max_iteration"])
            pa = "(Some %s)" % PARA_SRC[kw["on_para_eq_constraint"]] if "on_para_eq_constraint" in kw else "None"
            oa = ORDER_SRC[kw["mode_proj_order"]] if "mode_proj_order" in kw else "EqIneq"          # the default "eq_ineq"
            ma = MAXIT_SRC[kw["max_iteration"]] if "max_iteration" in kw else "1000%Z"
            return ("(let '(ord_, para_, mx_) := gen_closure (t_order t) (t_on_para t) %s %s %s in\n"
                    "       {| d_kind := KPhysical; d_on_para := para_; d_order := ord_; d_maxit := mx_ |})" % (pa, oa, ma))
        fail(c, "projection factory %s" % fn)

    cur = body[3]
    chain = []
    while True:
        chain.append((flag_test(cur.test), branch(cur.body)))
        if len(cur.orelse) == 1 and isinstance(cur.orelse[0], ast.If):
            cur = cur.orelse[0]
            continue
        last = branch(cur.orelse)
        break
    term = last
    for c, b in reversed(chain):
        term = "if %s then %s\n    else %s" % (c, b, term)
    return ("(* `if <...>: return` at the top of set_constraint_from_standard_qt_and_option: is the installed projection kept? *)\n"
            "Definition gen_keeps_installed (given derived : bool) : bool := %s.\n"
            "Definition gen_select (t : C10_template) (o : C10_option) : C10_desc :=\n    %s.\n"
            "Definition gen_configure (a : C10_algo) (c : C10_template * C10_option) : C10_algo :=\n"
            "  if gen_keeps_installed (match a_given a with Some _ => true | None => false end) (match a_derived a with Some _ => true | None => false end)\n"
            "  then a else {| a_given := a_given a; a_derived := Some (gen_select (fst c) (snd c)) |}." % (keeps, term))


# ------------------------------------------------------------------ ProjectedLinearEstimator.calc_estimate_sequence
PLE = "quara/protocol/qtomography/standard/projected_linear_estimator.py"
TIME_NAMES = {"start_time", "comp_time", "proj_computation_times", "linear_computation_times"}


def time_only(st):
    """bookkeeping of computation times: may be dropped (assignments to / appends on time variables only)"""
    if isinstance(st, ast.Assign) and all(isinstance(t, ast.Name) and t.id in TIME_NAMES for t in st.targets):
        return True
    if isinstance(st, ast.Expr) and isinstance(st.value, ast.Call) and ast.unparse(st.value.func) == "proj_computation_times.append":
        return True
    return False


def tr_ple(fdef):
    if [a.arg for a in fdef.args.args] != ["self", "qtomography", "empi_dists_sequence", "is_computation_time_required"]:
        fail(fdef, "signature of ProjectedLinearEstimator.calc_estimate_sequence")
    body = strip_doc(fdef.body)
    loops = [i for i, st in enumerate(body) if isinstance(st, ast.For)]
    if len(loops) != 1:
        fail(fdef, "expected exactly one for loop")
    pre, loop, post = body[:loops[0]], body[loops[0]], body[loops[0] + 1:]
    want_pre = {"result": "super().calc_estimate_sequence(qtomography, empi_dists_sequence, is_computation_time_required)",
                "linear_estimates": "result.estimated_qoperation_sequence", "proj_estimated_var_sequence": "[]"}
    got = {}
    for st in pre:
        if time_only(st):
            continue
        if isinstance(st, ast.Assign) and len(st.targets) == 1 and isinstance(st.targets[0], ast.Name):
            got[st.targets[0].id] = ast.unparse(st.value)
            continue
        fail(st, "statement before the loop")
    if got != want_pre:
        fail(fdef, "before the loop: %s (expected %s)" % (got, want_pre))
    if not (ast.unparse(loop.target) == "(index, linear_estimate)" and ast.unparse(loop.iter) == "enumerate(linear_estimates)" and not loop.orelse):
        fail(loop, "loop header")
    order = "(lin_order lin)"          # the order stored in the linear estimate itself, unless it is set before projecting
    projected = False
    appended = False
    for st in loop.body:
        src = ast.unparse(st)
        if time_only(st):
            continue
        if isinstance(st, ast.If) and ast.unparse(st.test) == "is_computation_time_required":
            branches = [st.body, st.orelse]
            if all(all(time_only(x) for x in b) for b in branches):
                continue
            apps = []
            for b, sel in zip(branches, ("proj_estimate[0].to_var()", "proj_estimate.to_var()")):
                rest = [x for x in b if not time_only(x)]
                if len(rest) != 1 or ast.unparse(rest[0]) != "proj_estimated_var_sequence.append(%s)" % sel:
                    fail(st, "the branches must append %s" % sel)
                apps.append(sel)
            if not projected or appended:
                fail(st, "append before the projection / twice")
            appended = True
            continue
        if src.startswith("linear_estimate.set_mode_proj_order("):
            if projected or src != "linear_estimate.set_mode_proj_order(self.mode_proj_order)":
                fail(st, "set_mode_proj_order call")
            order = "self_order"
            continue
        if src.startswith("proj_estimate = "):
            c = st.value
            if not (isinstance(c, ast.Call) and ast.unparse(c.func) == "linear_estimate.calc_proj_physical" and not c.args
                    and {k_.arg: ast.unparse(k_.value) for k_ in c.keywords} == {"is_iteration_history": "is_computation_time_required"}) or projected:
                fail(st, "the projection call")
            projected = True
            continue
        fail(st, "statement in the loop: %s" % src[:70])
    if not (projected and appended):
        fail(loop, "the loop does not project and append")
    post = [st for st in post if not time_only(st)]
    if not (len(post) == 2 and isinstance(post[0], ast.Assign) and isinstance(post[0].value, ast.Call)
            and ast.unparse(post[0].value.func) == "ProjectedLinearEstimationResult" and post[0].value.args
            and ast.unparse(post[0].value.args[0]) == "proj_estimated_var_sequence"
            and isinstance(post[1], ast.Return) and ast.unparse(post[1].value) == ast.unparse(post[0].targets[0])):
        fail(fdef, "the result is not built from proj_estimated_var_sequence")
    return ("(* ProjectedLinearEstimator.calc_estimate_sequence: [proj o lin] = to_var of calc_proj_physical of the linear estimate [lin] run in order o *)\n"
            "Definition gen_ple_sequence {V W : Type} (proj : C10_order -> V -> option W) (self_order : C10_order) (lin_order : V -> C10_order)\n"
            "    (lins : list V) : list (option W) := map (fun lin => proj %s lin) lins." % order)


HEADER = """(* GENERATED by gen/c10_py2coq.py from the current source of quara -- do not edit *)
From Coq Require Import Arith List Bool ZArith.
From QV.Core Require Import OF Sums Mat.
From QV.Model Require Import C10_Estimators.
Import ListNotations.

%s

%s

%s

Section Gen_c10.
Context (F : OF).
Notation vec := (@vec F).
Variables (sq : F -> F) (sqn : nat -> F) (mag : F -> Z) (z0 : F) (n : nat) (f : vec -> F) (g P : vec -> vec).

(* while c a: a = b a   with explicit fuel; out of fuel: the current value (the model's convention) *)
Fixpoint gen_while (fuel : nat) (c : F -> bool) (b : F -> F) (a : F) : F :=
  match fuel with
  | O => a
  | S k => if c a then gen_while k c b (b a) else a
  end.

%s

%s
End Gen_c10.
"""


def main():
    repo, out = sys.argv[1], sys.argv[2]
    try:
        tq = ast.parse(open(os.path.join(repo, QOP)).read())
        closure = tr_closure(get_method(tq, "QOperation", "func_calc_proj_physical_with_var"))
        tp = ast.parse(open(os.path.join(repo, PGD)).read())
        cls = next((c for c in tp.body if isinstance(c, ast.ClassDef) and c.name == "ProjectedGradientDescent"), None)
        if cls is None:
            raise Unsupported("class ProjectedGradientDescent not found")
        select = tr_select(cls)
        tl = ast.parse(open(os.path.join(repo, PLE)).read())
        ple = tr_ple(get_method(tl, "ProjectedLinearEstimator", "calc_estimate_sequence"))
        parts = []
        isd = None
        for tag in ("bt", "mom", "fista"):
            t = ast.parse(open(os.path.join(repo, ALGOS[tag]["file"])).read())
            if tag == "bt":
                isd = tr_is_doing(get_method(t, ALGOS[tag]["cls"], "_is_doing_for_alpha"))
            parts.append(tr_optimize(tag, get_method(t, ALGOS[tag]["cls"], "optimize")))
    except Unsupported as e:
        print("UNSUPPORTED: %s" % e)
        sys.exit(3)
    open(out, "w").write(HEADER % (closure, select, ple, isd, "\n\n".join(parts)))


if __name__ == "__main__":
    main()
