#!/usr/bin/env python3
"""C02's translator: fail-closed translation of the GLUE of quara's representation conversions (wrappers, call skeletons, threshold /
dispatch logic) into Gallina.

    c02_py2coq.py <repo> <out.v>      regenerates Gen_c02_glue.v from /repo's CURRENT source (every run of ./check C02)

What is translated is the control and data flow of each listed function: which callee is applied to which arguments in which order, which
attribute / table is read, which shape is built, which threshold is compared with what, where an exception is raised.  The numerical
primitives (sparse dot, reshape, flatten, np.where, np.abs, ... and the callees that are not themselves in the list) are NOT translated:
every one of them becomes a field of the record `sym V` over an abstract value type V, named after the Python construct
(call_<f>_<arity>[__kw..], meth_<m>_<arity>, attr_<a>, op_<Op>, cmp_<Op>, const_*, mod_<module>_<name>, tuple<n>, ite, list_map, raise_<Exc>).
coq/gen/C02_Equiv.v (compiled in the same run) proves (1) that every regenerated function is the recorded call skeleton, (2) transported
round-trip theorems under the stated laws of the primitives, (3) for the truncate_hs family, instantiated with an array semantics of the
numpy vocabulary, equality with the hand-written model Model/C02_Conv.truncate_hs.

Subset (anything else raises Unsupported, exit 3 - the tie is then reported broken, never skipped):
  def with positional parameters (defaults must be constants); docstring; `x = e`; `return e`; `if c: raise Exc(...)`;
  `if c: x = e` (conditional re-assignment, no else); `if c: <block ending in return / raise> else: <block ending in return / raise>`;
  `acc = []` + `for v in xs: <assignments>; acc.append(e)` (map);  `for v in xs: t = e` with t already bound (fold);  subscripts `x[i]`;
  `self.m(..)` where Class.m is itself listed is a call of the regenerated method; `[e for a, b in itertools.product(X, Y)]`, `[e for v in xs]`;
  expressions: names, constants, attributes, calls (positional + keyword), method calls, tuples, binary / boolean / comparison / unary-not
  operators, conditional expressions, f-strings only inside `raise`.
A call to a function that is itself in the list is translated as a call of the regenerated definition (arguments bound by position / keyword,
missing ones filled with the constant defaults), so the call graph below the listed entry points is part of the regenerated term.
Trusted: this file, the list TARGETS, the set MODULES of names treated as modules / classes (their attributes are constants or functions,
not objects)."""
import ast, sys, os, re

TARGETS = [   # (file, qualified name); order irrelevant, emitted in dependency order
    ("quara/utils/matrix_util.py", "truncate_imaginary_part"),
    ("quara/utils/matrix_util.py", "truncate_computational_fluctuation"),
    ("quara/utils/matrix_util.py", "truncate_hs"),
    ("quara/utils/matrix_util.py", "flatten"),
    ("quara/objects/state.py", "to_density_matrix_from_vec"),
    ("quara/objects/state.py", "to_vec_from_density_matrix_with_sparsity"),
    ("quara/objects/state.py", "to_density_matrix_from_var"),
    ("quara/objects/state.py", "to_var_from_density_matrix"),
    ("quara/objects/state.py", "State.to_density_matrix_with_sparsity"),
    ("quara/objects/povm.py", "to_matrices_from_vecs"),
    ("quara/objects/povm.py", "to_vec_from_matrix_with_sparsity"),
    ("quara/objects/povm.py", "to_vecs_from_matrices_with_sparsity"),
    ("quara/objects/povm.py", "to_matrices_from_var"),
    ("quara/objects/povm.py", "to_var_from_matrices"),
    ("quara/objects/povm.py", "Povm._md_index2serial_index"),
    ("quara/objects/povm.py", "Povm.vec"),
    ("quara/objects/povm.py", "Povm.matrices_with_sparsity"),
    ("quara/objects/povm.py", "Povm.matrix_with_sparsity"),
    ("quara/objects/gate.py", "to_choi_from_hs_with_sparsity"),
    ("quara/objects/gate.py", "to_hs_from_choi_with_sparsity"),
    ("quara/objects/gate.py", "to_choi_from_var"),
    ("quara/objects/gate.py", "to_var_from_choi"),
    ("quara/objects/gate.py", "Gate.to_choi_matrix"),
    ("quara/objects/gate.py", "Gate.to_choi_matrix_with_dict"),
    ("quara/objects/gate.py", "Gate.to_choi_matrix_with_sparsity"),
    ("quara/objects/gate.py", "Gate.to_kraus_matrices"),
    ("quara/objects/gate.py", "Gate.to_process_matrix"),
    ("quara/objects/gate.py", "convert_hs"),
    ("quara/objects/gate.py", "Gate.convert_basis"),
    ("quara/objects/gate.py", "Gate.convert_to_comp_basis"),
    ("quara/objects/matrix_basis.py", "convert_vec"),
    ("quara/objects/state.py", "State.convert_basis"),
    ("quara/objects/povm.py", "Povm.convert_basis"),
    ("quara/objects/mprocess.py", "MProcess.hs"),
    ("quara/objects/mprocess.py", "MProcess.to_choi_matrix"),
    ("quara/objects/mprocess.py", "MProcess.to_choi_matrix_with_dict"),
    ("quara/objects/mprocess.py", "MProcess.to_choi_matrix_with_sparsity"),
    ("quara/objects/mprocess.py", "MProcess.to_kraus_matrices"),
    ("quara/objects/mprocess.py", "MProcess.to_process_matrix"),
]
MODULES = {"np", "mutil", "matrix_util", "sparse", "Settings", "itertools", "gate"}
IMPORTED = {"convert_vec": "quara/objects/matrix_basis.py"}      # names imported from another module that is in the list
BUILTIN_CONSTS = {"tuple", "int", "list", "float"}      # type objects compared with type(x)
MODULE_ALIAS = {"mutil": "quara/utils/matrix_util.py", "matrix_util": "quara/utils/matrix_util.py", "gate": "quara/objects/gate.py"}


class Unsupported(Exception):
    pass


def fail(node, msg):
    raise Unsupported("%s (line %s): %s" % (type(node).__name__, getattr(node, "lineno", "?"), msg))


def ident(s):
    return re.sub(r"[^A-Za-z0-9_]", "_", s)


class Ctx:
    def __init__(self):
        self.syms = {}        # name -> arity (number of V arguments; list_map is special)
        self.funs = {}        # (file, plain name) -> (gen name, params, defaults)
        self.deps = {}

    def sym(self, name, arity):
        if name in self.syms and self.syms[name] != arity:
            raise Unsupported("symbol %s used with arities %d and %d" % (name, self.syms[name], arity))
        self.syms[name] = arity
        return name


def find(tree, qual):
    if "." in qual:
        cls, meth = qual.split(".")
        for x in tree.body:
            if isinstance(x, ast.ClassDef) and x.name == cls:
                for y in x.body:
                    if isinstance(y, ast.FunctionDef) and y.name == meth:
                        return y
    else:
        for x in tree.body:
            if isinstance(x, ast.FunctionDef) and x.name == qual:
                return x
    raise Unsupported("function %s not found" % qual)


def const_name(cx, v, node):
    if v is None:
        return cx.sym("const_None", 0)
    if v is True:
        return cx.sym("const_True", 0)
    if v is False:
        return cx.sym("const_False", 0)
    if isinstance(v, int):
        return cx.sym("const_int_%s" % ("m%d" % -v if v < 0 else "%d" % v), 0)
    if isinstance(v, float):
        return cx.sym("const_float_" + ident(repr(v)), 0)
    fail(node, "constant %r" % (v,))


class Tr:
    def __init__(self, cx, file, fn, gname, cls=None):
        self.cx, self.file, self.fn, self.gname, self.cls = cx, file, fn, gname, cls
        self.fresh = 0

    # ---------------------------------------------------------------- expressions
    def app(self, name, args):
        self.cx.sym(name, len(args))
        return "(%s s%s)" % (name, "".join(" " + a for a in args)) if args else "(%s s)" % name

    def expr(self, e, env):
        if isinstance(e, ast.Name):
            if e.id in env:
                return env[e.id]
            if e.id in BUILTIN_CONSTS:
                return self.app(self.cx.sym("builtin_" + e.id, 0), [])
            fail(e, "free name %s" % e.id)
        if isinstance(e, ast.Constant):
            return self.app(const_name(self.cx, e.value, e), [])
        if isinstance(e, ast.Attribute):
            if isinstance(e.value, ast.Name) and e.value.id in MODULES and e.value.id not in env:
                return self.app(self.cx.sym("mod_%s_%s" % (e.value.id, e.attr), 0), [])
            return self.app("attr_" + e.attr, [self.expr(e.value, env)])
        if isinstance(e, ast.Tuple):
            return self.app("tuple%d" % len(e.elts), [self.expr(x, env) for x in e.elts])
        if isinstance(e, ast.BinOp):
            return self.app("op_" + type(e.op).__name__, [self.expr(e.left, env), self.expr(e.right, env)])
        if isinstance(e, ast.UnaryOp) and isinstance(e.op, ast.Not):
            return self.app("op_Not", [self.expr(e.operand, env)])
        if isinstance(e, ast.BoolOp):
            vals = [self.expr(v, env) for v in e.values]
            out = vals[0]
            for v in vals[1:]:
                out = self.app("op_" + type(e.op).__name__, [out, v])
            return out
        if isinstance(e, ast.Compare):
            if len(e.ops) != 1:
                fail(e, "chained comparison")
            return self.app("cmp_" + type(e.ops[0]).__name__, [self.expr(e.left, env), self.expr(e.comparators[0], env)])
        if isinstance(e, ast.Subscript):
            if isinstance(e.slice, ast.Slice) or (isinstance(e.slice, ast.Tuple)):
                fail(e, "slice / tuple subscript")
            return self.app("subscr", [self.expr(e.value, env), self.expr(e.slice, env)])
        if isinstance(e, ast.IfExp):
            return self.app("ite", [self.expr(e.test, env), self.expr(e.body, env), self.expr(e.orelse, env)])
        if isinstance(e, ast.ListComp):
            if len(e.generators) != 1 or e.generators[0].ifs or e.generators[0].is_async:
                fail(e, "comprehension form")
            g = e.generators[0]
            it = g.iter
            if (isinstance(g.target, ast.Tuple) and len(g.target.elts) == 2 and all(isinstance(x, ast.Name) for x in g.target.elts)
                    and isinstance(it, ast.Call) and isinstance(it.func, ast.Attribute) and isinstance(it.func.value, ast.Name)
                    and it.func.value.id == "itertools" and it.func.attr == "product" and len(it.args) == 2 and not it.keywords):
                self.fresh += 1
                a, b = ["%s_%d" % (ident(x.id), self.fresh) for x in g.target.elts]
                env2 = dict(env); env2[g.target.elts[0].id] = a; env2[g.target.elts[1].id] = b
                self.cx.sym("list_map_product", -2)
                return "(list_map_product s (fun %s %s => %s) %s %s)" % (a, b, self.expr(e.elt, env2), self.expr(it.args[0], env), self.expr(it.args[1], env))
            if isinstance(g.target, ast.Name):
                self.fresh += 1
                v = "%s_%d" % (ident(g.target.id), self.fresh)
                env2 = dict(env); env2[g.target.id] = v
                self.cx.sym("list_map", -1)
                return "(list_map s (fun %s => %s) %s)" % (v, self.expr(e.elt, env2), self.expr(it, env))
            fail(e, "comprehension form")
        if isinstance(e, ast.Call):
            return self.call(e, env)
        fail(e, "expression outside the subset")

    def call(self, e, env):
        for a in e.args:
            if isinstance(a, ast.Starred):
                fail(e, "starred argument")
        if any(k.arg is None for k in e.keywords):
            fail(e, "**kwargs")
        pos = [self.expr(a, env) for a in e.args]
        kws = sorted((k.arg, self.expr(k.value, env)) for k in e.keywords)
        f = e.func
        target = None
        if isinstance(f, ast.Name) and f.id not in env:
            target = (self.file, f.id)
            if target not in self.cx.funs and f.id in IMPORTED:
                target = (IMPORTED[f.id], f.id)
            base = "call_" + f.id
        elif isinstance(f, ast.Attribute) and isinstance(f.value, ast.Name) and f.value.id in MODULES and f.value.id not in env:
            if f.value.id in MODULE_ALIAS:
                target = (MODULE_ALIAS[f.value.id], f.attr)
            base = "call_%s_%s" % (f.value.id, f.attr)
        elif isinstance(f, ast.Attribute) and isinstance(f.value, ast.Name) and f.value.id == "self" and self.cls and (self.file, self.cls + "." + f.attr) in self.cx.funs:
            target = (self.file, self.cls + "." + f.attr)
            pos = [env["self"]] + pos
            base = None
        elif isinstance(f, ast.Attribute):
            obj = self.expr(f.value, env)
            name = "meth_%s_%d" % (f.attr, len(pos) + len(kws)) + "".join("__" + k for k, _ in kws)
            return self.app(name, [obj] + pos + [v for _, v in kws])
        else:
            fail(e, "call of a computed function")
        if target in self.cx.funs:          # a listed function: call the regenerated definition
            gname, params, defaults = self.cx.funs[target]
            if len(pos) > len(params):
                fail(e, "too many arguments for %s" % gname)
            bound = dict(zip(params, pos))
            for k, v in kws:
                if k not in params or k in bound:
                    fail(e, "bad keyword %s for %s" % (k, gname))
                bound[k] = v
            args = []
            for p in params:
                if p in bound:
                    args.append(bound[p])
                elif p in defaults:
                    args.append(self.app(const_name(self.cx, defaults[p], e), []))
                else:
                    fail(e, "missing argument %s for %s" % (p, gname))
            self.cx.deps.setdefault(self.gname, set()).add(gname)
            return "(%s s%s)" % (gname, "".join(" " + a for a in args))
        name = "%s_%d" % (base, len(pos) + len(kws)) + "".join("__" + k for k, _ in kws)
        return self.app(name, pos + [v for _, v in kws])

    # ---------------------------------------------------------------- statements
    def block(self, stmts, env):
        """stmts ending in return -> Gallina term"""
        if not stmts:
            fail(self.fn, "function may fall off its end")
        st, rest = stmts[0], stmts[1:]
        if isinstance(st, ast.Expr) and isinstance(st.value, ast.Constant) and isinstance(st.value.value, str):
            return self.block(rest, env)
        if isinstance(st, ast.Return):
            if st.value is None:
                fail(st, "bare return")
            return self.expr(st.value, env)
        if isinstance(st, ast.AnnAssign) and st.value is not None and isinstance(st.target, ast.Name):
            st = ast.Assign(targets=[st.target], value=st.value, lineno=st.lineno)
        if isinstance(st, ast.Assign):
            if len(st.targets) != 1 or not isinstance(st.targets[0], ast.Name):
                fail(st, "assignment target")
            name = st.targets[0].id
            # accumulator loop:  acc = [] ; for v in xs: ...; acc.append(e)
            if isinstance(st.value, ast.List) and not st.value.elts:
                if not rest or not isinstance(rest[0], ast.For):
                    fail(st, "empty list that is not a loop accumulator")
                loop = rest[0]
                if loop.orelse or not isinstance(loop.target, ast.Name):
                    fail(loop, "loop form")
                body, last = loop.body[:-1], loop.body[-1]
                ok = (isinstance(last, ast.Expr) and isinstance(last.value, ast.Call) and isinstance(last.value.func, ast.Attribute)
                      and isinstance(last.value.func.value, ast.Name) and last.value.func.value.id == name and last.value.func.attr == "append"
                      and len(last.value.args) == 1 and not last.value.keywords)
                if not ok:
                    fail(loop, "loop must end with %s.append(e)" % name)
                self.fresh += 1
                v = "%s_%d" % (ident(loop.target.id), self.fresh)
                env2 = dict(env); env2[loop.target.id] = v
                inner = self.block(body + [ast.Return(value=last.value.args[0])], env2)
                self.cx.sym("list_map", -1)
                val = "(list_map s (fun %s => %s) %s)" % (v, inner, self.expr(loop.iter, env))
                return self.bind(name, val, rest[1:], env)
            return self.bind(name, self.expr(st.value, env), rest, env)
        if isinstance(st, ast.Raise):
            exc = st.exc.func.id if isinstance(st.exc, ast.Call) and isinstance(st.exc.func, ast.Name) else (st.exc.id if isinstance(st.exc, ast.Name) else None)
            if exc is None:
                fail(st, "raise form")
            return self.app("raise_" + exc, [])
        if isinstance(st, ast.For):
            # fold:  for v in xs: t = e      (t already bound)
            if st.orelse or not isinstance(st.target, ast.Name) or len(st.body) != 1 or not isinstance(st.body[0], ast.Assign):
                fail(st, "loop form")
            b = st.body[0]
            if len(b.targets) != 1 or not isinstance(b.targets[0], ast.Name) or b.targets[0].id not in env:
                fail(st, "fold loop must re-assign one bound variable")
            t = b.targets[0].id
            self.fresh += 1
            tv, vv = "%s_%d" % (ident(t), self.fresh), "%s_%dv" % (ident(st.target.id), self.fresh)
            env2 = dict(env); env2[t] = tv; env2[st.target.id] = vv
            self.cx.sym("list_fold", -2)
            val = "(list_fold s (fun %s %s => %s) %s %s)" % (tv, vv, self.expr(b.value, env2), self.expr(st.iter, env), env[t])
            return self.bind(t, val, rest, env)
        if isinstance(st, ast.If) and st.orelse:
            # both branches must end the function (return / raise)
            if rest:
                fail(st, "if/else followed by code")
            return self.app("ite", [self.expr(st.test, env), self.block(st.body, env), self.block(st.orelse, env)])
        if isinstance(st, ast.If) and not st.orelse:
            cond = self.expr(st.test, env)
            if len(st.body) == 1 and isinstance(st.body[0], ast.Raise):
                r = st.body[0]
                exc = r.exc.func.id if isinstance(r.exc, ast.Call) and isinstance(r.exc.func, ast.Name) else (r.exc.id if isinstance(r.exc, ast.Name) else None)
                if exc is None:
                    fail(r, "raise form")
                return self.app("ite", [cond, self.app("raise_" + exc, []), self.block(rest, env)])
            if all(isinstance(b, ast.Assign) and len(b.targets) == 1 and isinstance(b.targets[0], ast.Name) and b.targets[0].id in env for b in st.body):
                env2 = dict(env)
                out = []
                for b in st.body:          # conditional re-assignment of existing variables
                    name = b.targets[0].id
                    self.fresh += 1
                    v = "%s_%d" % (ident(name), self.fresh)
                    out.append((v, self.app("ite", [cond, self.expr(b.value, env2), env2[name]])))
                    env2[name] = v
                term = self.block(rest, env2)
                for v, val in reversed(out):
                    term = "(let %s := %s in %s)" % (v, val, term)
                return term
            fail(st, "if form")
        fail(st, "statement outside the subset")

    def bind(self, name, val, rest, env):
        self.fresh += 1
        v = "%s_%d" % (ident(name), self.fresh)
        env2 = dict(env); env2[name] = v
        return "(let %s := %s in %s)" % (v, val, self.block(rest, env2))


def main():
    repo, out = sys.argv[1], sys.argv[2]
    cx = Ctx()
    trees, nodes = {}, []
    for file, qual in TARGETS:
        if file not in trees:
            trees[file] = ast.parse(open(os.path.join(repo, file)).read())
        fn = find(trees[file], qual)
        a = fn.args
        if a.vararg or a.kwarg or a.kwonlyargs or a.posonlyargs:
            fail(fn, "parameter form")
        params = [x.arg for x in a.args]
        defaults = {}
        for p, dflt in zip(params[len(params) - len(a.defaults):], a.defaults):
            if not isinstance(dflt, ast.Constant):
                fail(fn, "non-constant default")
            defaults[p] = dflt.value
        gname = "gen_" + ident(qual)
        cx.funs[(file, qual)] = (gname, params, defaults)
        nodes.append((file, qual, fn, gname, params))
    defs = {}
    for file, qual, fn, gname, params in nodes:
        tr = Tr(cx, file, fn, gname, qual.split(".")[0] if "." in qual else None)
        env = {p: "p_" + ident(p) for p in params}
        body = tr.block(fn.body, env)
        defs[gname] = "Definition %s {V : Type} (s : sym V)%s : V :=\n  %s." % (gname, "".join(" (p_%s : V)" % ident(p) for p in params), body)
    # dependency order
    order, seen = [], set()

    def visit(g, stack=()):
        if g in seen:
            return
        if g in stack:
            raise Unsupported("recursive call graph at " + g)
        for h in sorted(cx.deps.get(g, ())):
            visit(h, stack + (g,))
        seen.add(g); order.append(g)
    for g in sorted(defs):
        visit(g)
    lines = ["(* GENERATED by gen/c02_py2coq.py from the current quara source - do not edit *)", "Set Implicit Arguments.", "Record sym (V : Type) : Type := {"]
    fields = []
    for name in sorted(cx.syms):
        ar = cx.syms[name]
        ty = "(V -> V) -> V -> V" if ar == -1 else ("(V -> V -> V) -> V -> V -> V" if ar == -2 else " -> ".join(["V"] * (ar + 1)))
        fields.append("  %s : %s" % (name, ty))
    lines.append(";\n".join(fields) + " }.")
    for g in order:
        lines.append(defs[g])
    open(out, "w").write("\n".join(lines) + "\n")
    print("translated %d functions, %d primitive symbols" % (len(order), len(cx.syms)))


if __name__ == "__main__":
    try:
        main()
    except Unsupported as e:
        print("UNSUPPORTED: %s" % e)
        sys.exit(3)
