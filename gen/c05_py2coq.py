#!/usr/bin/env python3
"""Fail-closed translator for the Dykstra routines of quara (property C05): Python `ast` -> Gallina over the
combinators of coq/theories/Model/C05_PySem.v.   usage: c05_py2coq.py <repo> <out.v>

Translated on every run from the CURRENT source of quara/objects/qoperation.py, class QOperation:
  _calc_stopping_criterion_birgin_raydan_vectors, _calc_stopping_criterion_birgin_raydan2_vectors,
  _is_satisfied_stopping_criterion_birgin_raydan_vectors, _is_satisfied_stopping_criterion_birgin_raydan_qoperations,
  calc_proj_physical, calc_proj_physical_with_var.

The translation is a transcription: each statement becomes an environment transformer, each expression a value term;
the meaning of every operator on every shape of value is defined in Coq (C05_PySem.v), not here.  Accepted subset
(anything else raises Unsupported: the tie is reported broken, never silently skipped):
  closures    func_calc_proj_physical / func_calc_proj_physical_with_var:  <statements>; def inner(<params>): <statements>; return inner  -
              one call of the returned function is translated (outer statements, then the inner ones, in one frame; inner parameters are
              additional parameters of the generated definition); `local.method(args)` as a statement = oracle "<method>!" returning the updated object;
  statements  docstring; `a = b = <expr>`; `(a, b) = <expr>`; `name.attr = <expr>` (becomes an oracle call "setattr.attr");
              `if` / `else`; `if <cond>: ... return` followed by more statements (the rest becomes the else branch);
              `return <expr>` in tail position only; ONE `for x in range(<expr>):` per function whose body may end in
              `if <cond>: break` (no other break / continue / else); `name.append(<expr>)`; `print(<f-string of names>)`;
  names       the four names of the semantics are 1..4; every other name is numbered by first occurrence (methods in TRANSLATED order,
              parameters in signature order, then locals in the order of their first assignment); per method the aliases
              gen_<method>__L<i> name its i-th local: the proofs use those, so renaming a local changes nothing;
  dropped     `logger.debug(...)` statements and `if logger.isEnabledFor(logging.DEBUG):` blocks consisting only of them
              (logging is not modelled; stated in the manifest);
  expressions names, None / True / False / int / str constants, `self.attr` (read through the self_attr parameter),
              + - *, `** 2`, `is None`, `is not None`, < >= == (one comparator), and / or, list / tuple / dict (str keys)
              displays, np.sum(x), np.dot(a, b), calls of the translated methods (self.f(...), positional arguments only),
              every other call `self.m(args, kw=..)` / `<expr>.m(args, kw=..)` as `oracle "<m>|<kw names>" [receiver; args; kw values]`.
"""
import ast, sys, os

TRANSLATED = ["_calc_stopping_criterion_birgin_raydan_vectors", "_calc_stopping_criterion_birgin_raydan2_vectors",
              "_is_satisfied_stopping_criterion_birgin_raydan_vectors", "_is_satisfied_stopping_criterion_birgin_raydan_qoperations",
              "calc_proj_physical", "calc_proj_physical_with_var",
              "func_calc_proj_physical", "func_calc_proj_physical_with_var"]
# closures: the method body is  <statements>; def inner(<params>): <statements>; return inner .  What is translated is ONE call of the
# returned function: the outer statements followed by the inner ones in the same frame (the inner function reads the outer locals;
# nothing is re-bound in between), with the inner parameters as additional parameters of the generated definition.
CLOSURES = {"func_calc_proj_physical", "func_calc_proj_physical_with_var"}


NUMBER = {"$err": 1, "$printed": 2, "$break": 3, "$ret": 4}     # filled in main(): name -> positive, by first occurrence
SPECIAL = {"$err": "N_err", "$printed": "N_printed", "$break": "N_break", "$ret": "N_ret"}      # fixed in C05_PySem.v


def nm(x):
    """Coq name of a Python variable: the notation N_<x> (a positive number, see the table emitted at the top of the file)"""
    return SPECIAL.get(x, "N_" + x)


class Unsupported(Exception):
    pass


def fail(node, msg):
    raise Unsupported("%s (line %s): %s" % (type(node).__name__, getattr(node, "lineno", "?"), msg))


def coq_str(s):
    if all(32 <= ord(ch) <= 126 for ch in s):
        return '"%s"' % s.replace('"', '""')
    if any(ord(ch) > 255 for ch in s):
        raise Unsupported("non-latin character in string constant %r" % s)
    return "(str_of_codes [%s])" % "; ".join(str(ord(ch)) for ch in s)


def is_logger_debug(st):
    return (isinstance(st, ast.Expr) and isinstance(st.value, ast.Call) and isinstance(st.value.func, ast.Attribute)
            and isinstance(st.value.func.value, ast.Name) and st.value.func.value.id == "logger" and st.value.func.attr == "debug")


def is_logger_guard(st):
    t = st.test
    return (isinstance(t, ast.Call) and isinstance(t.func, ast.Attribute) and isinstance(t.func.value, ast.Name)
            and t.func.value.id == "logger" and t.func.attr == "isEnabledFor" and not st.orelse
            and all(is_logger_debug(s) for s in st.body))


def always_returns(stmts):
    if not stmts:
        return False
    last = stmts[-1]
    if isinstance(last, ast.Return):
        return True
    if isinstance(last, ast.If):
        return always_returns(last.body) and always_returns(last.orelse)
    return False


class Fn:
    def __init__(self, fdef, known):
        self.f = fdef
        self.known = known          # translated methods: name -> number of parameters without self
        self.params = [a.arg for a in fdef.args.args]
        self.inner = None
        if fdef.name in CLOSURES:
            b = [st for st in fdef.body if not (isinstance(st, ast.Expr) and isinstance(st.value, ast.Constant))]
            if not (len(b) >= 2 and isinstance(b[-2], ast.FunctionDef) and isinstance(b[-1], ast.Return)
                    and isinstance(b[-1].value, ast.Name) and b[-1].value.id == b[-2].name):
                fail(fdef, "closure method is not  <statements>; def inner(...); return inner")
            self.inner = b[-2]
            ia = self.inner.args
            if ia.vararg or ia.kwarg or ia.kwonlyargs or ia.posonlyargs or ia.defaults or self.inner.decorator_list:
                fail(self.inner, "unsupported inner signature")
            self.outer_body = b[:-2]
            self.params = self.params + [a.arg for a in ia.args]
        if not self.params or self.params[0] != "self":
            fail(fdef, "first parameter is not self")
        if fdef.args.vararg or fdef.args.kwarg or fdef.args.kwonlyargs or fdef.args.posonlyargs:
            fail(fdef, "unsupported parameter kinds")
        self.nfor = 0
        self.pre = []
        self.vars = set(self.params) | set(SPECIAL)
        stores = sorted((n for n in ast.walk(fdef) if isinstance(n, ast.Name) and isinstance(n.ctx, ast.Store)),
                        key=lambda n: (n.lineno, n.col_offset))
        self.locals = []            # local variables in the order of their first assignment (source position): alpha-robust identity
        for node in stores:
            if self.inner is not None and node.id == self.inner.name:
                continue
            self.vars.add(node.id)
            if node.id not in self.params and node.id not in self.locals:
                self.locals.append(node.id)
        for node in ast.walk(fdef):
            if isinstance(node, (ast.FunctionDef, ast.Lambda, ast.ListComp, ast.GeneratorExp, ast.DictComp, ast.SetComp, ast.While,
                                 ast.Try, ast.With, ast.Global, ast.Nonlocal, ast.Delete, ast.AugAssign, ast.NamedExpr, ast.Continue,
                                 ast.Yield, ast.YieldFrom, ast.Await, ast.Starred, ast.IfExp)) and node is not fdef and node is not self.inner:
                fail(node, "construct outside the subset")

    # ------------------------------------------------------------ expressions
    def expr(self, x):
        if isinstance(x, ast.Name):
            if not isinstance(x.ctx, ast.Load):
                fail(x, "name not in load context")
            return '(e %s)' % nm(x.id)
        if isinstance(x, ast.Constant):
            v = x.value
            if v is None:
                return "VNone"
            if v is True or v is False:
                return "(VBool %s)" % ("true" if v else "false")
            if type(v) is int:
                return "(VInt (%d)%%Z)" % v
            if type(v) is str:
                return "(VStr %s)" % coq_str(v)
            fail(x, "constant of type %s" % type(v).__name__)
        if isinstance(x, ast.Attribute):
            if isinstance(x.value, ast.Name) and x.value.id == "self" and isinstance(x.ctx, ast.Load):
                return '(self_attr "%s")' % x.attr
            fail(x, "attribute read on something other than self")
        if isinstance(x, ast.BinOp):
            if isinstance(x.op, ast.Pow):
                if isinstance(x.right, ast.Constant) and type(x.right.value) is int and x.right.value == 2:
                    return "(v_pow2 %s)" % self.expr(x.left)
                fail(x, "power with an exponent other than the literal 2")
            op = {ast.Add: "v_add", ast.Sub: "v_sub", ast.Mult: "v_mul"}.get(type(x.op))
            if op is None:
                fail(x, "binary operator %s" % type(x.op).__name__)
            return "(%s %s %s)" % (op, self.expr(x.left), self.expr(x.right))
        if isinstance(x, ast.Compare):
            if len(x.ops) != 1:
                fail(x, "chained comparison")
            o, r = x.ops[0], x.comparators[0]
            if isinstance(o, (ast.Is, ast.IsNot)):
                if not (isinstance(r, ast.Constant) and r.value is None):
                    fail(x, "`is` with something other than None")
                return "(%s %s)" % ("v_is_none" if isinstance(o, ast.Is) else "v_is_not_none", self.expr(x.left))
            op = {ast.Lt: "v_lt", ast.GtE: "v_ge", ast.Eq: "v_eq"}.get(type(o))
            if op is None:
                fail(x, "comparison operator %s" % type(o).__name__)
            return "(%s %s %s)" % (op, self.expr(x.left), self.expr(r))
        if isinstance(x, ast.BoolOp):
            op = "v_and" if isinstance(x.op, ast.And) else "v_or"
            vals = [self.expr(v) for v in x.values]
            out = vals[-1]
            for v in reversed(vals[:-1]):
                out = "(%s %s %s)" % (op, v, out)
            return out
        if isinstance(x, ast.List):
            return "(VList [%s])" % "; ".join(self.expr(v) for v in x.elts)
        if isinstance(x, ast.Tuple):
            return "(VTuple [%s])" % "; ".join(self.expr(v) for v in x.elts)
        if isinstance(x, ast.Dict):
            items = []
            for k, v in zip(x.keys, x.values):
                if not (isinstance(k, ast.Constant) and type(k.value) is str):
                    fail(x, "dict key that is not a str constant")
                items.append("(%s, %s)" % (coq_str(k.value), self.expr(v)))
            return "(VDict [%s])" % "; ".join(items)
        if isinstance(x, ast.Call):
            return self.call(x)
        fail(x, "expression outside the subset")

    def call(self, x):
        f = x.func
        if not isinstance(f, ast.Attribute):
            fail(x, "call of something that is not a method / module function")
        kws = sorted(x.keywords, key=lambda k: k.arg or "")
        if any(k.arg is None for k in kws):
            fail(x, "**kwargs")
        if isinstance(f.value, ast.Name) and f.value.id == "np":
            if f.attr == "sum" and len(x.args) == 1 and not kws:
                return "(v_npsum F n %s)" % self.expr(x.args[0])
            if f.attr == "dot" and len(x.args) == 2 and not kws:
                return "(v_npdot F n %s %s)" % (self.expr(x.args[0]), self.expr(x.args[1]))
            fail(x, "numpy function np.%s with these arguments" % f.attr)
        args = [self.expr(a) for a in x.args]
        if isinstance(f.value, ast.Name) and f.value.id == "self" and f.attr in self.known:
            if kws or len(args) != self.known[f.attr]:
                fail(x, "call of translated method %s with keywords / wrong arity" % f.attr)
            return "(call_ret (gen_%s %s))" % (f.attr, " ".join(['(e N_self)'] + args))
        if isinstance(f.value, ast.Name) and f.value.id in ("logger", "logging"):
            fail(x, "logging call inside an expression")
        recv = self.expr(f.value) if not (isinstance(f.value, ast.Name) and f.value.id == "self") else '(e N_self)'
        name = ("" if (isinstance(f.value, ast.Name) and f.value.id == "self") else ".") + f.attr
        if kws:
            name += "|" + ",".join(k.arg for k in kws)
        return '(oracle "%s" [%s])' % (name, "; ".join([recv] + args + [self.expr(k.value) for k in kws]))

    # ------------------------------------------------------------ statements
    def fe(self, x):
        """an expression as a function of the current environment"""
        return "(fun e => %s)" % self.expr(x)

    def block(self, stmts, ind, in_for=False, tail=False):
        """term of type env -> env: `seq [statement; ...]`"""
        pad = "  " * ind
        out = []
        i = 0
        while i < len(stmts):
            st = stmts[i]
            last = i == len(stmts) - 1
            if isinstance(st, ast.Expr) and isinstance(st.value, ast.Constant) and type(st.value.value) is str:
                i += 1; continue                                   # docstring
            if is_logger_debug(st) or (isinstance(st, ast.If) and is_logger_guard(st)):
                i += 1; continue                                   # logging: dropped (see module docstring)
            if isinstance(st, ast.Return):
                if not (tail and last) or in_for:
                    fail(st, "return that is not in tail position")
                if st.value is None:
                    fail(st, "bare return")
                out.append('%ss_assign N_ret %s' % (pad, self.fe(st.value)))
                i += 1; continue
            if isinstance(st, ast.If):
                if in_for and last and len(st.body) == 1 and isinstance(st.body[0], ast.Break) and not st.orelse:
                    out.append('%ss_ifs %s (seq [s_assign N_break (fun e => VBool true)]) (seq [])' % (pad, self.fe(st.test)))
                    i += 1; continue
                if always_returns(st.body) and not st.orelse and not last:
                    # early return: the remaining statements are the else branch
                    if not tail or in_for:
                        fail(st, "early return outside tail position")
                    t = self.block(st.body, ind + 1, in_for, True)
                    r = self.block(stmts[i + 1:], ind + 1, in_for, True)
                    out.append("%ss_ifs %s\n%s\n%s" % (pad, self.fe(st.test), t, r))
                    i = len(stmts); continue
                t = self.block(st.body, ind + 1, in_for, tail and last)
                r = self.block(st.orelse, ind + 1, in_for, tail and last)
                out.append("%ss_ifs %s\n%s\n%s" % (pad, self.fe(st.test), t, r))
                i += 1; continue
            if isinstance(st, ast.For):
                self.nfor += 1
                if self.nfor > 1 or in_for:
                    fail(st, "more than one / nested for loop")
                if st.orelse or not isinstance(st.target, ast.Name):
                    fail(st, "for-else / non-name loop target")
                it = st.iter
                if not (isinstance(it, ast.Call) and isinstance(it.func, ast.Name) and it.func.id == "range" and len(it.args) == 1 and not it.keywords):
                    fail(st, "loop over something other than range(<expr>)")
                for node in ast.walk(st):
                    if isinstance(node, ast.Return):
                        fail(node, "return inside a loop")
                nbreak = sum(isinstance(node, ast.Break) for node in ast.walk(st))
                lastb = st.body[-1] if st.body else None
                ok_break = (nbreak == 0) or (nbreak == 1 and isinstance(lastb, ast.If) and len(lastb.body) == 1
                                             and isinstance(lastb.body[0], ast.Break) and not lastb.orelse)
                if not ok_break:
                    fail(st, "break that is not the final `if <cond>: break` of the loop body")
                b = self.block(st.body, 1, True, False)
                # the loop body is emitted as a definition of its own so that proofs can name it
                self.pre.append("Definition gen_%s__loop_body : env F -> env F :=\n%s." % (self.f.name, b))
                out.append('%ss_fors fn_vars %s %s gen_%s__loop_body' % (pad, nm(st.target.id), self.fe(it.args[0]), self.f.name))
                i += 1; continue
            if isinstance(st, ast.Assign):
                tg = st.targets
                if all(isinstance(t, ast.Name) for t in tg):
                    if len(tg) == 1:
                        out.append('%ss_assign %s %s' % (pad, nm(tg[0].id), self.fe(st.value)))
                    else:                                           # the same value to every target, left to right
                        out.append("%ss_bind %s (fun v => seq [%s])" % (pad, self.fe(st.value), "; ".join('s_assign %s (fun e => v)' % nm(t.id) for t in tg)))
                    i += 1; continue
                if len(tg) == 1 and isinstance(tg[0], ast.Tuple) and all(isinstance(t, ast.Name) for t in tg[0].elts):
                    m = len(tg[0].elts)
                    out.append("%ss_bind %s (fun v => seq [%s])" % (pad, self.fe(st.value), "; ".join(
                        's_assign %s (fun e => v_unpack %d %d v)' % (nm(t.id), m, j) for j, t in enumerate(tg[0].elts))))
                    i += 1; continue
                if len(tg) == 1 and isinstance(tg[0], ast.Attribute) and isinstance(tg[0].value, ast.Name) and tg[0].value.id != "self":
                    nm_ = tg[0].value.id
                    self.vars.add(nm_)
                    out.append('%ss_assign %s (fun e => oracle "setattr.%s" [e %s; %s])' % (pad, nm(nm_), tg[0].attr, nm(nm_), self.expr(st.value)))
                    i += 1; continue
                fail(st, "assignment target outside the subset")
            if isinstance(st, ast.Expr) and isinstance(st.value, ast.Call):
                c = st.value
                if isinstance(c.func, ast.Name) and c.func.id == "print":
                    names = []
                    if c.keywords or len(c.args) != 1:
                        fail(st, "print with keywords / several arguments")
                    a = c.args[0]
                    parts = a.values if isinstance(a, ast.JoinedStr) else [a]
                    for p in parts:
                        if isinstance(p, ast.Constant) and type(p.value) is str:
                            continue
                        if isinstance(p, ast.FormattedValue) and isinstance(p.value, ast.Name) and p.format_spec is None and p.conversion == -1:
                            names.append(p.value.id); continue
                        fail(st, "print argument that is not an f-string of plain names")
                    out.append('%ss_prints (fun e => [%s])' % (pad, "; ".join('e %s' % nm(x_) for x_ in names)))
                    i += 1; continue
                if (isinstance(c.func, ast.Attribute) and c.func.attr == "append" and isinstance(c.func.value, ast.Name)
                        and len(c.args) == 1 and not c.keywords):
                    nm_ = c.func.value.id
                    out.append('%ss_assign %s (fun e => v_append (e %s) %s)' % (pad, nm(nm_), nm(nm_), self.expr(c.args[0])))
                    i += 1; continue
                if (isinstance(c.func, ast.Attribute) and isinstance(c.func.value, ast.Name) and c.func.value.id not in ("self", "np", "logger", "logging")):
                    # a method called for its effect on a LOCAL object: the oracle "<m>!" returns the updated object
                    nm_ = c.func.value.id
                    kws = sorted(c.keywords, key=lambda k: k.arg or "")
                    if any(k.arg is None for k in kws):
                        fail(st, "**kwargs")
                    name = "." + c.func.attr + "!" + ("|" + ",".join(k.arg for k in kws) if kws else "")
                    args = [self.expr(a) for a in c.args] + [self.expr(k.value) for k in kws]
                    out.append('%ss_assign %s (fun e => oracle "%s" [%s])' % (pad, nm(nm_), name, "; ".join(["e " + nm(nm_)] + args)))
                    i += 1; continue
                fail(st, "expression statement outside the subset")
            fail(st, "statement outside the subset")
        if not out:
            return "%s(seq [])" % ("  " * (ind - 1))
        return "%s(seq [\n%s])" % ("  " * (ind - 1), ";\n".join(out))

    def emit(self):
        if self.inner is not None:
            b1 = self.block(self.outer_body, 2, False, False)
            b2 = self.block(self.inner.body, 2, False, True)
            body = "(seq [\n%s;\n%s])" % (b1, b2)
        else:
            body = self.block(self.f.body, 1, False, True)
        name = self.f.name
        ps = self.params
        lines = []
        vars_sorted = sorted(self.vars, key=lambda v: NUMBER.get(v, 0))
        lines.append("Definition gen_%s__vars : list name := [%s]." % (name, "; ".join(nm(v) for v in vars_sorted)))
        # defaults
        d = self.f.args.defaults
        defs = []
        for a, dv in zip(self.f.args.args[len(self.f.args.args) - len(d):], d):
            defs.append('("%s", %s)' % (a.arg, self.expr(dv)))
        lines.append("Definition gen_%s__defaults : list (string * val F) := [%s]." % (name, "; ".join(defs)))
        init = "(@env0 F)"
        for p in ps:
            init = '(upd %s %s %s)' % (nm(p), "self" if p == "self" else "a_" + p, init)
        lines.extend(self.pre)
        lines.append("Definition gen_%s__body (fn_vars : list name) : env F -> env F :=\n%s." % (name, body))
        lines.append("Definition gen_%s %s : env F :=" % (name, " ".join("(%s : val F)" % ("self" if p == "self" else "a_" + p) for p in ps)))
        lines.append("  gen_%s__body gen_%s__vars %s." % (name, name, init))
        return "\n".join(lines)


def main():
    repo, out = sys.argv[1], sys.argv[2]
    path = os.path.join(repo, "quara", "objects", "qoperation.py")
    tree = ast.parse(open(path).read())
    cls = [n for n in tree.body if isinstance(n, ast.ClassDef) and n.name == "QOperation"]
    if len(cls) != 1:
        raise Unsupported("class QOperation not found exactly once")
    fdefs = {}
    for n in cls[0].body:
        if isinstance(n, ast.FunctionDef) and n.name in TRANSLATED:
            if n.name in fdefs:
                raise Unsupported("method %s defined twice" % n.name)
            if n.decorator_list:
                raise Unsupported("method %s is decorated" % n.name)
            fdefs[n.name] = n
    missing = [f for f in TRANSLATED if f not in fdefs]
    if missing:
        raise Unsupported("methods not found: %s" % missing)
    # numbering: the four fixed names, then every name in the order of its first occurrence (functions in TRANSLATED order,
    # parameters in signature order, then locals in the order of their first assignment).  Renaming a local therefore
    # changes no number; the per-function aliases gen_<f>__L<i> (i-th local of f) are what the proofs refer to.
    known = {}
    fns = []
    for name in TRANSLATED:
        fn = Fn(fdefs[name], dict(known))
        fns.append(fn)
        known[name] = len(fn.params) - 1
        for v in fn.params + fn.locals:
            if not v.isidentifier():
                raise Unsupported("variable name %r" % v)
            if v not in NUMBER:
                NUMBER[v] = len(NUMBER) + 1
    table = ["(* variable names -> numbers (1..4 are the fixed names of the semantics) *)"]
    for v, k in sorted(NUMBER.items(), key=lambda kv: kv[1]):
        if v not in SPECIAL:
            table.append("Notation N_%s := %d%%positive (only parsing)." % (v, k))
    table.append("(* positional aliases: the i-th local variable (order of first assignment) of each translated method *)")
    for fn in fns:
        for i, v in enumerate(fn.locals):
            table.append("Notation gen_%s__L%d := %d%%positive (only parsing).   (* %s *)" % (fn.f.name, i + 1, NUMBER[v], v))
    chunks = []
    for fn in fns:
        chunks.append("(* %s : quara/objects/qoperation.py line %d *)\n%s" % (fn.f.name, fn.f.lineno, fn.emit()))
    hdr = ["(* GENERATED by gen/c05_py2coq.py from %s — do not edit *)" % path,
           "From Coq Require Import List Arith Bool String ZArith.",
           "From QV.Core Require Import OF Sums Mat.",
           "From QV.Model Require Import C05_Dykstra C05_PySem.",
           "Import ListNotations.", "Local Open Scope string_scope.", ""] + table + ["",
           "Section Gen.",
           "Context (F : OF) (n : nat) (oracle : string -> list (val F) -> val F) (self_attr : string -> val F).", ""]
    open(out, "w").write("\n".join(hdr) + "\n" + "\n\n".join(chunks) + "\n\nEnd Gen.\n")


if __name__ == "__main__":
    try:
        main()
    except Unsupported as ex:
        sys.stderr.write("c05_py2coq: UNSUPPORTED: %s\n" % ex)
        sys.exit(3)
