#!/usr/bin/env python3
"""Fail-closed translator from a small subset of Python (integer / boolean / list logic) to Gallina.

Used to REGENERATE, on every run, the model of pure index-arithmetic functions of quara from /repo's
current source; Coq then re-proves that the regenerated definition equals the hand-written model the
property theorems are stated about (coq/gen/*_Equiv.v).  Anything outside the subset raises
Unsupported — the tie is then reported broken, never silently skipped.

Subset: positional parameters; straight-line assignment (names, tuple unpacking incl. divmod);
augmented assignment; `if`/`else` statements and conditional expressions; `for` over
reversed()/enumerate()/zip()/list() of list-typed values with loop-carried variables (-> fold_left
over a state tuple; an early `return` inside the loop -> option component); `return`; `raise`
(-> None of an option result); expressions + - * // % ** (const 2), comparisons, and/or/not,
len(), tuple()/list() (identity on lists), list literals, `.append`, integer constants, None.
Signature table (gen/signatures.json): parameter types, parameters to drop, and *abstractions*:
source expressions that are replaced by a fresh model parameter (e.g. `c_sys.dim` -> dim : Z).
Types: Z, bool, F (a field, section variable), list T, prod, option.
"""
import ast, json, sys, os


class Unsupported(Exception):
    pass


def fail(node, msg):
    raise Unsupported("%s (line %s): %s" % (type(node).__name__, getattr(node, "lineno", "?"), msg))


class Fn:
    def __init__(self, fdef, sig):
        self.f = fdef
        self.sig = sig
        self.abstr = {k: tuple(v) for k, v in sig.get("abstractions", {}).items()}  # src -> (name, type)
        self.types = {}
        self.has_raise = any(isinstance(n, ast.Raise) for n in ast.walk(fdef))
        rets = [n for n in ast.walk(fdef) if isinstance(n, ast.Return)]
        self.ret_none = any(isinstance(r.value, ast.Constant) and r.value.value is None for r in rets)
        if self.ret_none and self.has_raise:
            raise Unsupported("function both raises and returns None")
        # Python identifiers that would capture Coq names used by the generated text
        clash = {"length", "rev", "map", "seq", "combine", "fold_left", "fst", "snd", "negb", "nil", "cons", "app", "Some", "None", "F", "kleb", "cadd", "csub", "cmul", "c0", "c1"}
        for n in ast.walk(fdef):
            if isinstance(n, ast.Name) and n.id in clash:
                n.id = n.id + "_py"
            if isinstance(n, ast.arg) and n.arg in clash:
                n.arg = n.arg + "_py"
        self.field = sig.get("field", False)

    # ------------------------------------------------------------ expressions -> (coq, type)
    def expr(self, e):
        src = ast.unparse(e)
        if src in self.abstr:
            n, t = self.abstr[src]
            return n, t
        if isinstance(e, ast.Constant):
            if e.value is None:
                return "None", "option"
            if isinstance(e.value, bool):
                return ("true" if e.value else "false"), "bool"
            if isinstance(e.value, int):
                return "(%d)%%Z" % e.value, "Z"
            if isinstance(e.value, float) and self.field and e.value == 0.0:
                return "(c0 F)", "F"
            fail(e, "constant %r" % (e.value,))
        if isinstance(e, ast.Name):
            if e.id not in self.types:
                fail(e, "unknown variable %s" % e.id)
            return e.id, self.types[e.id]
        if isinstance(e, ast.BinOp):
            a, ta = self.expr(e.left)
            b, tb = self.expr(e.right)
            if ta == "F" or tb == "F":
                if ta != tb:
                    fail(e, "mixed field/int arithmetic")
                ops = {ast.Add: "cadd F", ast.Sub: "csub F", ast.Mult: "cmul F"}
                if type(e.op) not in ops:
                    fail(e, "field operator")
                return "(%s %s %s)" % (ops[type(e.op)], a, b), "F"
            if ta != "Z" or tb != "Z":
                fail(e, "arithmetic on %s, %s" % (ta, tb))
            if isinstance(e.op, ast.Pow):
                if not (isinstance(e.right, ast.Constant) and e.right.value == 2):
                    fail(e, "only ** 2 is supported")
                return "(%s * %s)%%Z" % (a, a), "Z"
            ops = {ast.Add: "+", ast.Sub: "-", ast.Mult: "*", ast.FloorDiv: "/", ast.Mod: "mod"}
            if type(e.op) not in ops:
                fail(e, "operator")
            return "(%s %s %s)%%Z" % (a, ops[type(e.op)], b), "Z"
        if isinstance(e, ast.UnaryOp):
            a, ta = self.expr(e.operand)
            if isinstance(e.op, ast.Not):
                if ta != "bool":
                    fail(e, "not on %s" % ta)
                return "(negb %s)" % a, "bool"
            if isinstance(e.op, ast.USub) and ta == "Z":
                return "(- %s)%%Z" % a, "Z"
            fail(e, "unary operator")
        if isinstance(e, ast.BoolOp):
            parts = [self.expr(v) for v in e.values]
            if any(t != "bool" for _, t in parts):
                fail(e, "boolean operator on non-bool")
            op = "&&" if isinstance(e.op, ast.And) else "||"
            return "(" + (" %s " % op).join(p for p, _ in parts) + ")%bool", "bool"
        if isinstance(e, ast.Compare):
            if len(e.ops) != 1:
                fail(e, "chained comparison")
            op = e.ops[0]
            # `x is None` / `x is not None` on option-typed variables
            if isinstance(op, (ast.Is, ast.IsNot)):
                a, ta = self.expr(e.left)
                if not (isinstance(e.comparators[0], ast.Constant) and e.comparators[0].value is None and ta.startswith("option")):
                    fail(e, "is-comparison")
                t = "(match %s with None => true | Some _ => false end)" % a
                return (t if isinstance(op, ast.Is) else "(negb %s)" % t), "bool"
            a, ta = self.expr(e.left)
            b, tb = self.expr(e.comparators[0])
            if ta.startswith("option") and tb == "Z":
                # Python compares the payload; the translator only accepts this under a guard that
                # excludes None on the same `and` chain; payload extracted with default 0
                a = "(match %s with Some v_ => v_ | None => 0%%Z end)" % a
                ta = "Z"
            if ta == "F" and tb == "F":
                m = {ast.Lt: "(negb (kleb F %s %s))" % (b, a), ast.LtE: "(kleb F %s %s)" % (a, b),
                     ast.Gt: "(negb (kleb F %s %s))" % (a, b), ast.GtE: "(kleb F %s %s)" % (b, a)}
                if type(op) not in m:
                    fail(e, "field comparison")
                return m[type(op)], "bool"
            if ta != "Z" or tb != "Z":
                fail(e, "comparison of %s, %s" % (ta, tb))
            m = {ast.Eq: "(%s =? %s)%%Z", ast.NotEq: "(negb (%s =? %s)%%Z)", ast.Lt: "(%s <? %s)%%Z",
                 ast.LtE: "(%s <=? %s)%%Z", ast.Gt: "(%s >? %s)%%Z", ast.GtE: "(%s >=? %s)%%Z"}
            if type(op) not in m:
                fail(e, "comparison operator")
            return m[type(op)] % (a, b), "bool"
        if isinstance(e, ast.IfExp):
            c, tc = self.expr(e.test)
            a, ta = self.expr(e.body)
            b, tb = self.expr(e.orelse)
            if tc != "bool" or ta != tb:
                fail(e, "conditional expression types %s ? %s : %s" % (tc, ta, tb))
            return "(if %s then %s else %s)" % (c, a, b), ta
        if isinstance(e, ast.Tuple):
            parts = [self.expr(v) for v in e.elts]
            return "(" + ", ".join(p for p, _ in parts) + ")", "prod:" + ",".join(t for _, t in parts)
        if isinstance(e, ast.List):
            if e.elts:
                fail(e, "non-empty list literal")
            return "[]", "list:?"
        if isinstance(e, ast.Call) and isinstance(e.func, ast.Name):
            fn = e.func.id
            if fn == "len" and len(e.args) == 1:
                a, ta = self.expr(e.args[0])
                if not ta.startswith("list"):
                    fail(e, "len of %s" % ta)
                return "(Z.of_nat (length %s))" % a, "Z"
            if fn in ("tuple", "list") and len(e.args) == 1:
                return self.expr(e.args[0])
            if fn == "reversed" and len(e.args) == 1:
                a, ta = self.expr(e.args[0])
                if not ta.startswith("list"):
                    fail(e, "reversed of %s" % ta)
                return "(rev %s)" % a, ta
            if fn == "zip" and len(e.args) == 2:
                a, ta = self.expr(e.args[0]); b, tb = self.expr(e.args[1])
                if not (ta.startswith("list:") and tb.startswith("list:")):
                    fail(e, "zip of %s, %s" % (ta, tb))
                return "(combine %s %s)" % (a, b), "list:prod:%s,%s" % (ta[5:], tb[5:])
            if fn == "enumerate" and len(e.args) == 1:
                a, ta = self.expr(e.args[0])
                if not ta.startswith("list:"):
                    fail(e, "enumerate of %s" % ta)
                return "(combine (map Z.of_nat (seq 0 (length %s))) %s)" % (a, a), "list:prod:Z,%s" % ta[5:]
            if fn == "divmod" and len(e.args) == 2:
                a, ta = self.expr(e.args[0]); b, tb = self.expr(e.args[1])
                if ta != "Z" or tb != "Z":
                    fail(e, "divmod types")
                return "((%s / %s)%%Z, (%s mod %s)%%Z)" % (a, b, a, b), "prod:Z,Z"
        fail(e, "expression %s" % src)

    # ------------------------------------------------------------ statements
    def assigned(self, stmts):
        out = []
        for s in stmts:
            for n in ast.walk(s):
                if isinstance(n, ast.Assign):
                    for t in n.targets:
                        for m in ast.walk(t):
                            if isinstance(m, ast.Name) and m.id not in out:
                                out.append(m.id)
                elif isinstance(n, ast.AugAssign) and isinstance(n.target, ast.Name):
                    if n.target.id not in out:
                        out.append(n.target.id)
                elif isinstance(n, ast.Expr) and isinstance(n.value, ast.Call) and isinstance(n.value.func, ast.Attribute) \
                        and n.value.func.attr == "append" and isinstance(n.value.func.value, ast.Name):
                    if n.value.func.value.id not in out:
                        out.append(n.value.func.value.id)
        return out

    def bind(self, name, typ):
        old = self.types.get(name)
        if old is not None and old != typ and not (old == "list:?" and typ.startswith("list:")) and not (old == "option" and typ.startswith("option")):
            if old.startswith("option:") and typ == old[7:]:
                return "Some"      # assigning a payload to an option-typed variable
            if old == "option" and not typ.startswith("option"):
                self.types[name] = "option:" + typ
                return "Some"
            fail(self.f, "variable %s changes type %s -> %s" % (name, old, typ))
        self.types[name] = typ
        return None

    def ret(self, val):
        if self.ret_none:
            return val if val == "None" else "(Some %s)" % val
        return "(Some %s)" % val if self.has_raise else val

    def block(self, stmts, k):
        """translate statements followed by continuation k() (a thunk producing Coq text for 'what comes after').
        returns Coq text of the whole."""
        if not stmts:
            return k()
        s, rest = stmts[0], stmts[1:]
        cont = lambda: self.block(rest, k)
        if isinstance(s, ast.Expr) and isinstance(s.value, ast.Constant) and isinstance(s.value.value, str):
            return cont()           # docstring
        if isinstance(s, ast.Return):
            if s.value is None:
                fail(s, "bare return")
            v, t = self.expr(s.value)
            self.ret_type = t
            return self.ret(v)
        if isinstance(s, ast.Raise):
            return "None"
        if isinstance(s, ast.Assign):
            if len(s.targets) != 1:
                fail(s, "multiple targets")
            v, t = self.expr(s.value)
            tg = s.targets[0]
            if isinstance(tg, ast.Name):
                w = self.bind(tg.id, t)
                if w:
                    v = "(%s %s)" % (w, v)
                return "let %s := %s in\n  %s" % (tg.id, v, cont())
            if isinstance(tg, ast.Tuple) and all(isinstance(x, ast.Name) for x in tg.elts) and t.startswith("prod:"):
                ts = split_types(t[5:])
                if len(ts) != len(tg.elts):
                    fail(s, "tuple arity")
                for x, tt in zip(tg.elts, ts):
                    self.bind(x.id, tt)
                return "let '(%s) := %s in\n  %s" % (", ".join(x.id for x in tg.elts), v, cont())
            fail(s, "assignment target")
        if isinstance(s, ast.AugAssign) and isinstance(s.target, ast.Name):
            fake = ast.Assign(targets=[ast.Name(id=s.target.id, ctx=ast.Store())],
                              value=ast.BinOp(left=ast.Name(id=s.target.id, ctx=ast.Load()), op=s.op, right=s.value))
            ast.copy_location(fake, s); ast.fix_missing_locations(fake)
            return self.block([fake] + rest, k)
        if isinstance(s, ast.Expr) and isinstance(s.value, ast.Call) and isinstance(s.value.func, ast.Attribute) \
                and s.value.func.attr == "append" and isinstance(s.value.func.value, ast.Name) and len(s.value.args) == 1:
            lst = s.value.func.value.id
            v, t = self.expr(s.value.args[0])
            lt = self.types.get(lst, "")
            if lt == "list:?":
                self.types[lst] = "list:" + t
            elif lt != "list:" + t:
                fail(s, "append of %s to %s" % (t, lt))
            return "let %s := (%s ++ [%s]) in\n  %s" % (lst, lst, v, cont())
        if isinstance(s, ast.If):
            c, tc = self.expr(s.test)
            if tc != "bool":
                fail(s, "if condition of type %s" % tc)
            body_ends = ends(s.body)
            else_ends = ends(s.orelse) if s.orelse else False
            if body_ends and (else_ends or not s.orelse):
                # if c: <return/raise> [else: <return/raise>] ; rest
                a = self.block(s.body, lambda: fail(s, "fallthrough"))
                if s.orelse:
                    saved = dict(self.types)
                    b = self.block(s.orelse, lambda: fail(s, "fallthrough"))
                    self.types = saved
                else:
                    b = cont()
                return "if %s then %s\n  else %s" % (c, a, b)
            if not body_ends and not else_ends:
                # pure state update on both sides
                vs = [v for v in self.assigned(s.body + s.orelse) if v in self.types]
                new = [v for v in self.assigned(s.body + s.orelse) if v not in self.types]
                if new:
                    fail(s, "variables first assigned inside an if: %s" % new)
                tup = "(" + ", ".join(vs) + ")" if len(vs) != 1 else vs[0]
                saved = dict(self.types)
                a = self.block(s.body, lambda: tup)
                t_after = dict(self.types)
                self.types = dict(saved)
                b = self.block(s.orelse, lambda: tup) if s.orelse else tup
                for v in vs:
                    if self.types.get(v) != t_after.get(v):
                        # unify option refinement
                        if str(t_after.get(v, "")).startswith("option:") and self.types.get(v) == "option":
                            self.types[v] = t_after[v]
                        elif str(self.types.get(v, "")).startswith("option:") and t_after.get(v) == "option":
                            pass
                        else:
                            fail(s, "branch types differ for %s" % v)
                pat = "'(%s)" % ", ".join(vs) if len(vs) != 1 else vs[0]
                return "let %s := (if %s then %s else %s) in\n  %s" % (pat, c, a, b, cont())
            fail(s, "if with a return on one side and state update on the other")
        if isinstance(s, ast.For):
            if s.orelse:
                fail(s, "for-else")
            it, tit = self.expr(s.iter)
            if not tit.startswith("list:"):
                fail(s, "iteration over %s" % tit)
            elt = tit[5:]
            saved_outer = dict(self.types)
            # loop variable pattern
            if isinstance(s.target, ast.Name):
                pat = s.target.id
                self.types[s.target.id] = elt
            elif isinstance(s.target, ast.Tuple) and all(isinstance(x, ast.Name) for x in s.target.elts) and elt.startswith("prod:"):
                ts = split_types(elt[5:])
                if len(ts) != len(s.target.elts):
                    fail(s, "loop tuple arity")
                for x, tt in zip(s.target.elts, ts):
                    self.types[x.id] = tt
                pat = "'(%s)" % ", ".join(x.id for x in s.target.elts)
            else:
                fail(s, "loop target")
            carried = [v for v in self.assigned(s.body) if v in saved_outer]
            has_ret = any(isinstance(n, ast.Return) for b in s.body for n in ast.walk(b))
            if any(isinstance(n, ast.Raise) for b in s.body for n in ast.walk(b)):
                fail(s, "raise inside a loop")
            state_names = carried + (["ret_"] if has_ret else [])
            if not state_names:
                fail(s, "loop without carried state")
            tup = "(" + ", ".join(state_names) + ")" if len(state_names) != 1 else state_names[0]
            spat = "'(%s)" % ", ".join(state_names) if len(state_names) != 1 else state_names[0]
            # two passes so that list:? / option types settle
            for _ in range(2):
                body_types = dict(self.types)
                if has_ret:
                    self.in_loop_ret = True
                body = self.loop_body(s.body, tup, carried)
                self.in_loop_ret = False
                for v in carried:
                    saved_outer[v] = self.types[v]
                self.types = dict(body_types)
                for v in carried:
                    self.types[v] = saved_outer[v]
            if has_ret:
                body = "match ret_ with Some _ => %s | None =>\n      %s end" % (tup, body)
            init = "(" + ", ".join(carried + (["None"] if has_ret else [])) + ")" if len(state_names) != 1 else (carried[0] if carried else "None")
            # restore scope: loop-local names disappear
            locals_ = [n for n in self.types if n not in saved_outer]
            for n in locals_:
                del self.types[n]
            for v in carried:
                self.types[v] = saved_outer[v]
            after = cont()
            if has_ret:
                after = "match ret_ with Some r_ => %s | None =>\n  %s end" % (self.ret("r_"), after)
            return "let %s := fold_left (fun %s %s =>\n      %s) %s %s in\n  %s" % (
                spat, spat if spat.startswith("'") else state_names[0], pat if pat.startswith("'") else pat, body, it, init, after)
        fail(s, "statement")

    def loop_body(self, stmts, tup, carried):
        """body of a loop iteration; `return e` sets ret_ := Some e and keeps the rest of the state"""
        def k():
            return tup
        return self.block_loop(stmts, k, carried)

    def block_loop(self, stmts, k, carried):
        if not stmts:
            return k()
        s, rest = stmts[0], stmts[1:]
        if isinstance(s, ast.Return):
            v, t = self.expr(s.value)
            self.ret_type = t
            names = carried + ["ret_"]
            return "(" + ", ".join(carried + ["Some %s" % v]) + ")"
        if isinstance(s, ast.If) and (any(isinstance(n, ast.Return) for b in s.body + s.orelse for n in ast.walk(b))):
            c, tc = self.expr(s.test)
            if tc != "bool":
                fail(s, "if condition")
            saved = dict(self.types)
            a = self.block_loop(s.body + (rest if not ends(s.body) else []), k, carried)
            t_a = dict(self.types)
            self.types = dict(saved)
            b = self.block_loop((s.orelse or []) + (rest if not ends(s.orelse or [None]) or not s.orelse else []), k, carried)
            for v in carried:
                ta, tb = t_a.get(v), self.types.get(v)
                if ta != tb:
                    if str(ta).startswith("option:") and tb == "option":
                        self.types[v] = ta
                    elif str(tb).startswith("option:") and ta == "option":
                        pass
                    else:
                        fail(s, "branch types differ for %s: %s / %s" % (v, ta, tb))
            return "(if %s then %s else %s)" % (c, a, b)
        # ordinary statement: reuse block() with continuation = remaining loop statements
        return self.block([s], lambda: self.block_loop(rest, k, carried))

    def translate(self):
        f = self.f
        params = []
        drop = set(self.sig.get("drop", []))
        ptypes = self.sig["params"]
        for a in f.args.args:
            if a.arg in drop:
                continue
            if a.arg not in ptypes:
                fail(f, "no type for parameter %s in the signature table" % a.arg)
            self.types[a.arg] = ptypes[a.arg]
            params.append((a.arg, ptypes[a.arg]))
        extra = []
        for src, (n, t) in self.abstr.items():
            extra.append((n, t))
        self.ret_type = None
        self.in_loop_ret = False
        body = self.block(f.body, lambda: fail(f, "function falls off its end"))
        allp = extra + params
        hdr = "Definition %s %s :=\n  %s." % (self.sig.get("coq_name", f.name), " ".join("(%s : %s)" % (n, coq_type(t)) for n, t in allp), body)
        return hdr


def ends(stmts):
    if not stmts or stmts == [None]:
        return False
    last = stmts[-1]
    if isinstance(last, (ast.Return, ast.Raise)):
        return True
    if isinstance(last, ast.If) and last.orelse:
        return ends(last.body) and ends(last.orelse)
    return False


def split_types(s):
    # top-level comma split (no nested prod inside prod supported beyond one level of list:)
    return s.split(",")


def coq_type(t):
    if t == "Z":
        return "Z"
    if t == "bool":
        return "bool"
    if t == "F":
        return "F"
    if t.startswith("list:"):
        return "list (%s)" % coq_type(t[5:])
    if t.startswith("prod:"):
        return "(" + " * ".join(coq_type(x) for x in split_types(t[5:])) + ")"
    if t.startswith("option:"):
        return "option (%s)" % coq_type(t[7:])
    raise Unsupported("type " + t)


def translate_file(repo, table, out_module_header):
    out = [out_module_header]
    for entry in table:
        path = os.path.join(repo, entry["file"])
        tree = ast.parse(open(path).read())
        fdef = None
        for n in ast.walk(tree):
            if isinstance(n, ast.FunctionDef) and n.name == entry["function"]:
                fdef = n
                break
        if fdef is None:
            raise Unsupported("function %s not found in %s" % (entry["function"], entry["file"]))
        out.append("(* from %s : %s *)" % (entry["file"], entry["function"]))
        out.append(Fn(fdef, entry).translate())
        out.append("")
    return "\n".join(out)


HEADER = """(* GENERATED by /verif/gen/py2coq.py from /repo's current source — do not edit, not committed. *)
From Coq Require Import ZArith List Bool.
From QV.Core Require Import OF.
Import ListNotations.
"""


def main():
    repo = sys.argv[1]
    sigfile = sys.argv[2]
    group = sys.argv[3]
    outpath = sys.argv[4]
    sigs = json.load(open(sigfile))
    table = sigs[group]
    hdr = HEADER
    if any(e.get("field") for e in table):
        hdr += "Section Gen.\nContext (F : OF).\n"
    try:
        txt = translate_file(repo, table, hdr)
    except Unsupported as e:
        print("UNSUPPORTED: %s" % e)
        sys.exit(3)
    if any(e.get("field") for e in table):
        txt += "\nEnd Gen.\n"
    open(outpath, "w").write(txt)
    print("ok: %d functions -> %s" % (len(table), outpath))


if __name__ == "__main__":
    main()
