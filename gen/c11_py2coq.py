#!/usr/bin/env python3
"""C11's own fail-closed translator: regenerates, from /repo's CURRENT source, the Gallina text of

  quara/minimization_algorithm/projected_gradient_descent_backtracking.py
      ProjectedGradientDescentBacktracking._is_doing_for_alpha     -> gen_is_doing_for_alpha
      ProjectedGradientDescentBacktracking.optimize                -> gen_body (one pass through the for-loop body),
                                                                      gen_for (the for/break skeleton), gen_optimize
  quara/interface/cvxpy/conversion.py
      num_cvxpy_variable                                           -> gen_num_cvxpy_variable
      generate_cvxpy_constraints_from_cvxpy_variable(_with_sparsity) -> gen_constraints_dense / gen_constraints_sparse
                                                                      (type string, outcome count |-> list of (expression function, outcome index))
      generate_cvxpy_variable                                      -> shape check only (must be the plain cp.Variable(num))
  quara/interface/cvxpy/qtomography/standard/loss_function.py
      CvxpyRelativeEntropy / CvxpyUniformSquaredError / CvxpyApproximateRelativeEntropyWithZeroProbabilityTerm .value_cvxpy
                                                                   -> gen_cvx_re / gen_cvx_se / gen_cvx_are  (accumulator loops -> sums;
                                                                      np.log / cp.log -> ln, cp.quad_over_lin(a, b) -> a*a/b)

coq/gen/C11_Equiv.v then re-proves, on every run, that the regenerated definitions equal the hand-written model
(Model/C11_Pgdb.v: C11_armijo_ok, C11_backtrack, C11_body, C11_optimize; Model/C11_Cvx.v: C11_num_var) the property theorems talk about.

What is abstracted (parameters of the generated section, exactly the oracles of the model):
  loss_function.value(e) -> f e     loss_function.gradient(e) -> g e     self.func_proj(e) -> P e     np.sqrt -> sq
numpy vector arithmetic is mapped by TYPE (x - y -> vsub, a * y -> vscale, x / a -> C11_vdiv, np.dot -> dot n, np.abs -> C11_absF,
np.sqrt(np.sum(e ** 2)) -> sq (C11_nrm2 n e));  the Python list `error_values` (appended at the END) is represented newest-FIRST:
append -> cons, l[-r:] -> firstn r, np.sum -> C11_lsum, len -> length;  `while c: alpha = e` -> gen_while with explicit fuel (the model's
out-of-fuel result);  the if/elif chain over the stopping-mode strings -> match on C11_mode (all four strings must occur, each branch must
assign the same single variable);  `if on_iteration_history:` blocks, logging and printing are skipped after checking that they only
append to / assign history variables.  Loop-carried state is exactly (x_prev, x_next, error_values): a name that is read in the loop body
before it is written there and is neither that state nor a loop invariant makes the translation FAIL (e.g. a cached loss value).
Anything outside this subset raises Unsupported: the tie is then reported broken, never silently skipped.

LossMinimizationEstimator / CvxpyLossMinimizationEstimator .calc_estimate_sequence (and .calc_estimate): loop skeleton around oracle calls --
one configuration + one optimisation per data set, its value appended unconditionally (no break / continue / conditional or second append),
result built from that list, calc_estimate delegating with [empi_dists]  ->  gen_estimate_sequence / gen_cvx_estimate_sequence = map.

ProjectedGradientDescentBacktracking.optimize, before the loop: start-point selection and the default-mu chain -> gen_start, gen_mu
(Python truthiness of `algorithm_option.mu`: not None and != 0; np.sqrt of an integer -> oracle sqrtn).
CvxpyMinimizationAlgorithm.optimize: which types need num_outcomes, which mode_constraint strings attach the (sparse) PSD constraints, which solver
call each name_solver string selects (SCS must receive eps=eps_tol) -> gen_cvx_needs_outcomes / gen_cvx_constrained / gen_cvx_solver; the objective
(cp.Minimize(self.loss.value_cvxpy(var))), the problem (cp.Problem(objective, constraints)) and the result fields (var.value, problem.value) are
checked verbatim.

usage: c11_py2coq.py <repo> <out.v>"""
import ast, os, sys


class Unsupported(Exception):
    pass


def fail(node, msg):
    raise Unsupported("%s (line %s): %s" % (type(node).__name__, getattr(node, "lineno", "?"), msg))


MODES = {"single_difference_loss": "C11_SingleDiffLoss", "sum_absolute_difference_loss": "C11_SumAbsDiffLoss",
         "sum_absolute_difference_variable": "C11_SumAbsDiffVar", "sum_absolute_difference_projected_gradient": "C11_SumAbsDiffProjGrad"}
MODE_ATTR = "algorithm_option.mode_stopping_criterion_gradient_descent"
HISTORY_NAMES = {"fxs", "xs", "ys", "alphas", "start_time", "computation_time"}


class Ex:
    """expression translator with a type environment: F | vec | bool | nat | listF | optvec"""

    def __init__(self, types, is_doing_name=None):
        self.t = dict(types)
        self.is_doing_name = is_doing_name

    def ex(self, e):
        src = ast.unparse(e)
        if isinstance(e, ast.Constant):
            if e.value is True:
                return "true", "bool"
            if e.value is False:
                return "false", "bool"
            if isinstance(e.value, float) and e.value == 1.0:
                return "(c1 F)", "F"
            if isinstance(e.value, float) and e.value == 0.5:
                return "(C11_half F)", "F"
            fail(e, "constant %r" % (e.value,))
        if isinstance(e, ast.Name):
            if e.id not in self.t:
                fail(e, "unknown / untyped variable %s" % e.id)
            return e.id, self.t[e.id]
        if isinstance(e, ast.Attribute):
            if src == "algorithm_option.num_history_stopping_criterion_gradient_descent":
                return "h", "nat"
            fail(e, "attribute %s" % src)
        if isinstance(e, ast.BinOp):
            a, ta = self.ex(e.left)
            b, tb = self.ex(e.right)
            op = type(e.op)
            if (ta, tb) == ("F", "F") and op in (ast.Add, ast.Sub, ast.Mult):
                return "(%s F %s %s)" % ({ast.Add: "cadd", ast.Sub: "csub", ast.Mult: "cmul"}[op], a, b), "F"
            if (ta, tb) == ("vec", "vec") and op in (ast.Add, ast.Sub):
                return "(%s %s %s)" % ({ast.Add: "vadd", ast.Sub: "vsub"}[op], a, b), "vec"
            if (ta, tb) == ("F", "vec") and op is ast.Mult:
                return "(vscale %s %s)" % (a, b), "vec"
            if (ta, tb) == ("vec", "F") and op is ast.Div:
                return "(C11_vdiv F %s %s)" % (a, b), "vec"
            fail(e, "operator %s on %s, %s" % (op.__name__, ta, tb))
        if isinstance(e, ast.Compare) and len(e.ops) == 1:
            a, ta = self.ex(e.left)
            b, tb = self.ex(e.comparators[0])
            if isinstance(e.ops[0], ast.Gt) and (ta, tb) == ("F", "F"):
                return "(negb (kleb F %s %s))" % (a, b), "bool"          # a > b  <->  not (a <= b)
            fail(e, "comparison %s" % src)
        if isinstance(e, ast.IfExp):
            c, tc = self.ex(e.test)
            a, ta = self.ex(e.body)
            b, tb = self.ex(e.orelse)
            if tc != "bool" or ta != tb:
                fail(e, "conditional expression types")
            return "(if %s then %s else %s)" % (c, a, b), ta
        if isinstance(e, ast.Call):
            fn = ast.unparse(e.func)
            args = e.args
            kw = {k.arg for k in e.keywords}
            if fn == "loss_function.value" and len(args) == 1 and kw <= {"validate"}:
                a, ta = self.ex(args[0])
                if ta != "vec":
                    fail(e, "loss value of a non-vector")
                return "(f %s)" % a, "F"
            if fn == "loss_function.gradient" and len(args) == 1 and not kw:
                a, ta = self.ex(args[0])
                if ta != "vec":
                    fail(e, "gradient of a non-vector")
                return "(g %s)" % a, "vec"
            if fn == "self.func_proj" and len(args) == 1 and not kw:
                a, ta = self.ex(args[0])
                if ta != "vec":
                    fail(e, "projection of a non-vector")
                return "(P %s)" % a, "vec"
            if fn == "np.dot" and len(args) == 2 and not kw:
                a, ta = self.ex(args[0])
                b, tb = self.ex(args[1])
                if (ta, tb) != ("vec", "vec"):
                    fail(e, "np.dot types")
                return "(dot n %s %s)" % (a, b), "F"
            if fn == "np.abs" and len(args) == 1 and not kw:
                a, ta = self.ex(args[0])
                if ta != "F":
                    fail(e, "np.abs of a non-scalar")
                return "(C11_absF F %s)" % a, "F"
            if fn == "np.sqrt" and len(args) == 1 and not kw:
                s = args[0]
                if (isinstance(s, ast.Call) and ast.unparse(s.func) == "np.sum" and len(s.args) == 1 and not s.keywords
                        and isinstance(s.args[0], ast.BinOp) and isinstance(s.args[0].op, ast.Pow)
                        and isinstance(s.args[0].right, ast.Constant) and s.args[0].right.value == 2):
                    a, ta = self.ex(s.args[0].left)
                    if ta != "vec":
                        fail(e, "norm of a non-vector")
                    return "(sq (C11_nrm2 F n %s))" % a, "F"
                fail(e, "np.sqrt of something that is not np.sum(v ** 2)")
            if fn == "np.sum" and len(args) == 1 and not kw:
                s = args[0]
                if (isinstance(s, ast.Subscript) and isinstance(s.slice, ast.Slice) and s.slice.upper is None and s.slice.step is None
                        and isinstance(s.slice.lower, ast.UnaryOp) and isinstance(s.slice.lower.op, ast.USub)):
                    l, tl = self.ex(s.value)
                    r, tr = self.ex(s.slice.lower.operand)
                    if (tl, tr) != ("listF", "nat"):
                        fail(e, "window sum types")
                    # the Python list grows at the end, the model list at the front:  l[-r:]  is  firstn r
                    return "(C11_lsum F (firstn %s %s))" % (r, l), "F"
                fail(e, "np.sum of something that is not l[-r:]")
            if fn == "min" and len(args) == 2 and not kw:
                a, ta = self.ex(args[0])
                b, tb = self.ex(args[1])
                if (ta, tb) != ("nat", "nat"):
                    fail(e, "min types")
                return "(Nat.min %s %s)" % (a, b), "nat"
            if fn == "len" and len(args) == 1 and not kw:
                a, ta = self.ex(args[0])
                if ta != "listF":
                    fail(e, "len of a non-list")
                return "(List.length %s)" % a, "nat"
            if self.is_doing_name and fn == "self." + self.is_doing_name and not kw:
                if len(args) != 5 or ast.unparse(args[4]) != "loss_function":
                    fail(e, "call of %s with an unexpected argument list" % self.is_doing_name)
                parts = [self.ex(a) for a in args[:4]]
                if [t for _, t in parts] != ["vec", "vec", "F", "F"]:
                    fail(e, "argument types of %s" % self.is_doing_name)
                return "(gen_is_doing_for_alpha %s)" % " ".join(p for p, _ in parts), "bool"
            fail(e, "call %s" % fn)
        fail(e, "expression %s" % src)


def names_read(node):
    return {n.id for n in ast.walk(node) if isinstance(n, ast.Name) and isinstance(n.ctx, ast.Load)}


def get_method(tree, cls, name):
    for c in tree.body:
        if isinstance(c, ast.ClassDef) and c.name == cls:
            for f in c.body:
                if isinstance(f, ast.FunctionDef) and f.name == name:
                    return f
    raise Unsupported("method %s.%s not found" % (cls, name))


def strip_doc(body):
    if body and isinstance(body[0], ast.Expr) and isinstance(body[0].value, ast.Constant) and isinstance(body[0].value.value, str):
        return body[1:]
    return body


# ------------------------------------------------------------------ _is_doing_for_alpha
def tr_is_doing(fdef):
    params = [a.arg for a in fdef.args.args]
    if params != ["self", "x_prev", "y_prev", "alpha", "gamma", "loss_function"] or fdef.args.defaults or fdef.args.kwonlyargs:
        fail(fdef, "signature of _is_doing_for_alpha is %s" % params)
    env = Ex({"x_prev": "vec", "y_prev": "vec", "alpha": "F", "gamma": "F"})
    lets = []
    body = strip_doc(fdef.body)
    for st in body[:-1]:
        if not (isinstance(st, ast.Assign) and len(st.targets) == 1 and isinstance(st.targets[0], ast.Name)):
            fail(st, "statement in _is_doing_for_alpha")
        v, t = env.ex(st.value)
        env.t[st.targets[0].id] = t
        lets.append("  let %s := %s in" % (st.targets[0].id, v))
    if not isinstance(body[-1], ast.Return):
        fail(body[-1], "last statement must be return")
    r, t = env.ex(body[-1].value)
    if t != "bool":
        fail(body[-1], "return type")
    return ("Definition gen_is_doing_for_alpha (x_prev y_prev : vec) (alpha gamma : F) : bool :=\n" + "\n".join(lets) + "\n  %s." % r)


# ------------------------------------------------------------------ optimize
INVARIANT = {"self", "loss_function", "loss_function_option", "algorithm_option", "on_iteration_history", "max_iteration", "mu", "gamma", "eps",
             "np", "logger", "logging", "time", "min", "len", "range", "print", "True", "False", "None"}


def history_only(stmts):
    """statements allowed inside `if on_iteration_history:` / logging blocks: appends to and assignments of history variables"""
    for st in stmts:
        if isinstance(st, ast.Expr) and isinstance(st.value, ast.Call):
            fn = ast.unparse(st.value.func)
            if fn.endswith(".append") and fn.split(".")[0] in HISTORY_NAMES:
                continue
            if fn in ("print", "logger.debug"):
                continue
        if isinstance(st, ast.Assign) and all(isinstance(t, ast.Name) and t.id in HISTORY_NAMES | {"start_red", "end_color", "result"} for t in st.targets):
            continue
        if isinstance(st, ast.Return):
            continue
        fail(st, "statement in a history / logging block touches something else than history variables")


def tr_optimize(fdef):
    params = [a.arg for a in fdef.args.args]
    if params[:4] != ["self", "loss_function", "loss_function_option", "algorithm_option"] or "on_iteration_history" not in params:
        fail(fdef, "signature of optimize is %s" % params)
    body = strip_doc(fdef.body)
    loops = [i for i, st in enumerate(body) if isinstance(st, ast.For)]
    if len(loops) != 1:
        fail(fdef, "expected exactly one top-level for loop")
    pre, loop, post = body[:loops[0]], body[loops[0]], body[loops[0] + 1:]
    # ---- before the loop: the loop state must start as (x_prev = start, x_next = None, error_values = [])
    seen = {}
    for st in pre:
        for sub in ast.walk(st):
            if isinstance(sub, ast.Assign):
                for t in sub.targets:
                    if isinstance(t, ast.Name):
                        seen.setdefault(t.id, []).append(ast.unparse(sub.value))
            if isinstance(sub, (ast.While, ast.For)):
                fail(sub, "loop before the main loop")
    want = {"x_next": ["None"], "error_values": ["[]"], "gamma": ["algorithm_option.gamma"], "eps": ["algorithm_option.eps"],
            "max_iteration": ["algorithm_option.max_iteration_optimization"]}
    for k, v in want.items():
        if seen.get(k) != v:
            fail(fdef, "before the loop %s is assigned %s (expected %s)" % (k, seen.get(k), v))
    if "x_prev" not in seen or "mu" not in seen:
        fail(fdef, "x_prev / mu are not initialised before the loop")
    extra = set(seen) - set(want) - {"x_prev", "mu", "is_doing"} - HISTORY_NAMES
    # ---- the for header
    if not (isinstance(loop.target, ast.Name) and loop.target.id == "k" and ast.unparse(loop.iter) == "range(1, max_iteration + 1)" and not loop.orelse):
        fail(loop, "loop header is not `for k in range(1, max_iteration + 1)`")
    stmts = list(loop.body)
    if not (isinstance(stmts[-1], ast.If) and ast.unparse(stmts[-1].test) == "not is_doing" and len(stmts[-1].body) == 1
            and isinstance(stmts[-1].body[0], ast.Break) and not stmts[-1].orelse):
        fail(stmts[-1], "the loop body must end with `if not is_doing: break`")
    for sub in ast.walk(loop):
        if isinstance(sub, (ast.Break, ast.Continue)) and sub is not stmts[-1].body[0]:
            fail(sub, "another break / continue in the loop")
    env = Ex({"x_prev": "vec", "x_next": "optvec", "error_values": "listF", "mu": "F", "gamma": "F", "eps": "F"}, is_doing_name="_is_doing_for_alpha")
    state = {"x_prev", "x_next", "error_values"}
    defined = set()
    out = []          # lines of nested lets / matches; closed at the end

    def check_reads(node, allow=()):
        for nm in names_read(node):
            if nm in defined or nm in state or nm in INVARIANT or nm == "k" or nm in allow:
                continue
            if nm in extra or nm in seen:
                fail(node, "`%s` is read in the loop body before it is written there: a loop-carried variable outside the modelled state (x_prev, x_next, error_values)" % nm)
            fail(node, "unknown name %s" % nm)

    i = 0
    while i < len(stmts) - 1:
        st = stmts[i]
        # a. shift:  if x_next is not None: x_prev = x_next
        if isinstance(st, ast.If) and ast.unparse(st.test) == "x_next is not None":
            if not (len(st.body) == 1 and ast.unparse(st.body[0]) == "x_prev = x_next" and not st.orelse and env.t["x_next"] == "optvec"):
                fail(st, "shift statement")
            out.append("let x_prev := match x_next with Some v => v | None => x_prev end in")
            i += 1
            continue
        # h. history / logging blocks
        if isinstance(st, ast.If) and ast.unparse(st.test) in ("on_iteration_history", "logger.isEnabledFor(logging.DEBUG)"):
            if st.orelse:
                fail(st, "else branch of a history block")
            history_only(st.body)
            for sub in st.body:
                check_reads(sub, allow=HISTORY_NAMES)      # history lists are written only inside such blocks (history_only)
            i += 1
            continue
        # d. the stopping-mode chain
        if isinstance(st, ast.If) and ast.unparse(st.test).startswith(MODE_ATTR + " == "):
            branches = {}
            cur = st
            target = None
            while True:
                t = cur.test
                if not (isinstance(t, ast.Compare) and len(t.ops) == 1 and isinstance(t.ops[0], ast.Eq) and ast.unparse(t.left) == MODE_ATTR
                        and isinstance(t.comparators[0], ast.Constant) and t.comparators[0].value in MODES):
                    fail(cur, "test of the stopping-mode chain")
                if not (len(cur.body) == 1 and isinstance(cur.body[0], ast.Assign) and len(cur.body[0].targets) == 1
                        and isinstance(cur.body[0].targets[0], ast.Name)):
                    fail(cur, "a branch of the stopping-mode chain must be ONE assignment")
                tg = cur.body[0].targets[0].id
                if target not in (None, tg):
                    fail(cur, "branches assign different variables")
                target = tg
                if t.comparators[0].value in branches:
                    fail(cur, "mode string tested twice")
                check_reads(cur.body[0].value)
                v, ty = env.ex(cur.body[0].value)
                if ty != "F":
                    fail(cur, "error value is not a scalar")
                branches[t.comparators[0].value] = v
                if len(cur.orelse) == 1 and isinstance(cur.orelse[0], ast.If):
                    cur = cur.orelse[0]
                    continue
                if cur.orelse:
                    fail(cur, "else branch of the stopping-mode chain")
                break
            if set(branches) != set(MODES):
                fail(st, "the stopping-mode chain covers %s, expected all of %s" % (sorted(branches), sorted(MODES)))
            out.append("let %s := match mode with\n      %s\n      end in" % (
                target, "\n      ".join("| %s => %s" % (MODES[k], branches[k]) for k in MODES)))
            env.t[target] = "F"
            defined.add(target)
            i += 1
            continue
        # c. alpha = 1.0; while cond: alpha = e
        if isinstance(st, ast.While):
            if not (len(st.body) == 1 and isinstance(st.body[0], ast.Assign) and len(st.body[0].targets) == 1
                    and isinstance(st.body[0].targets[0], ast.Name) and not st.orelse):
                fail(st, "while body must be one assignment")
            v = st.body[0].targets[0].id
            if env.t.get(v) != "F" or v not in defined:
                fail(st, "the variable of the while loop must be a scalar initialised just before")
            check_reads(st.test)
            check_reads(st.body[0].value)
            c, tc = env.ex(st.test)
            b, tb = env.ex(st.body[0].value)
            if tc != "bool" or tb != "F":
                fail(st, "while types")
            out.append("match gen_while fuel (fun %s => %s) (fun %s => %s) %s with\n    | None => None\n    | Some %s =>" % (v, c, v, b, v, v))
            i += 1
            continue
        # e. error_values.append(error_value)
        if isinstance(st, ast.Expr) and isinstance(st.value, ast.Call) and ast.unparse(st.value.func) == "error_values.append":
            if len(st.value.args) != 1 or st.value.keywords:
                fail(st, "append arguments")
            check_reads(st.value.args[0])
            a, ta = env.ex(st.value.args[0])
            if ta != "F":
                fail(st, "appended value is not a scalar")
            out.append("let error_values := %s :: error_values in" % a)
            i += 1
            continue
        # b. plain assignment
        if isinstance(st, ast.Assign) and len(st.targets) == 1 and isinstance(st.targets[0], ast.Name):
            nm = st.targets[0].id
            check_reads(st.value)
            v, ty = env.ex(st.value)
            if nm == "x_next":
                if ty != "vec":
                    fail(st, "x_next must be assigned a vector")
                out.append("let x_next_v := %s in" % v)
                env.t["x_next_v"] = "vec"
                # from here on x_next denotes the vector just computed
                env.t["x_next"] = "vec"
                out.append("let x_next := x_next_v in")
                defined.add("x_next")
            else:
                if nm in ("x_prev", "error_values"):
                    fail(st, "unexpected assignment to the state variable %s" % nm)
                out.append("let %s := %s in" % (nm, v))
                env.t[nm] = ty
                defined.add(nm)
            i += 1
            continue
        fail(st, "statement in the loop body: %s" % ast.unparse(st)[:80])
    if env.t.get("x_next") != "vec" or env.t.get("is_doing") != "bool":
        fail(loop, "the loop body does not compute x_next / is_doing")
    out.append("Some (x_prev, x_next, error_values, is_doing)")
    depth = sum(1 for l in out if l.startswith("match gen_while"))
    body_txt = "\n    ".join(out) + "\n    end" * depth
    gen_body = ("Definition gen_body (mode : C11_mode) (h fuel : nat) (mu gamma eps : F) (x_prev : vec) (x_next : option vec) (error_values : list F)\n"
                "    : option (vec * vec * list F * bool) :=\n    " + body_txt + ".")
    # ---- after the loop:  if k == max_iteration: <printing>;  both returns hand out x_next (and k, error_values)
    warn = [st for st in post if isinstance(st, ast.If) and ast.unparse(st.test) == "k == max_iteration"]
    if len(warn) != 1 or warn[0].orelse:
        fail(fdef, "expected `if k == max_iteration:` (warning) after the loop")
    history_only(warn[0].body)
    if not any(isinstance(s, ast.Expr) and isinstance(s.value, ast.Call) and ast.unparse(s.value.func) == "print" for s in warn[0].body):
        fail(warn[0], "the warning block does not print")
    rets = [n for st in post for n in ast.walk(st) if isinstance(n, ast.Return)]
    ctors = [n for st in post for n in ast.walk(st) if isinstance(n, ast.Call) and ast.unparse(n.func) == "ProjectedGradientDescentBacktrackingResult"]
    if not rets or not ctors:
        fail(fdef, "no result after the loop")
    for c in ctors:
        if not c.args or ast.unparse(c.args[0]) != "x_next":
            fail(c, "the result is not built from x_next")
        kw = {k.arg: ast.unparse(k.value) for k in c.keywords}
        for a, b in (("k", "k"), ("error_values", "error_values")):
            if a in kw and kw[a] != b:
                fail(c, "result field %s = %s" % (a, kw[a]))
    for st in post:
        if st is warn[0]:
            continue
        if isinstance(st, ast.If) and ast.unparse(st.test) == "on_iteration_history":
            for blk in (st.body, st.orelse):
                history_only(blk)
            continue
        fail(st, "statement after the loop")
    skeleton = r"""(* for k in range(1, max_iteration + 1): <body>; if not is_doing: break   -- [rem] iterations left including this one *)
Fixpoint gen_for (mode : C11_mode) (h fuel : nat) (mu gamma eps : F) (rem k : nat) (x_prev : vec) (x_next : option vec) (error_values : list F)
    : gen_result :=
  match rem with
  | O => Gen_Unbound
  | S r =>
      match gen_body mode h fuel mu gamma eps x_prev x_next error_values with
      | None => Gen_Fuel k
      | Some (x_prev', x_next', error_values', is_doing) =>
          if negb is_doing then Gen_Broke x_next' error_values' k                       (* break *)
          else match r with
               | O => Gen_Exhausted x_next' error_values' k                             (* range exhausted *)
               | S _ => gen_for mode h fuel mu gamma eps r (S k) x_prev' (Some x_next') error_values'
               end
      end
  end.
(* after the loop: warning iff k == max_iteration; the result carries x_next, k, error_values *)
Definition gen_optimize (mode : C11_mode) (h fuel : nat) (mu gamma eps : F) (max_iteration : nat) (x0 : vec) : gen_result :=
  gen_for mode h fuel mu gamma eps max_iteration 1 x0 None [].
Definition gen_warning (max_iteration : nat) (r : gen_result) : bool :=
  match r with Gen_Broke _ _ k | Gen_Exhausted _ _ k => Nat.eqb k max_iteration | _ => false end."""
    return gen_body, skeleton


# ------------------------------------------------------------------ num_cvxpy_variable
def tr_num_var(tree):
    fdef = next((f for f in tree.body if isinstance(f, ast.FunctionDef) and f.name == "num_cvxpy_variable"), None)
    valid = next((f for f in tree.body if isinstance(f, ast.FunctionDef) and f.name == "get_valid_qopeartion_type"), None)
    if fdef is None or valid is None:
        raise Unsupported("num_cvxpy_variable / get_valid_qopeartion_type not found")
    vb = strip_doc(valid.body)
    # accepted shapes:  return [<strings>]   |   l = [<strings>]; (l.append(<string>))*; return l
    def strs(e):
        if isinstance(e, (ast.List, ast.Tuple)) and all(isinstance(x, ast.Constant) and isinstance(x.value, str) for x in e.elts):
            return [x.value for x in e.elts]
        fail(valid, "get_valid_qopeartion_type: not a list of string literals")
    if len(vb) == 1 and isinstance(vb[0], ast.Return):
        valid_list = strs(vb[0].value)
    elif (isinstance(vb[0], ast.Assign) and len(vb[0].targets) == 1 and isinstance(vb[0].targets[0], ast.Name)
          and isinstance(vb[-1], ast.Return) and isinstance(vb[-1].value, ast.Name) and vb[-1].value.id == vb[0].targets[0].id):
        valid_list = strs(vb[0].value)
        for st in vb[1:-1]:
            if not (isinstance(st, ast.Expr) and isinstance(st.value, ast.Call) and ast.unparse(st.value.func) == vb[0].targets[0].id + ".append"
                    and len(st.value.args) == 1 and isinstance(st.value.args[0], ast.Constant) and isinstance(st.value.args[0].value, str)):
                fail(st, "get_valid_qopeartion_type: unexpected statement")
            valid_list.append(st.value.args[0].value)
    else:
        fail(valid, "get_valid_qopeartion_type has an unexpected shape")
    if [a.arg for a in fdef.args.args] != ["t", "dim", "num_outcomes"]:
        fail(fdef, "signature of num_cvxpy_variable")
    class Unbound(Exception):
        pass

    def ex(e, types):
        if isinstance(e, ast.Constant) and isinstance(e.value, int) and not isinstance(e.value, bool):
            return "(%d)%%Z" % e.value
        if isinstance(e, ast.Name):
            if e.id not in types:
                raise Unbound(e.id)
            if types[e.id] != "Z":
                fail(e, "%s used as an integer but has type %s" % (e.id, types[e.id]))
            return e.id
        if isinstance(e, ast.BinOp):
            a = ex(e.left, types)
            if isinstance(e.op, ast.Pow):
                if isinstance(e.right, ast.Constant) and isinstance(e.right.value, int) and not isinstance(e.right.value, bool) and 0 <= e.right.value <= 8:
                    return "(%s ^ %d)%%Z" % (a, e.right.value)
                fail(e, "power")
            b = ex(e.right, types)
            ops = {ast.Add: "+", ast.Sub: "-", ast.Mult: "*"}
            if type(e.op) in ops:
                return "(%s %s %s)%%Z" % (a, ops[type(e.op)], b)
        fail(e, "expression %s" % ast.unparse(e))

    def block(stmts, types, kont):
        """statement list -> Coq term of type option Z (None = an exception is raised); kont(types) translates what follows the block"""
        if not stmts:
            return kont(types)
        st, rest = stmts[0], stmts[1:]
        if isinstance(st, ast.Raise):
            return "None"
        if isinstance(st, ast.Return):
            try:
                return "Some %s" % ex(st.value, types)
            except Unbound:
                return "None"                    # UnboundLocalError at run time
        if isinstance(st, ast.Assign) and len(st.targets) == 1 and isinstance(st.targets[0], ast.Name):
            try:
                v = ex(st.value, types)
            except Unbound:
                return "None"
            t2 = dict(types); t2[st.targets[0].id] = "Z"
            return "(let %s := %s in %s)" % (st.targets[0].id, v, block(rest, t2, kont))
        if isinstance(st, ast.If):
            k2 = lambda ty: block(rest, ty, kont)
            tsrc = ast.unparse(st.test)
            if tsrc == "num_outcomes is None":
                if types.get("num_outcomes") != "optZ":
                    fail(st, "None test of num_outcomes")
                t2 = dict(types); t2["num_outcomes"] = "Z"
                t1 = dict(types); del t1["num_outcomes"]
                return "(match num_outcomes with None => %s | Some num_outcomes => %s end)" % (block(st.body, t1, k2), block(st.orelse, t2, k2))
            if tsrc == "t not in get_valid_qopeartion_type()":
                c = "negb (existsb (String.eqb t) [%s])" % "; ".join('"%s"' % x for x in valid_list)
            elif isinstance(st.test, ast.Compare) and len(st.test.ops) == 1:
                l, r = st.test.left, st.test.comparators[0]
                if isinstance(st.test.ops[0], ast.Eq) and isinstance(l, ast.Name) and l.id == "t" and isinstance(r, ast.Constant) and isinstance(r.value, str):
                    c = '(String.eqb t "%s")' % r.value
                elif isinstance(st.test.ops[0], ast.LtE):
                    c = "(%s <=? %s)%%Z" % (ex(l, types), ex(r, types))
                else:
                    fail(st, "test %s" % tsrc)
            else:
                fail(st, "test %s" % tsrc)
            return "(if %s then %s else %s)" % (c, block(st.body, dict(types), k2), block(st.orelse, dict(types), k2))
        fail(st, "statement %s" % ast.unparse(st)[:60])

    def end(types):
        raise Unsupported("num_cvxpy_variable can fall off its end")
    term = block(strip_doc(fdef.body), {"t": "string", "dim": "Z", "num_outcomes": "optZ"}, end)
    return "Definition gen_num_cvxpy_variable (t : string) (dim : Z) (num_outcomes : option Z) : option Z :=\n  %s." % term



# ------------------------------------------------------------------ CVXPY loss expressions (accumulator loops -> sums)
class SymEval:
    """symbolic evaluation of straight-line code with `for v in range(N)` accumulator loops, if/else and augmented assignment over a field:
    x += e inside a loop over v  ->  x + sumn N (fun v => e)   (accumulators may only be read by their own augmented assignments)"""
    ABSTR = {"self.eps_prob_zero": ("eps", "F"), "self.sqt.num_schedules": ("S", "nat")}

    def ex(self, e, env):
        src = ast.unparse(e)
        if src in self.ABSTR:
            return self.ABSTR[src][0]
        if isinstance(e, ast.Constant) and isinstance(e.value, (int, float)) and not isinstance(e.value, bool):
            if float(e.value) == 0.0:
                return "(c0 F)"
            if float(e.value) == 1.0:
                return "(c1 F)"
            if float(e.value) == 0.5:
                return "(C11_half F)"
            fail(e, "constant %r" % (e.value,))
        if isinstance(e, ast.Name):
            if e.id not in env:
                fail(e, "unknown variable %s" % e.id)
            return env[e.id]
        if isinstance(e, ast.Subscript):
            # self.prob_dists_data[i][j] -> q i j ;  self.num_data_ratios[i] -> c i
            if isinstance(e.value, ast.Subscript) and ast.unparse(e.value.value) == "self.prob_dists_data":
                return "(q %s %s)" % (self.idx(e.value.slice, env), self.idx(e.slice, env))
            if ast.unparse(e.value) == "self.num_data_ratios":
                return "(c %s)" % self.idx(e.slice, env)
            fail(e, "subscript %s" % src)
        if isinstance(e, ast.BinOp):
            a, b = self.ex(e.left, env), self.ex(e.right, env)
            ops = {ast.Add: "cadd", ast.Sub: "csub", ast.Mult: "cmul"}
            if type(e.op) in ops:
                return "(%s F %s %s)" % (ops[type(e.op)], a, b)
            fail(e, "operator")
        if isinstance(e, ast.Call):
            fn = ast.unparse(e.func)
            if fn in ("np.log", "cp.log") and len(e.args) == 1 and not e.keywords:
                return "(ln %s)" % self.ex(e.args[0], env)
            if fn == "cp.quad_over_lin" and len(e.args) == 2 and not e.keywords:
                a = self.ex(e.args[0], env)
                return "(kdiv F (cmul F %s %s) %s)" % (a, a, self.ex(e.args[1], env))
            if fn == "self.calc_prob_model" and len(e.args) == 3 and not e.keywords and ast.unparse(e.args[2]) == "var":
                return "(p %s %s)" % (self.idx(e.args[0], env), self.idx(e.args[1], env))
            fail(e, "call %s" % fn)
        fail(e, "expression %s" % src)

    def idx(self, e, env):
        if isinstance(e, ast.Name) and env.get(e.id, "").startswith("#idx:"):
            return env[e.id][5:]
        fail(e, "index expression %s" % ast.unparse(e))

    def cond(self, e, env):
        if isinstance(e, ast.Compare) and len(e.ops) == 1 and isinstance(e.ops[0], ast.Gt):
            return "(negb (kleb F %s %s))" % (self.ex(e.left, env), self.ex(e.comparators[0], env))
        fail(e, "condition %s" % ast.unparse(e))

    def rng(self, e, env):
        if isinstance(e, ast.Call) and ast.unparse(e.func) == "range" and len(e.args) == 1:
            src = ast.unparse(e.args[0])
            if src == "self.sqt.num_schedules":
                return "S"
            if isinstance(e.args[0], ast.Call) and ast.unparse(e.args[0].func) == "self.sqt.num_outcomes" and len(e.args[0].args) == 1:
                return "(nout %s)" % self.idx(e.args[0].args[0], env)
        fail(e, "loop range %s" % ast.unparse(e))

    def block(self, stmts, env):
        """returns the new environment, or ('return', expr)"""
        env = dict(env)
        for st in stmts:
            if isinstance(st, ast.Assign) and len(st.targets) == 1 and isinstance(st.targets[0], ast.Name):
                env[st.targets[0].id] = self.ex(st.value, env)
            elif isinstance(st, ast.AugAssign) and isinstance(st.target, ast.Name) and isinstance(st.op, (ast.Add, ast.Sub)):
                if st.target.id not in env:
                    fail(st, "augmented assignment to an undefined variable")
                if st.target.id in names_read(st.value):
                    fail(st, "accumulator read in its own increment")
                env[st.target.id] = "(%s F %s %s)" % ("cadd" if isinstance(st.op, ast.Add) else "csub", env[st.target.id], self.ex(st.value, env))
            elif isinstance(st, ast.For) and isinstance(st.target, ast.Name) and not st.orelse:
                n = self.rng(st.iter, env)
                v = st.target.id
                accs = sorted({x.target.id for x in ast.walk(st) if isinstance(x, ast.AugAssign) and isinstance(x.target, ast.Name)} & set(env))
                plain = {t.id for x in ast.walk(st) if isinstance(x, ast.Assign) for t in x.targets if isinstance(t, ast.Name)}
                if set(accs) & plain:
                    fail(st, "an accumulator is also plainly assigned in the loop")
                for x in ast.walk(st):        # accumulators are read only by their own augmented assignment
                    if isinstance(x, ast.Name) and isinstance(x.ctx, ast.Load) and x.id in accs:
                        fail(st, "accumulator %s is read inside the loop" % x.id)
                inner = dict(env)
                inner[v] = "#idx:" + v
                for a in accs:
                    inner[a] = "(c0 F)"
                out = self.block(st.body, inner)
                if isinstance(out, tuple):
                    fail(st, "return inside a loop")
                for a in accs:
                    env[a] = "(cadd F %s (sumn %s (fun %s => %s)))" % (env[a], n, v, out[a])
            elif isinstance(st, ast.If):
                c = self.cond(st.test, env)
                t_env, f_env = self.block(st.body, env), self.block(st.orelse, env)
                if isinstance(t_env, tuple) or isinstance(f_env, tuple):
                    fail(st, "return inside a conditional")
                for k in set(t_env) & set(f_env):
                    if t_env[k] != f_env[k]:
                        if k not in env:
                            fail(st, "variable %s defined differently in the two branches" % k)
                        env[k] = "(if %s then %s else %s)" % (c, t_env[k], f_env[k])
            elif isinstance(st, ast.Return):
                return ("return", self.ex(st.value, env))
            else:
                fail(st, "statement %s" % ast.unparse(st)[:60])
        return env


def tr_cvx_loss(tree, cls, coq_name):
    fdef = get_method(tree, cls, "value_cvxpy")
    if [a.arg for a in fdef.args.args] != ["self", "var"]:
        fail(fdef, "signature of %s.value_cvxpy" % cls)
    body = strip_doc(fdef.body)
    if not (isinstance(body[0], ast.If) and ast.unparse(body[0].test) == "self.on_prob_dists_data is False"
            and len(body[0].body) == 1 and isinstance(body[0].body[0], ast.Raise) and not body[0].orelse):
        fail(fdef, "%s.value_cvxpy does not start with the prob_dists_data guard" % cls)
    out = SymEval().block(body[1:], {})
    if not isinstance(out, tuple):
        fail(fdef, "%s.value_cvxpy does not return" % cls)
    return ("Definition %s (ln : F -> F) (S : nat) (nout : nat -> nat) (c : nat -> F) (q p : nat -> nat -> F) (eps : F) : F :=\n  %s." % (coq_name, out[1]))


# ------------------------------------------------------------------ the two constraint generators and generate_cvxpy_variable
def tr_constraints(tree, fname, coq_name):
    fdef = next((f for f in tree.body if isinstance(f, ast.FunctionDef) and f.name == fname), None)
    if fdef is None:
        raise Unsupported("%s not found" % fname)
    if [a.arg for a in fdef.args.args] != ["c_sys", "t", "var", "num_outcomes"]:
        fail(fdef, "signature of %s" % fname)
    body = strip_doc(fdef.body)
    if not (len(body) == 2 and isinstance(body[0], ast.If) and isinstance(body[1], ast.Return) and ast.unparse(body[1].value) == "constraints"):
        fail(fdef, "%s is not one if-chain followed by `return constraints`" % fname)

    def psd_of(e, loopvar, mats):
        """EXPR >> 0  ->  (function name, index term)"""
        if not (isinstance(e, ast.BinOp) and isinstance(e.op, ast.RShift) and isinstance(e.right, ast.Constant) and e.right.value == 0):
            fail(e, "constraint is not `expr >> 0`")
        l = e.left
        if isinstance(l, ast.Call) and isinstance(l.func, ast.Name) and not l.keywords:
            args = [ast.unparse(a) for a in l.args]
            if args == ["c_sys", "var"] and loopvar is None:
                return l.func.id, "O"
            if loopvar is not None and args == ["c_sys", "num_outcomes", loopvar, "var"]:
                return l.func.id, loopvar
            fail(l, "arguments %s of %s" % (args, l.func.id))
        if isinstance(l, ast.Subscript) and isinstance(l.value, ast.Name) and l.value.id in mats and loopvar is not None and ast.unparse(l.slice) == loopvar:
            return mats[l.value.id], loopvar
        fail(e, "constraint expression %s" % ast.unparse(e))

    def branch(stmts):
        mats = {}
        st = list(stmts)
        if (len(st) == 1 and isinstance(st[0], ast.Assign) and ast.unparse(st[0].targets[0]) == "constraints" and isinstance(st[0].value, ast.List)
                and len(st[0].value.elts) == 1):
            f, _ = psd_of(st[0].value.elts[0], None, mats)
            return 'Some [("%s", O)]' % f
        if st and isinstance(st[0], ast.Assign) and isinstance(st[0].value, ast.Call) and isinstance(st[0].value.func, ast.Name) \
                and [ast.unparse(a) for a in st[0].value.args] == ["c_sys", "var"] and not st[0].value.keywords and isinstance(st[0].targets[0], ast.Name) \
                and st[0].targets[0].id != "constraints":
            mats[st[0].targets[0].id] = st[0].value.func.id
            st = st[1:]
        if (len(st) == 2 and ast.unparse(st[0]) == "constraints = []" and isinstance(st[1], ast.For) and isinstance(st[1].target, ast.Name)
                and ast.unparse(st[1].iter) == "range(num_outcomes)" and not st[1].orelse and len(st[1].body) == 1
                and isinstance(st[1].body[0], ast.Expr) and isinstance(st[1].body[0].value, ast.Call)
                and ast.unparse(st[1].body[0].value.func) == "constraints.append" and len(st[1].body[0].value.args) == 1):
            f, _ = psd_of(st[1].body[0].value.args[0], st[1].target.id, mats)
            return 'Some (map (fun x => ("%s", x)) (seq 0 num_outcomes))' % f
        if len(st) == 1 and isinstance(st[0], ast.Raise):
            return "None"
        fail(stmts[0], "branch of %s" % fname)

    def chain(node):
        t = node.test
        if not (isinstance(t, ast.Compare) and len(t.ops) == 1 and isinstance(t.ops[0], ast.Eq) and ast.unparse(t.left) == "t"
                and isinstance(t.comparators[0], ast.Constant) and isinstance(t.comparators[0].value, str)):
            fail(node, "test of the type chain")
        if len(node.orelse) == 1 and isinstance(node.orelse[0], ast.If):
            rest = chain(node.orelse[0])
        else:
            rest = branch(node.orelse)
        return '(if String.eqb t "%s" then %s else %s)' % (t.comparators[0].value, branch(node.body), rest)

    return "Definition %s (t : string) (num_outcomes : nat) : option (list (string * nat)) :=\n  %s." % (coq_name, chain(body[0]))


def check_generate_variable(tree):
    """generate_cvxpy_variable must be exactly: num = num_cvxpy_variable(t, dim, num_outcomes); var = cp.Variable(num); return var
    (an unrestricted vector variable of the translated length) -- checked, not translated"""
    fdef = next((f for f in tree.body if isinstance(f, ast.FunctionDef) and f.name == "generate_cvxpy_variable"), None)
    if fdef is None:
        raise Unsupported("generate_cvxpy_variable not found")
    got = [ast.unparse(x) for x in strip_doc(fdef.body)]
    want = ["num = num_cvxpy_variable(t, dim, num_outcomes)", "var = cp.Variable(num)", "return var"]
    if got != want:
        fail(fdef, "generate_cvxpy_variable is %s, expected %s" % (got, want))



# ------------------------------------------------------------------ the estimators' wiring (loop skeleton around oracle calls)
def tr_estimator(tree, cls, coq_name, configure_calls, optimize_src, value_attr, single_call_kw):
    """calc_estimate_sequence must be:  for empi_dists in empi_dists_sequence: <configure loss / algorithm for (qtomography, empi_dists)>;
    <validation: if ...: raise>; algo_result = algo.optimize(...); estimated_var_sequence.append(algo_result.<value>); <timing / detailed-result
    bookkeeping> -- one optimisation per data set, its value appended unconditionally, no break / continue / other append, result built from
    estimated_var_sequence; calc_estimate must delegate to calc_estimate_sequence with [empi_dists].
    Then  estimates = map (configure-and-optimize) data sets  -- emitted as the definition below."""
    f = get_method(tree, cls, "calc_estimate_sequence")
    body = strip_doc(f.body)
    loops = [st for st in body if isinstance(st, ast.For)]
    if len(loops) != 1 or any(isinstance(n, (ast.For, ast.While)) for st in body for n in ast.walk(st) if n is not loops[0] and st is not loops[0]):
        fail(f, "%s.calc_estimate_sequence: expected exactly one loop" % cls)
    loop = loops[0]
    if not (isinstance(loop.target, ast.Name) and loop.target.id == "empi_dists" and ast.unparse(loop.iter) == "empi_dists_sequence" and not loop.orelse):
        fail(loop, "loop header is not `for empi_dists in empi_dists_sequence`")
    for n in ast.walk(loop):
        if isinstance(n, (ast.Break, ast.Continue, ast.Return, ast.For, ast.While, ast.Try)) and n is not loop:
            fail(n, "%s inside the estimation loop" % type(n).__name__)
    top = list(loop.body)
    seen_cfg = []
    pos_opt = pos_app = None
    allowed_bookkeeping = {"computation_times", "detailed_results", "loss_value_sequence"}
    for i, st in enumerate(top):
        src = ast.unparse(st)
        if isinstance(st, ast.Expr) and isinstance(st.value, ast.Call):
            call = ast.unparse(st.value)
            if call in configure_calls:
                if pos_opt is not None:
                    fail(st, "configuration after the optimisation")
                seen_cfg.append(call)
                continue
            if call == "estimated_var_sequence.append(algo_result.%s)" % value_attr:
                if pos_opt is None or pos_app is not None:
                    fail(st, "append of the estimate before the optimisation / twice")
                pos_app = i
                continue
            fn = ast.unparse(st.value.func)
            if fn.endswith(".append") and fn.split(".")[0] in allowed_bookkeeping:
                continue
            fail(st, "call %s in the estimation loop" % call[:80])
        if isinstance(st, ast.Assign) and src == optimize_src:
            if pos_opt is not None:
                fail(st, "two optimisations per data set")
            pos_opt = i
            continue
        if isinstance(st, ast.If):
            # validation (raise) or timing / bookkeeping only; must not touch the estimates
            for n in ast.walk(st):
                if isinstance(n, ast.Name) and n.id in ("estimated_var_sequence", "algo_result") and isinstance(n.ctx, ast.Store):
                    fail(st, "conditional assignment to %s" % n.id)
                if isinstance(n, ast.Call) and ast.unparse(n.func) == "estimated_var_sequence.append":
                    fail(st, "conditional append to estimated_var_sequence")
            for sub in st.body + st.orelse:
                ok = isinstance(sub, ast.Raise) or (isinstance(sub, ast.Assign) and all(isinstance(t, ast.Name) and t.id in ("start_time", "prepare_time") for t in sub.targets)) \
                    or (isinstance(sub, ast.Expr) and isinstance(sub.value, ast.Call) and ast.unparse(sub.value.func).split(".")[0] in allowed_bookkeeping
                        and ast.unparse(sub.value.func).endswith(".append"))
                if not ok:
                    fail(sub, "statement in a conditional of the estimation loop: %s" % ast.unparse(sub)[:70])
            continue
        fail(st, "statement in the estimation loop: %s" % src[:80])
    if sorted(seen_cfg) != sorted(configure_calls) or pos_opt is None or pos_app is None:
        fail(loop, "configuration calls %s, optimisation %s, append %s" % (seen_cfg, pos_opt, pos_app))
    # nothing else writes estimated_var_sequence; the result is built from it
    writes = [ast.unparse(n) for st in body for n in ast.walk(st) if isinstance(n, ast.Assign) and any(ast.unparse(t) == "estimated_var_sequence" for t in n.targets)]
    if writes != ["estimated_var_sequence = []"]:
        fail(f, "estimated_var_sequence is assigned %s" % writes)
    apps = [n for st in body for n in ast.walk(st) if isinstance(n, ast.Call) and ast.unparse(n.func) in ("estimated_var_sequence.append", "estimated_var_sequence.extend", "estimated_var_sequence.insert")]
    if len(apps) != 1:
        fail(f, "estimated_var_sequence is filled in %d places" % len(apps))
    ctor = [n for st in body for n in ast.walk(st) if isinstance(n, ast.Call) and ast.unparse(n.func).endswith("EstimationResult")]
    if len(ctor) != 1 or not ctor[0].args or ast.unparse(ctor[0].args[0]) != "estimated_var_sequence" or not isinstance(body[-1], ast.Return) \
            or ast.unparse(body[-1].value) != "result":
        fail(f, "the result is not built from estimated_var_sequence")
    # calc_estimate delegates
    g = get_method(tree, cls, "calc_estimate")
    gb = strip_doc(g.body)
    want = "result = self.calc_estimate_sequence(qtomography, [empi_dists], loss, loss_option, algo, algo_option, %s)" % single_call_kw
    if [ast.unparse(x) for x in gb] != [want, "return result"]:
        fail(g, "%s.calc_estimate is %s" % (cls, [ast.unparse(x)[:120] for x in gb]))
    return ("Definition %s {D V : Type} (configure_and_optimize : D -> V) (empi_dists_sequence : list D) : list V :=\n"
            "  map configure_and_optimize empi_dists_sequence." % coq_name)



# ------------------------------------------------------------------ optimize: start point and default-mu selection (before the loop)
def tr_start_and_mu(fdef):
    """the two if-chains before the loop of ProjectedGradientDescentBacktracking.optimize:
         x_prev = origin object's variable            if algorithm_option.var_start is None   else   algorithm_option.var_start
         mu     = algorithm_option.mu                 if algorithm_option.mu  (Python truthiness: not None and != 0)
                  3 / (2*np.sqrt(len(var_start)))     elif var_start is not None
                  3 / (2*np.sqrt(self._qt.num_variables))   elif self._qt (truthiness: not None)        else raise ValueError"""
    body = strip_doc(fdef.body)
    loop_at = next(i for i, st in enumerate(body) if isinstance(st, ast.For))
    pre = body[:loop_at]
    start = [st for st in pre if isinstance(st, ast.If) and ast.unparse(st.test) == "algorithm_option.var_start is None"]
    if len(start) != 1:
        fail(fdef, "start-point selection not found")
    st = start[0]
    origin = "x_prev = self._qt.generate_empty_estimation_obj_with_setting_info().generate_origin_obj().to_var()"
    if [ast.unparse(x) for x in st.body] != [origin] or [ast.unparse(x) for x in st.orelse] != ["x_prev = algorithm_option.var_start"]:
        fail(st, "start-point selection is %s / %s" % ([ast.unparse(x) for x in st.body], [ast.unparse(x) for x in st.orelse]))
    mus = [x for x in pre if isinstance(x, ast.If) and ast.unparse(x.test) == "algorithm_option.mu"]
    if len(mus) != 1:
        fail(fdef, "mu selection not found")

    def num(e):
        if isinstance(e, ast.Constant) and isinstance(e.value, int) and not isinstance(e.value, bool) and 1 <= e.value <= 4:
            return "(C11_nat_F F %d)" % e.value
        if isinstance(e, ast.BinOp) and isinstance(e.op, ast.Div):
            return "(kdiv F %s %s)" % (num(e.left), num(e.right))
        if isinstance(e, ast.BinOp) and isinstance(e.op, ast.Mult):
            return "(cmul F %s %s)" % (num(e.left), num(e.right))
        if isinstance(e, ast.Call) and ast.unparse(e.func) == "np.sqrt" and len(e.args) == 1 and not e.keywords:
            a = ast.unparse(e.args[0])
            if a == "len(algorithm_option.var_start)":
                return "(sqrtn start_len)"
            if a == "self._qt.num_variables":
                return "(sqrtn qt_nvars)"
        fail(e, "expression in the default mu: %s" % ast.unparse(e))

    def chain(node):
        t = ast.unparse(node.test)
        if len(node.body) != 1 or not (isinstance(node.body[0], ast.Assign) and ast.unparse(node.body[0].targets[0]) == "mu"):
            fail(node, "branch of the mu selection")
        val = node.body[0].value
        if len(node.orelse) == 1 and isinstance(node.orelse[0], ast.If):
            rest = chain(node.orelse[0])
        elif len(node.orelse) == 1 and isinstance(node.orelse[0], ast.Raise):
            rest = "None"
        else:
            fail(node, "end of the mu selection")
        if t == "algorithm_option.mu":
            if ast.unparse(val) != "algorithm_option.mu":
                fail(node, "explicit mu branch")
            return "(match mu_opt with Some mu_given => if negb (keqb F mu_given (c0 F)) then Some mu_given else %s | None => %s end)" % (rest, rest)
        if t == "algorithm_option.var_start is not None":
            return "(match start_len_opt with Some start_len => Some %s | None => %s end)" % (num(val), rest)
        if t == "self._qt":
            return "(match qt_nvars_opt with Some qt_nvars => Some %s | None => %s end)" % (num(val), rest)
        fail(node, "test %s of the mu selection" % t)

    return ("Definition gen_start {V : Type} (origin : V) (var_start : option V) : V :=\n  match var_start with None => origin | Some v => v end.\n\n"
            "Definition gen_mu (sqrtn : nat -> F) (mu_opt : option F) (start_len_opt qt_nvars_opt : option nat) : option F :=\n  %s." % chain(mus[0]))


# ------------------------------------------------------------------ CvxpyMinimizationAlgorithm.optimize: the dispatch around the solver call
def tr_cvx_optimize(tree):
    f = get_method(tree, "CvxpyMinimizationAlgorithm", "optimize")
    body = strip_doc(f.body)
    srcs = [ast.unparse(x) for x in body]
    # fixed statements that must be present verbatim (the problem handed to the solver and what is read back)
    for want in ("t = self.loss.type_estimate", "dim = self.loss.dim_system()", "c_sys = self.loss.composite_system",
                 "objective = cp.Minimize(self.loss.value_cvxpy(var))", "problem = cp.Problem(objective, constraints)",
                 "name_solver = self.option.name_solver", "verbose = self.option.verbose", "eps_tol = self.option.eps_tol",
                 "result = CvxpyMinimizationResult(variable_value=var.value, loss_value=problem.value, comp_time=time_elapsed)", "return result"):
        if srcs.count(want) != 1:
            fail(f, "CvxpyMinimizationAlgorithm.optimize: expected exactly one `%s`" % want)
    order = [srcs.index(w) for w in ("objective = cp.Minimize(self.loss.value_cvxpy(var))", "problem = cp.Problem(objective, constraints)")]
    ifs = [x for x in body if isinstance(x, ast.If)]

    def str_tests(test, var):
        """t == 'a' or t == 'b'  ->  ['a', 'b']"""
        parts = test.values if isinstance(test, ast.BoolOp) and isinstance(test.op, ast.Or) else [test]
        out = []
        for c in parts:
            if not (isinstance(c, ast.Compare) and len(c.ops) == 1 and isinstance(c.ops[0], ast.Eq) and ast.unparse(c.left) == var
                    and isinstance(c.comparators[0], ast.Constant) and isinstance(c.comparators[0].value, str)):
                fail(test, "test %s" % ast.unparse(test))
            out.append(c.comparators[0].value)
        return out

    def chain(node, var, branch):
        conds = " || ".join('String.eqb %s "%s"' % (var.split(".")[-1] if "." in var else var, v) for v in str_tests(node.test, var))
        a = branch(node.body)
        if len(node.orelse) == 1 and isinstance(node.orelse[0], ast.If):
            b = chain(node.orelse[0], var, branch)
        elif len(node.orelse) == 1 and isinstance(node.orelse[0], ast.Raise):
            b = "None"
        else:
            fail(node, "end of the chain on %s" % var)
        return "(if (%s)%%bool then %s else %s)" % (conds, a, b)

    # (1) variable: which types need num_outcomes
    def br_var(stmts):
        got = [ast.unparse(x) for x in stmts]
        if got == ["num_outcomes = None", "var = generate_cvxpy_variable(t, dim)"]:
            return "Some false"
        if got == ["num_outcomes = self.loss.num_outcomes_estimate()", "var = generate_cvxpy_variable(t, dim, num_outcomes)"]:
            return "Some true"
        fail(stmts[0], "variable branch %s" % got)
    v_if = [x for x in ifs if ast.unparse(x.test).startswith("t == ")]
    c_if = [x for x in ifs if ast.unparse(x.test).startswith("self.option.mode_constraint == ")]
    s_if = [x for x in ifs if ast.unparse(x.test).startswith("name_solver == ")]
    if len(v_if) != 1 or len(c_if) != 1 or len(s_if) != 1:
        fail(f, "expected one chain each on t, mode_constraint, name_solver")
    if not (body.index(v_if[0]) < body.index(c_if[0]) < order[0] < order[1] < body.index(s_if[0])):
        fail(f, "order of variable / constraints / objective / problem / solve")

    def br_con(stmts):
        got = [ast.unparse(x) for x in stmts]
        if got == ["constraints = []"]:
            return "Some false"
        if got == ["constraints = generate_cvxpy_constraints_from_cvxpy_variable_with_sparsity(c_sys, t, var, num_outcomes)"]:
            return "Some true"
        fail(stmts[0], "constraint branch %s" % got)

    def br_sol(stmts):
        got = [ast.unparse(x) for x in stmts]
        if got == ["problem.solve(solver=cp.SCS, verbose=verbose, eps=eps_tol)"]:
            return 'Some "SCS(eps=eps_tol)"'
        if got == ["params = {'MSK_DPAR_INTPNT_CO_TOL_DFEAS': eps_tol}", "problem.solve(solver=cp.MOSEK, verbose=verbose, mosek_params=params)"]:
            return 'Some "MOSEK(DFEAS=eps_tol)"'
        if got == ["problem.solve(solver=cp.CVXOPT, verbose=verbose)"]:
            return 'Some "CVXOPT"'
        fail(stmts[0], "solver branch %s" % got)
    return ("Definition gen_cvx_needs_outcomes (t : string) : option bool :=\n  %s.\n\n"
            "Definition gen_cvx_constrained (mode_constraint : string) : option bool :=\n  %s.\n\n"
            "Definition gen_cvx_solver (name_solver : string) : option string :=\n  %s."
            % (chain(v_if[0], "t", br_var), chain(c_if[0], "self.option.mode_constraint", br_con), chain(s_if[0], "name_solver", br_sol)))


HEADER = """(* GENERATED by gen/c11_py2coq.py from the current source of quara -- do not edit *)
From Coq Require Import Arith List Bool String ZArith.
From QV.Core Require Import OF Sums Mat.
From QV.Model Require Import C11_Pgdb.
Import ListNotations.
Open Scope string_scope.

%s

Section Gen_c11.
Context (F : OF).
Notation vec := (@vec F).
Variables (sq : F -> F) (n : nat) (f : vec -> F) (g P : vec -> vec).

Inductive gen_result :=
| Gen_Broke (x_next : vec) (error_values : list F) (k : nat)        (* left the loop through `break` *)
| Gen_Exhausted (x_next : vec) (error_values : list F) (k : nat)    (* range exhausted with is_doing still True *)
| Gen_Fuel (k : nat)                                                (* the while loop ran out of fuel in iteration k (model artefact) *)
| Gen_Unbound.                                                      (* zero iterations: `k` / `x_next` unbound after the loop *)

(* while c a: a = b a   with explicit fuel *)
Fixpoint gen_while (fuel : nat) (c : F -> bool) (b : F -> F) (a : F) : option F :=
  match fuel with
  | O => None
  | S k => if c a then gen_while k c b (b a) else Some a
  end.

%s

%s

%s
End Gen_c11.

Section Gen_c11_cvx.
Context (F : OF).
%s
End Gen_c11_cvx.
"""


def main():
    repo, out = sys.argv[1], sys.argv[2]
    try:
        t1 = ast.parse(open(os.path.join(repo, "quara/minimization_algorithm/projected_gradient_descent_backtracking.py")).read())
        isd = tr_is_doing(get_method(t1, "ProjectedGradientDescentBacktracking", "_is_doing_for_alpha"))
        body, skel = tr_optimize(get_method(t1, "ProjectedGradientDescentBacktracking", "optimize"))
        startmu = tr_start_and_mu(get_method(t1, "ProjectedGradientDescentBacktracking", "optimize"))
    except Unsupported as e:
        print("UNSUPPORTED[pgdb]: %s" % e)
        sys.exit(3)
    try:
        t2 = ast.parse(open(os.path.join(repo, "quara/interface/cvxpy/conversion.py")).read())
        numv = tr_num_var(t2)
        check_generate_variable(t2)
        cons = "\n\n".join([tr_constraints(t2, "generate_cvxpy_constraints_from_cvxpy_variable", "gen_constraints_dense"),
                            tr_constraints(t2, "generate_cvxpy_constraints_from_cvxpy_variable_with_sparsity", "gen_constraints_sparse")])
        t3 = ast.parse(open(os.path.join(repo, "quara/interface/cvxpy/qtomography/standard/loss_function.py")).read())
        t6 = ast.parse(open(os.path.join(repo, "quara/interface/cvxpy/qtomography/standard/minimization_algorithm.py")).read())
        cvxopt = tr_cvx_optimize(t6)
        losses = "\n\n".join([tr_cvx_loss(t3, "CvxpyRelativeEntropy", "gen_cvx_re"), tr_cvx_loss(t3, "CvxpyUniformSquaredError", "gen_cvx_se"),
                              tr_cvx_loss(t3, "CvxpyApproximateRelativeEntropyWithZeroProbabilityTerm", "gen_cvx_are")])
    except Unsupported as e:
        print("UNSUPPORTED[cvx]: %s" % e)
        sys.exit(4)
    try:
        t4 = ast.parse(open(os.path.join(repo, "quara/protocol/qtomography/standard/loss_minimization_estimator.py")).read())
        est1 = tr_estimator(t4, "LossMinimizationEstimator", "gen_estimate_sequence",
                            ["loss.set_from_standard_qtomography_option_data(qtomography, loss_option, empi_dists, algo.is_gradient_required, algo.is_hessian_required)",
                             "algo.set_from_option(algo_option)", "algo.set_constraint_from_standard_qt_and_option(qtomography, algo_option)", "algo.set_from_loss(loss)"],
                            "algo_result = algo.optimize(loss, loss_option, algo_option, on_iteration_history=is_computation_time_required)", "value",
                            "is_computation_time_required=is_computation_time_required, is_detailed_results_required=is_detailed_results_required")
        t5 = ast.parse(open(os.path.join(repo, "quara/interface/cvxpy/qtomography/standard/estimator.py")).read())
        est2 = tr_estimator(t5, "CvxpyLossMinimizationEstimator", "gen_cvx_estimate_sequence",
                            ["loss.set_prob_dists_data_from_empi_dists(empi_dists)", "algo.set_from_loss(loss)"],
                            "algo_result = algo.optimize()", "variable_value", "is_computation_time_required=is_computation_time_required")
    except Unsupported as e:
        print("UNSUPPORTED[estimator]: %s" % e)
        sys.exit(5)
    open(out, "w").write(HEADER % (numv + "\n\n" + cons + "\n\n" + est1 + "\n\n" + est2 + "\n\n" + cvxopt, isd, body, skel, losses + "\n\n" + startmu))


if __name__ == "__main__":
    main()
