#!/usr/bin/env python3
"""Fail-closed translator for the decision logic of quara's loss functions (property C12): Python `ast` -> Gallina.

Translated on every run from the CURRENT source (usage: c12_py2coq.py <repo> <out.v>):
  quara/loss_function/weighted_probability_based_squared_error.py
      WeightedProbabilityBasedSquaredErrorOption.__init__          -> gen_se_option   : option string -> bool -> ores
      WeightedProbabilityBasedSquaredError._set_weights_by_mode    -> gen_se_dispatch : option string -> action
                                                                      gen_place_special / gen_place_rows / gen_place_cols
  quara/loss_function/weighted_relative_entropy.py
      WeightedRelativeEntropyOption.__init__                       -> gen_re_option
      WeightedRelativeEntropy._set_weights_by_mode                 -> gen_re_dispatch
  quara/utils/matrix_util.py
      replace_prob_dist                                            -> gen_replace_prob_dist : nat -> F -> vec -> vec   (any ordered field)

Accepted shapes (anything else raises Unsupported -> the tie is reported broken, never skipped):
  option constructor  __init__(self, mode_weight=None, weights=None, weight_name=None):
      docstring;  `if <cond>: mode_weight = "<const>"` (no else);  `if <cond>: raise ValueError(...)` (no else);
      last statement `super().__init__(mode_weight=mode_weight, weights=weights, weight_name=weight_name)`.
  dispatcher  _set_weights_by_mode(self, mode_weight, data):  docstring;  ONE if / elif / else chain; a branch body is
      `pass` | `self.<setter>(None)` | `self.<setter>(self.option.weights)` |
      `<L> = []` ; `for (num_data, <q>) in data: <body>` ; `self.<setter>(<L>)`   (the inverse-covariance construction).
      In <body> (numerical code, NOT translated, stays differential) exactly one `if <cond on mode_weight>: covariance_mat =
      matrix_util.calc_covariance_mat(<e>, <n>) else: ... (<e>, <n'>)` with <n>, <n'> in {num_data, num_data - 1} decides
      sample / unbiased; mode_weight may not occur anywhere else in <body>; exactly one `if row == a and col == b:
      weight_matrix[0, 0] = <inv>[0, 0] else: weight_matrix[: <u>, : <v>] = <inv>` gives the placement (<u>, <v> integer
      expressions over row, col with + and -); the last statement of <body> is `<L>.append(weight_matrix)`.
  <cond>: `or` / `and` / `not` of  NAME == "const" | NAME != "const" | NAME in [consts] | NAME not in [consts] |
      weights is None | weights is not None        (NAME = mode_weight)
  call skeletons (-> gen_sk_config, gen_se_bodies, gen_re_bodies : lists of guarded events, Model/C12_Skeleton.v):
      ProbabilityBasedLossFunction.set_from_standard_qtomography_option_data and, of the two fast classes,
      _calc_extend_weight_matrix / _calc_extend_weights, set_weight_matrices / set_weights, set_func_prob_dists_from_standard_qt,
      set_func_gradient_prob_dists_from_standard_qt.  Statement -> event: `self.<m>(...)` for the configuration methods, the
      cache rebuild and `self._set_weights_by_mode(option.mode_weight, data)`; `super().<setter>(<param>)`;
      `self._extend_weight_matrix = None`; `return`; `if <guard>: <such statements>` (no else; guards: is_gradient_required,
      is_hessian_required, self.weight_matrices is None, self.weights is not None, self.prob_dists_q is not None); the
      numerical construction of the cache (statements without self-calls that end by storing the cache attribute) is ONE event.
      Whitelisted and not emitted: `self._matA / _vecB = np.copy(qt.calc_matA() / calc_vecB())`, `self._on_func_* = True`,
      `self._update_on_*_true()`, `<name> = [t[1] for t in data]`.  Anything else fails.
  slicing of the stacked forward model (-> gen_pd_pieces, gen_grad_pieces, gen_hess_sizes, gen_helper_rows, gen_helper_grad_row,
      gen_hess_len; Model/C12_Slices.v): ProbabilityBasedLossFunction.set_func_{prob_dists,gradient_prob_dists,hessian_prob_dists}
      _from_standard_qt must be: whitelisted preamble (np.copy of calc_matA / calc_vecB, self._num_var = qt.num_variables,
      num_func = qt.num_schedules, <list> = [], start = <int>), ONE loop `for index in range(num_func)` whose body is
      `stop = <e>` ; `func = self.<helper>(matA[<e>:<e>], [vecB[same slice],] <e>, <e>)` ; `<list>.append(func)` ; `start = <e>`
      (Hessian: `func = self.<helper>(<e>, index)` ; append), then `self.set_func_*(<list>)`; <e>: + - * over start, stop,
      qt.num_outcomes(index), int constants.  The helpers _generate_func_prob_dist / _generate_func_gradient_prob_dist /
      _generate_func_hessian_prob_dist must return a closure reading `matA[<e>:<e>] @ var + vecB[same slice]`, resp.
      `[matA[<e>, alpha] for prob_dist_index in range(size_prob_dist)]`, resp. `np.array([0.0] * <e>, ...)`; <e> over
      size_prob_dist, index, prob_dist_index.
  replace_prob_dist(prob_dist, eps=None): `eps = eps if eps is not None else <float const>` (the default is a model
      parameter, reported as gen_replace_default_eps_num / _den); `S = prob_dist.shape[0]`;
      `C = np.count_nonzero(prob_dist < eps)`; `R = np.zeros(S)`; `for index, prob in enumerate(prob_dist): if prob < eps:
      R[index] = <e> else: R[index] = <e>`; `return R`; <e>: + - * / over eps, prob, prob_dist[index], S, C and small non-negative int constants.
"""
import ast, sys, os
from fractions import Fraction


class Unsupported(Exception):
    pass


def fail(node, msg):
    raise Unsupported("%s (line %s): %s" % (type(node).__name__, getattr(node, "lineno", "?"), msg))


def coq_str(s):
    if not isinstance(s, str) or any(ord(ch) < 32 or ord(ch) > 126 or ch == '"' for ch in s):
        raise Unsupported("unsupported string constant %r" % (s,))
    return '"%s"' % s


def body_wo_doc(fdef):
    b = list(fdef.body)
    if b and isinstance(b[0], ast.Expr) and isinstance(b[0].value, ast.Constant) and isinstance(b[0].value.value, str):
        b = b[1:]
    return b


def find_class(tree, name):
    for n in tree.body:
        if isinstance(n, ast.ClassDef) and n.name == name:
            return n
    raise Unsupported("class %s not found" % name)


def find_def(scope, name):
    ds = [n for n in scope.body if isinstance(n, ast.FunctionDef) and n.name == name]
    if len(ds) != 1:
        raise Unsupported("expected exactly one def %s, found %d" % (name, len(ds)))
    return ds[0]


def argnames(fdef):
    a = fdef.args
    if a.vararg or a.kwarg or a.kwonlyargs or a.posonlyargs:
        fail(fdef, "unsupported parameter kinds")
    return [x.arg for x in a.args]


# ------------------------------------------------------------------ conditions over mode_weight / weights
def str_list(e):
    if not isinstance(e, (ast.List, ast.Tuple)):
        fail(e, "expected a list of string constants")
    out = []
    for x in e.elts:
        if not (isinstance(x, ast.Constant) and isinstance(x.value, str)):
            fail(x, "expected a string constant")
        out.append(coq_str(x.value))
    return "[" + "; ".join(out) + "]"


def cond(e, mode_var="mode_weight", weights_var=None):
    if isinstance(e, ast.BoolOp):
        op = " || " if isinstance(e.op, ast.Or) else " && "
        return "(" + op.join(cond(v, mode_var, weights_var) for v in e.values) + ")"
    if isinstance(e, ast.UnaryOp) and isinstance(e.op, ast.Not):
        return "(negb %s)" % cond(e.operand, mode_var, weights_var)
    if isinstance(e, ast.Compare) and len(e.ops) == 1 and isinstance(e.left, ast.Name):
        op, rhs = e.ops[0], e.comparators[0]
        if e.left.id == mode_var:
            if isinstance(op, (ast.Eq, ast.NotEq)) and isinstance(rhs, ast.Constant) and isinstance(rhs.value, str):
                c = "(oeqb mode_weight %s)" % coq_str(rhs.value)
                return c if isinstance(op, ast.Eq) else "(negb %s)" % c
            if isinstance(op, (ast.In, ast.NotIn)):
                c = "(omem mode_weight %s)" % str_list(rhs)
                return c if isinstance(op, ast.In) else "(negb %s)" % c
        if weights_var is not None and e.left.id == weights_var and isinstance(rhs, ast.Constant) and rhs.value is None:
            if isinstance(op, ast.IsNot):
                return "has_weights"
            if isinstance(op, ast.Is):
                return "(negb has_weights)"
    fail(e, "unsupported condition")


# ------------------------------------------------------------------ option constructors
def tr_option(cls, coq_name):
    f = find_def(cls, "__init__")
    if argnames(f) != ["self", "mode_weight", "weights", "weight_name"]:
        fail(f, "unexpected parameters %s" % argnames(f))
    stmts = body_wo_doc(f)
    if not stmts:
        fail(f, "empty body")
    last = stmts[-1]
    ok = (isinstance(last, ast.Expr) and isinstance(last.value, ast.Call) and isinstance(last.value.func, ast.Attribute)
          and last.value.func.attr == "__init__" and isinstance(last.value.func.value, ast.Call)
          and isinstance(last.value.func.value.func, ast.Name) and last.value.func.value.func.id == "super"
          and not last.value.args)
    if ok:
        kw = {k.arg: k.value for k in last.value.keywords}
        ok = sorted(kw) == ["mode_weight", "weight_name", "weights"] and all(isinstance(v, ast.Name) and v.id == k for k, v in kw.items())
    if not ok:
        fail(last, "last statement must be super().__init__(mode_weight=mode_weight, weights=weights, weight_name=weight_name)")
    out = "OOk mode_weight"
    for st in reversed(stmts[:-1]):
        if not (isinstance(st, ast.If) and not st.orelse and len(st.body) == 1):
            fail(st, "only `if <cond>: <one statement>` without else is supported here")
        c = cond(st.test, "mode_weight", "weights")
        b = st.body[0]
        if isinstance(b, ast.Raise):
            if not (isinstance(b.exc, ast.Call) and isinstance(b.exc.func, ast.Name) and b.exc.func.id == "ValueError"):
                fail(b, "only raise ValueError(...)")
            out = "if %s then ORaise else (%s)" % (c, out)
        elif (isinstance(b, ast.Assign) and len(b.targets) == 1 and isinstance(b.targets[0], ast.Name) and b.targets[0].id == "mode_weight"
              and isinstance(b.value, ast.Constant) and isinstance(b.value.value, str)):
            out = "let mode_weight := if %s then Some %s else mode_weight in (%s)" % (c, coq_str(b.value.value), out)
        else:
            fail(b, "unsupported statement in option constructor")
    return "Definition %s (mode_weight : option string) (has_weights : bool) : ores :=\n  %s.\n" % (coq_name, out)


# ------------------------------------------------------------------ dispatchers
def names_in(node):
    return [n.id for n in ast.walk(node) if isinstance(n, ast.Name)]


def is_setter_call(st, setter):
    return (isinstance(st, ast.Expr) and isinstance(st.value, ast.Call) and isinstance(st.value.func, ast.Attribute)
            and st.value.func.attr == setter and isinstance(st.value.func.value, ast.Name) and st.value.func.value.id == "self"
            and len(st.value.args) == 1 and not st.value.keywords)


def int_expr(e):
    if isinstance(e, ast.Constant) and type(e.value) is int:
        return "(%d)" % e.value
    if isinstance(e, ast.Name) and e.id in ("row", "col"):
        return e.id
    if isinstance(e, ast.BinOp) and isinstance(e.op, (ast.Add, ast.Sub)):
        return "(%s %s %s)" % (int_expr(e.left), "+" if isinstance(e.op, ast.Add) else "-", int_expr(e.right))
    fail(e, "unsupported integer expression in the placement")


class Placement:
    def __init__(self):
        self.special = self.rows = self.cols = None


def tr_inverse_loop(loop, acc_name, placement):
    """-> coq bool expression 'unbiased' (may depend on mode_weight)"""
    if not (isinstance(loop.target, ast.Tuple) and len(loop.target.elts) == 2 and all(isinstance(x, ast.Name) for x in loop.target.elts)
            and loop.target.elts[0].id == "num_data" and isinstance(loop.iter, ast.Name) and loop.iter.id == "data" and not loop.orelse):
        fail(loop, "expected `for (num_data, <q>) in data:`")
    ub = None
    nplace = 0
    for st in loop.body:
        uses_mode = "mode_weight" in names_in(st)
        if isinstance(st, ast.If) and uses_mode:
            if ub is not None:
                fail(st, "mode_weight is consulted more than once inside the loop")
            c = cond(st.test)

            def branch(body):
                if not (len(body) == 1 and isinstance(body[0], ast.Assign) and len(body[0].targets) == 1
                        and isinstance(body[0].targets[0], ast.Name) and body[0].targets[0].id == "covariance_mat"):
                    fail(st, "a branch on mode_weight inside the loop must be `covariance_mat = matrix_util.calc_covariance_mat(q, n)`")
                v = body[0].value
                if not (isinstance(v, ast.Call) and isinstance(v.func, ast.Attribute) and v.func.attr == "calc_covariance_mat"
                        and len(v.args) == 2 and not v.keywords and isinstance(v.args[0], ast.Name) and v.args[0].id == "empi_dist"):
                    fail(v, "expected matrix_util.calc_covariance_mat(empi_dist, n)")
                n = v.args[1]
                if isinstance(n, ast.Name) and n.id == "num_data":
                    return "false"
                if (isinstance(n, ast.BinOp) and isinstance(n.op, ast.Sub) and isinstance(n.left, ast.Name) and n.left.id == "num_data"
                        and isinstance(n.right, ast.Constant) and n.right.value == 1 and type(n.right.value) is int):
                    return "true"
                fail(n, "divisor must be num_data or num_data - 1")
            if not st.orelse:
                fail(st, "missing else branch")
            ub = "(if %s then %s else %s)" % (c, branch(st.body), branch(st.orelse))
        elif uses_mode:
            fail(st, "mode_weight may only be consulted by the covariance selection")
        elif isinstance(st, ast.If):
            # the placement
            t = st.test
            ok = (isinstance(t, ast.BoolOp) and isinstance(t.op, ast.And) and len(t.values) == 2
                  and all(isinstance(v, ast.Compare) and len(v.ops) == 1 and isinstance(v.ops[0], ast.Eq) and isinstance(v.left, ast.Name)
                          and isinstance(v.comparators[0], ast.Constant) and type(v.comparators[0].value) is int for v in t.values)
                  and [v.left.id for v in t.values] == ["row", "col"])
            if not ok or len(st.body) != 1 or len(st.orelse) != 1:
                fail(st, "unsupported if inside the loop (expected the placement `if row == a and col == b: ... else: ...`)")
            placement.special = "((row =? %d) && (col =? %d))%%Z" % (t.values[0].comparators[0].value, t.values[1].comparators[0].value)
            sp, ge = st.body[0], st.orelse[0]

            def sub_target(a):
                if not (isinstance(a, ast.Assign) and len(a.targets) == 1 and isinstance(a.targets[0], ast.Subscript)
                        and isinstance(a.targets[0].value, ast.Name) and a.targets[0].value.id == "weight_matrix"
                        and isinstance(a.targets[0].slice, ast.Tuple) and len(a.targets[0].slice.elts) == 2):
                    fail(a, "expected an assignment to weight_matrix[., .]")
                return a.targets[0].slice.elts, a.value
            (i0, i1), v0 = sub_target(sp)
            okc = (all(isinstance(i, ast.Constant) and i.value == 0 and type(i.value) is int for i in (i0, i1))
                   and isinstance(v0, ast.Subscript) and isinstance(v0.value, ast.Name) and v0.value.id == "extracted_mat_inv"
                   and isinstance(v0.slice, ast.Tuple) and all(isinstance(i, ast.Constant) and i.value == 0 and type(i.value) is int for i in v0.slice.elts))
            if not okc:
                fail(sp, "special placement must be weight_matrix[0, 0] = extracted_mat_inv[0, 0]")
            (s0, s1), v1 = sub_target(ge)
            if not (isinstance(v1, ast.Name) and v1.id == "extracted_mat_inv"
                    and all(isinstance(s_, ast.Slice) and s_.lower is None and s_.step is None and s_.upper is not None for s_ in (s0, s1))):
                fail(ge, "general placement must be weight_matrix[: u, : v] = extracted_mat_inv")
            placement.rows = int_expr(s0.upper); placement.cols = int_expr(s1.upper)
            nplace += 1
        elif isinstance(st, (ast.Assign, ast.Expr)):
            for sub in ast.walk(st):
                if isinstance(sub, ast.Subscript) and isinstance(sub.value, ast.Name) and sub.value.id == "weight_matrix" and isinstance(sub.ctx, ast.Store):
                    fail(st, "weight_matrix may only be written by the placement if / else")
        else:
            fail(st, "unsupported statement inside the inverse-covariance loop")
    last = loop.body[-1]
    if not (isinstance(last, ast.Expr) and isinstance(last.value, ast.Call) and isinstance(last.value.func, ast.Attribute)
            and last.value.func.attr == "append" and isinstance(last.value.func.value, ast.Name) and last.value.func.value.id == acc_name
            and len(last.value.args) == 1 and isinstance(last.value.args[0], ast.Name) and last.value.args[0].id == "weight_matrix"):
        fail(last, "the loop must end with <acc>.append(weight_matrix)")
    if ub is None:
        fail(loop, "no sample / unbiased selection found inside the loop")
    if nplace != 1:
        fail(loop, "expected exactly one placement if / else inside the loop, found %d" % nplace)
    return ub


def tr_branch(body, setter, placement):
    if len(body) == 1 and isinstance(body[0], ast.Pass):
        return "APass"
    if len(body) == 1 and is_setter_call(body[0], setter):
        a = body[0].value.args[0]
        if isinstance(a, ast.Constant) and a.value is None:
            return "AReset"
        if (isinstance(a, ast.Attribute) and a.attr == "weights" and isinstance(a.value, ast.Attribute) and a.value.attr == "option"
                and isinstance(a.value.value, ast.Name) and a.value.value.id == "self"):
            return "ACustom"
        fail(a, "unsupported argument of the weight setter")
    if (len(body) == 3 and isinstance(body[0], ast.Assign) and len(body[0].targets) == 1 and isinstance(body[0].targets[0], ast.Name)
            and isinstance(body[0].value, ast.List) and not body[0].value.elts and isinstance(body[1], ast.For) and is_setter_call(body[2], setter)
            and isinstance(body[2].value.args[0], ast.Name) and body[2].value.args[0].id == body[0].targets[0].id):
        return "AInverse %s" % tr_inverse_loop(body[1], body[0].targets[0].id, placement)
    if len(body) == 1 and isinstance(body[0], ast.If):
        return tr_chain(body[0], setter, placement)
    fail(body[0], "unsupported branch body of _set_weights_by_mode")


def tr_chain(node, setter, placement):
    c = cond(node.test)
    then = tr_branch(node.body, setter, placement)
    if not node.orelse:
        els = "ANoBranch"
    else:
        els = tr_branch(node.orelse, setter, placement)
    return "if %s then %s\n  else %s" % (c, then, els)


def tr_dispatch(cls, coq_name, setter, placement):
    f = find_def(cls, "_set_weights_by_mode")
    if argnames(f) != ["self", "mode_weight", "data"]:
        fail(f, "unexpected parameters %s" % argnames(f))
    stmts = body_wo_doc(f)
    if len(stmts) != 1 or not isinstance(stmts[0], ast.If):
        fail(f, "body must be one if / elif / else chain")
    return "Definition %s (mode_weight : option string) : action :=\n  %s.\n" % (coq_name, tr_chain(stmts[0], setter, placement))


# ------------------------------------------------------------------ replace_prob_dist
def tr_replace(fdef):
    if argnames(fdef) != ["prob_dist", "eps"]:
        fail(fdef, "unexpected parameters %s" % argnames(fdef))
    st = body_wo_doc(fdef)
    if len(st) != 6:
        fail(fdef, "expected 6 statements, found %d" % len(st))
    # eps = eps if eps is not None else <const>
    s0 = st[0]
    ok = (isinstance(s0, ast.Assign) and isinstance(s0.targets[0], ast.Name) and s0.targets[0].id == "eps" and isinstance(s0.value, ast.IfExp)
          and isinstance(s0.value.body, ast.Name) and s0.value.body.id == "eps" and isinstance(s0.value.orelse, ast.Constant)
          and type(s0.value.orelse.value) is float and isinstance(s0.value.test, ast.Compare) and isinstance(s0.value.test.left, ast.Name)
          and s0.value.test.left.id == "eps" and isinstance(s0.value.test.ops[0], ast.IsNot)
          and isinstance(s0.value.test.comparators[0], ast.Constant) and s0.value.test.comparators[0].value is None)
    if not ok:
        fail(s0, "expected `eps = eps if eps is not None else <float>`")
    default = Fraction(*s0.value.orelse.value.as_integer_ratio())
    # S = prob_dist.shape[0]
    s1 = st[1]
    ok = (isinstance(s1, ast.Assign) and isinstance(s1.targets[0], ast.Name) and isinstance(s1.value, ast.Subscript)
          and isinstance(s1.value.value, ast.Attribute) and s1.value.value.attr == "shape" and isinstance(s1.value.value.value, ast.Name)
          and s1.value.value.value.id == "prob_dist" and isinstance(s1.value.slice, ast.Constant) and s1.value.slice.value == 0)
    if not ok:
        fail(s1, "expected `<S> = prob_dist.shape[0]`")
    S = s1.targets[0].id
    # C = np.count_nonzero(prob_dist < eps)
    s2 = st[2]
    ok = (isinstance(s2, ast.Assign) and isinstance(s2.targets[0], ast.Name) and isinstance(s2.value, ast.Call)
          and isinstance(s2.value.func, ast.Attribute) and s2.value.func.attr == "count_nonzero" and len(s2.value.args) == 1
          and isinstance(s2.value.args[0], ast.Compare) and isinstance(s2.value.args[0].ops[0], ast.Lt)
          and isinstance(s2.value.args[0].left, ast.Name) and s2.value.args[0].left.id == "prob_dist"
          and isinstance(s2.value.args[0].comparators[0], ast.Name) and s2.value.args[0].comparators[0].id == "eps")
    if not ok:
        fail(s2, "expected `<C> = np.count_nonzero(prob_dist < eps)`")
    C = s2.targets[0].id
    # R = np.zeros(S)
    s3 = st[3]
    ok = (isinstance(s3, ast.Assign) and isinstance(s3.targets[0], ast.Name) and isinstance(s3.value, ast.Call)
          and isinstance(s3.value.func, ast.Attribute) and s3.value.func.attr == "zeros" and len(s3.value.args) == 1
          and isinstance(s3.value.args[0], ast.Name) and s3.value.args[0].id == S)
    if not ok:
        fail(s3, "expected `<R> = np.zeros(<S>)`")
    Rn = s3.targets[0].id
    # loop
    s4 = st[4]
    ok = (isinstance(s4, ast.For) and isinstance(s4.target, ast.Tuple) and [getattr(x, "id", None) for x in s4.target.elts] == ["index", "prob"]
          and isinstance(s4.iter, ast.Call) and isinstance(s4.iter.func, ast.Name) and s4.iter.func.id == "enumerate"
          and len(s4.iter.args) == 1 and isinstance(s4.iter.args[0], ast.Name) and s4.iter.args[0].id == "prob_dist"
          and len(s4.body) == 1 and isinstance(s4.body[0], ast.If) and not s4.orelse)
    if not ok:
        fail(s4, "expected `for index, prob in enumerate(prob_dist): if ...: ... else: ...`")
    iff = s4.body[0]

    def fexpr(e):
        if isinstance(e, ast.Name) and e.id in ("eps", "prob"):
            return e.id
        if isinstance(e, ast.Name) and e.id == S:
            return "(of_nat F size_prob_dist)"
        if isinstance(e, ast.Name) and e.id == C:
            return "(of_nat F count_replace)"
        if (isinstance(e, ast.Subscript) and isinstance(e.value, ast.Name) and e.value.id == "prob_dist"
                and isinstance(e.slice, ast.Name) and e.slice.id == "index"):
            return "(prob_dist index)"
        if isinstance(e, ast.Constant) and type(e.value) is int and 0 <= e.value <= 1000:
            return "(of_nat F %d)" % e.value
        if isinstance(e, ast.BinOp) and isinstance(e.op, (ast.Add, ast.Sub, ast.Mult, ast.Div)):
            fn = {ast.Add: "cadd F", ast.Sub: "csub F", ast.Mult: "cmul F", ast.Div: "kdiv F"}[type(e.op)]
            return "(%s %s %s)" % (fn, fexpr(e.left), fexpr(e.right))
        fail(e, "unsupported arithmetic expression in replace_prob_dist")

    def fcond(e):
        if (isinstance(e, ast.Compare) and len(e.ops) == 1 and isinstance(e.ops[0], ast.Lt)):
            return "(ltb F %s %s)" % (fexpr(e.left), fexpr(e.comparators[0]))
        fail(e, "unsupported condition in replace_prob_dist")

    def store(body):
        if not (len(body) == 1 and isinstance(body[0], ast.Assign) and isinstance(body[0].targets[0], ast.Subscript)
                and isinstance(body[0].targets[0].value, ast.Name) and body[0].targets[0].value.id == Rn
                and isinstance(body[0].targets[0].slice, ast.Name) and body[0].targets[0].slice.id == "index"):
            fail(body[0], "expected `<R>[index] = <expr>`")
        return fexpr(body[0].value)
    c = fcond(iff.test); a = store(iff.body); b = store(iff.orelse)
    s5 = st[5]
    if not (isinstance(s5, ast.Return) and isinstance(s5.value, ast.Name) and s5.value.id == Rn):
        fail(s5, "expected `return <R>`")
    txt = ("Definition gen_replace_default_eps_num : Z := (%d)%%Z.\nDefinition gen_replace_default_eps_den : Z := (%d)%%Z.\n"
           % (default.numerator, default.denominator))
    txt += ("Section GenReplace.\nContext (F : OF).\n"
            "Definition gen_replace_prob_dist (size_prob_dist : nat) (eps : F) (prob_dist : @vec F) : @vec F :=\n"
            "  let count_replace := count_lt F size_prob_dist prob_dist eps in\n"
            "  fun index => let prob := prob_dist index in\n"
            "    if %s then %s\n    else %s.\nEnd GenReplace.\n" % (c, a, b))
    return txt


# ------------------------------------------------------------------ call skeletons
CALL_EVENTS = {"set_from_option": "KSetFromOption", "set_prob_dists_q": "KSetQ", "set_func_prob_dists_from_standard_qt": "KSetFunc",
               "set_func_gradient_prob_dists_from_standard_qt": "KSetGrad", "set_func_hessian_prob_dists_from_standard_qt": "KSetHess",
               "_set_weights_by_mode": "KSetWeightsByMode", "_calc_extend_weight_matrix": "KCalcCache", "_calc_extend_weights": "KCalcCache"}
NEUTRAL_CALLS = {"_update_on_value_true", "_update_on_gradient_true", "_update_on_hessian_true"}
SUPER_EVENTS = {"set_weight_matrices": "KSuperSetWeights", "set_weights": "KSuperSetWeights", "set_prob_dists_q": "KSuperSetQ"}
CACHE_ATTRS = {"_extend_weight_matrix", "_extend_weights"}


def self_attr(e):
    return e.attr if isinstance(e, ast.Attribute) and isinstance(e.value, ast.Name) and e.value.id == "self" else None


def sk_guard(t):
    if isinstance(t, ast.Name) and t.id == "is_gradient_required":
        return "GGrad"
    if isinstance(t, ast.Name) and t.id == "is_hessian_required":
        return "GHess"
    if (isinstance(t, ast.Compare) and len(t.ops) == 1 and isinstance(t.comparators[0], ast.Constant) and t.comparators[0].value is None):
        a = self_attr(t.left)
        if a == "weight_matrices" and isinstance(t.ops[0], ast.Is):
            return "GNoWeights"
        if a == "weights" and isinstance(t.ops[0], ast.IsNot):
            return "GHasWeights"
        if a == "prob_dists_q" and isinstance(t.ops[0], ast.IsNot):
            return "GHasQ"
    fail(t, "unsupported guard in a call skeleton")


def is_numeric_build(stmts):
    """statements without self-calls / stores to other self attributes that end by storing a cache attribute"""
    if not stmts:
        return False
    last = stmts[-1]
    if not (isinstance(last, ast.Assign) and len(last.targets) == 1 and self_attr(last.targets[0]) in CACHE_ATTRS
            and not (isinstance(last.value, ast.Constant) and last.value.value is None)):
        return False
    for st in stmts:
        if not isinstance(st, (ast.Assign, ast.AugAssign, ast.For, ast.Expr)):
            return False
        for n in ast.walk(st):
            if isinstance(n, ast.Call) and isinstance(n.func, ast.Attribute) and isinstance(n.func.value, ast.Name) and n.func.value.id == "self":
                return False
            if isinstance(n, ast.Attribute) and isinstance(n.ctx, ast.Store) and isinstance(n.value, ast.Name) and n.value.id == "self" and not (n is last.targets[0]):
                return False
            if isinstance(n, (ast.Return, ast.Raise)):
                return False
    return True


def sk_stmts(stmts, guard, params, fname):
    out = []
    i = 0
    while i < len(stmts):
        st = stmts[i]
        if isinstance(st, ast.If):
            if guard != "GAlways" or st.orelse:
                fail(st, "nested / else-carrying if in a call skeleton")
            g = sk_guard(st.test)
            if is_numeric_build(st.body):
                out.append("(%s, KBuildCache)" % g)
            else:
                out += sk_stmts(st.body, g, params, fname)
        elif isinstance(st, ast.Return):
            if st.value is not None:
                fail(st, "return with a value")
            out.append("(%s, KReturn)" % guard)
        elif isinstance(st, ast.Expr) and isinstance(st.value, ast.Call) and isinstance(st.value.func, ast.Attribute):
            c = st.value; f = c.func
            if isinstance(f.value, ast.Name) and f.value.id == "self":
                if f.attr in NEUTRAL_CALLS and not c.args and not c.keywords:
                    pass
                elif f.attr in CALL_EVENTS and not c.keywords:
                    if f.attr == "_set_weights_by_mode":
                        ok = (len(c.args) == 2 and isinstance(c.args[0], ast.Attribute) and c.args[0].attr == "mode_weight"
                              and isinstance(c.args[0].value, ast.Name) and c.args[0].value.id == "option"
                              and isinstance(c.args[1], ast.Name) and c.args[1].id == "data")
                        if not ok:
                            fail(c, "_set_weights_by_mode must be called with (option.mode_weight, data)")
                    elif f.attr in ("_calc_extend_weight_matrix", "_calc_extend_weights"):
                        if c.args:
                            fail(c, "unexpected arguments")
                    elif not (len(c.args) == 1 and isinstance(c.args[0], ast.Name) and c.args[0].id in params):
                        fail(c, "unexpected argument of self.%s" % f.attr)
                    out.append("(%s, %s)" % (guard, CALL_EVENTS[f.attr]))
                else:
                    fail(c, "unsupported call self.%s in a call skeleton" % f.attr)
            elif (isinstance(f.value, ast.Call) and isinstance(f.value.func, ast.Name) and f.value.func.id == "super" and not f.value.args
                  and f.attr in SUPER_EVENTS and f.attr == fname and len(c.args) == 1 and isinstance(c.args[0], ast.Name) and c.args[0].id in params):
                out.append("(%s, %s)" % (guard, SUPER_EVENTS[f.attr]))
            else:
                fail(c, "unsupported call in a call skeleton")
        elif isinstance(st, ast.Assign) and len(st.targets) == 1:
            a = self_attr(st.targets[0])
            if a in CACHE_ATTRS and isinstance(st.value, ast.Constant) and st.value.value is None:
                out.append("(%s, KClearCache)" % guard)
            elif a is not None and a.startswith("_on_func_") and isinstance(st.value, ast.Constant) and st.value.value is True:
                pass
            elif (a in ("_matA", "_vecB") and isinstance(st.value, ast.Call) and isinstance(st.value.func, ast.Attribute) and st.value.func.attr == "copy"
                  and len(st.value.args) == 1 and isinstance(st.value.args[0], ast.Call) and isinstance(st.value.args[0].func, ast.Attribute)
                  and st.value.args[0].func.attr == {"_matA": "calc_matA", "_vecB": "calc_vecB"}[a]):
                pass
            elif (isinstance(st.targets[0], ast.Name) and isinstance(st.value, ast.ListComp) and len(st.value.generators) == 1
                  and isinstance(st.value.generators[0].iter, ast.Name) and st.value.generators[0].iter.id == "data" and not st.value.generators[0].ifs
                  and isinstance(st.value.elt, ast.Subscript) and isinstance(st.value.elt.slice, ast.Constant) and st.value.elt.slice.value == 1):
                params = params | {st.targets[0].id}
            elif guard == "GAlways" and is_numeric_build(stmts[i:]):
                out.append("(GAlways, KBuildCache)")
                return out
            else:
                fail(st, "unsupported assignment in a call skeleton")
        elif guard == "GAlways" and is_numeric_build(stmts[i:]):
            out.append("(GAlways, KBuildCache)")
            return out
        else:
            fail(st, "unsupported statement in a call skeleton")
        i += 1
    return out


def tr_skeleton(cls, name):
    f = find_def(cls, name)
    params = set(argnames(f)) - {"self"}
    return "[" + "; ".join(sk_stmts(body_wo_doc(f), "GAlways", params, name)) + "]"


def tr_bodies(cls, coq_name, calc, setter):
    return ("Definition %s : se_bodies :=\n  {| sb_calc := %s;\n     sb_setter := %s;\n     sb_func := %s;\n     sb_grad := %s |}.\n"
            % (coq_name, tr_skeleton(cls, calc), tr_skeleton(cls, setter), tr_skeleton(cls, "set_func_prob_dists_from_standard_qt"),
               tr_skeleton(cls, "set_func_gradient_prob_dists_from_standard_qt")))


# ------------------------------------------------------------------ slicing of the stacked forward model
def nat_expr(e, env):
    if isinstance(e, ast.Constant) and type(e.value) is int and 0 <= e.value <= 1000:
        return "%d" % e.value
    if isinstance(e, ast.Name) and e.id in env:
        return env[e.id]
    if (isinstance(e, ast.Call) and isinstance(e.func, ast.Attribute) and e.func.attr == "num_outcomes" and isinstance(e.func.value, ast.Name)
            and e.func.value.id == "qt" and len(e.args) == 1 and isinstance(e.args[0], ast.Name) and e.args[0].id == "index" and "__n" in env):
        return env["__n"]
    if isinstance(e, ast.BinOp) and isinstance(e.op, (ast.Add, ast.Sub, ast.Mult)):
        return "(%s %s %s)" % (nat_expr(e.left, env), {ast.Add: "+", ast.Sub: "-", ast.Mult: "*"}[type(e.op)], nat_expr(e.right, env))
    fail(e, "unsupported index expression")


def slice_bounds(sub, arr, env):
    if not (isinstance(sub, ast.Subscript) and isinstance(sub.value, ast.Name) and sub.value.id == arr and isinstance(sub.slice, ast.Slice)
            and sub.slice.step is None and sub.slice.lower is not None and sub.slice.upper is not None):
        fail(sub, "expected %s[<lo>:<hi>]" % arr)
    return nat_expr(sub.slice.lower, env), nat_expr(sub.slice.upper, env)


def is_pre_ok(st):
    if isinstance(st, ast.Assign) and len(st.targets) == 1:
        t, v = st.targets[0], st.value
        if isinstance(t, ast.Name) and t.id in ("matA", "vecB") and isinstance(v, ast.Call) and isinstance(v.func, ast.Attribute) and v.func.attr == "copy":
            return True
        if self_attr(t) == "_num_var" and isinstance(v, ast.Attribute) and v.attr == "num_variables":
            return True
        if isinstance(t, ast.Name) and t.id == "num_func" and isinstance(v, ast.Attribute) and v.attr == "num_schedules":
            return True
        if isinstance(t, ast.Name) and isinstance(v, ast.List) and not v.elts:
            return True
    return False


def tr_slicer(cls, meth, helper, kind, coq_name):
    f = find_def(cls, meth)
    st = body_wo_doc(f)
    loops = [x for x in st if isinstance(x, ast.For)]
    if len(loops) != 1:
        fail(f, "expected exactly one loop")
    li = st.index(loops[0]); loop = loops[0]
    init = None
    for x in st[:li]:
        if isinstance(x, ast.Assign) and len(x.targets) == 1 and isinstance(x.targets[0], ast.Name) and x.targets[0].id == "start":
            init = nat_expr(x.value, {})
        elif not is_pre_ok(x):
            fail(x, "unsupported statement before the loop")
    post = st[li + 1:]
    if not (len(post) == 1 and isinstance(post[0], ast.Expr) and isinstance(post[0].value, ast.Call) and self_attr(post[0].value.func) is not None
            and len(post[0].value.args) == 1 and isinstance(post[0].value.args[0], ast.Name)):
        fail(f, "expected a single self.set_func_*(<list>) after the loop")
    acc = post[0].value.args[0].id
    if not (isinstance(loop.target, ast.Name) and loop.target.id == "index" and isinstance(loop.iter, ast.Call) and isinstance(loop.iter.func, ast.Name)
            and loop.iter.func.id == "range" and len(loop.iter.args) == 1 and isinstance(loop.iter.args[0], ast.Name) and loop.iter.args[0].id == "num_func"
            and not loop.orelse):
        fail(loop, "expected `for index in range(num_func)`")
    b = loop.body

    def is_append(x):
        return (isinstance(x, ast.Expr) and isinstance(x.value, ast.Call) and isinstance(x.value.func, ast.Attribute) and x.value.func.attr == "append"
                and isinstance(x.value.func.value, ast.Name) and x.value.func.value.id == acc and len(x.value.args) == 1
                and isinstance(x.value.args[0], ast.Name) and x.value.args[0].id == "func")

    def helper_call(x, nargs):
        ok = (isinstance(x, ast.Assign) and len(x.targets) == 1 and isinstance(x.targets[0], ast.Name) and x.targets[0].id == "func"
              and isinstance(x.value, ast.Call) and self_attr(x.value.func) == helper and len(x.value.args) == nargs and not x.value.keywords)
        if not ok:
            fail(x, "expected func = self.%s(<%d arguments>)" % (helper, nargs))
        return x.value.args
    if kind == "hess":
        if init is not None or len(b) != 2 or not is_append(b[1]):
            fail(loop, "unexpected loop body (Hessian)")
        a = helper_call(b[0], 2)
        if not (isinstance(a[1], ast.Name) and a[1].id == "index"):
            fail(a[1], "second argument must be index")
        return "Definition %s (sizes : list nat) : list nat := map (fun n : nat => %s) sizes.\n" % (coq_name, nat_expr(a[0], {"__n": "n"}))
    if init is None or len(b) != 4 or not is_append(b[2]):
        fail(loop, "unexpected loop body")
    if not (isinstance(b[0], ast.Assign) and isinstance(b[0].targets[0], ast.Name) and b[0].targets[0].id == "stop"):
        fail(b[0], "expected stop = <e>")
    stop = nat_expr(b[0].value, {"start": "start", "__n": "n"})
    env = {"start": "start", "stop": "stop", "__n": "n"}
    a = helper_call(b[1], 4 if kind == "pd" else 3)
    lo, hi = slice_bounds(a[0], "matA", env)
    if kind == "pd":
        if slice_bounds(a[1], "vecB", env) != (lo, hi):
            fail(a[1], "vecB must be sliced like matA")
        sz, ix = nat_expr(a[2], env), nat_expr(a[3], env)
    else:
        sz, ix = nat_expr(a[1], env), nat_expr(a[2], env)
    if not (isinstance(b[3], ast.Assign) and isinstance(b[3].targets[0], ast.Name) and b[3].targets[0].id == "start"):
        fail(b[3], "expected start = <e>")
    nxt = nat_expr(b[3].value, env)
    return ("Fixpoint %s_from (start : nat) (sizes : list nat) : list (nat * nat * nat * nat) :=\n  match sizes with\n  | [] => []\n"
            "  | n :: t => let stop := %s in (%s, %s, %s, %s) :: %s_from %s t\n  end.\n"
            "Definition %s (sizes : list nat) := %s_from %s sizes.\n" % (coq_name, stop, lo, hi, sz, ix, coq_name, nxt, coq_name, coq_name, init))


def tr_helpers(cls):
    env = {"size_prob_dist": "size_prob_dist", "index": "index", "prob_dist_index": "prob_dist_index"}

    def inner(name, params):
        f = find_def(cls, name)
        if argnames(f) != ["self"] + params:
            fail(f, "unexpected parameters %s" % argnames(f))
        b = body_wo_doc(f)
        if not (len(b) == 2 and isinstance(b[0], ast.FunctionDef) and isinstance(b[1], ast.Return) and isinstance(b[1].value, ast.Name) and b[1].value.id == b[0].name):
            fail(f, "expected a closure definition and its return")
        return b[0]
    # prob dist
    p = inner("_generate_func_prob_dist", ["matA", "vecB", "size_prob_dist", "index"])
    pb = body_wo_doc(p)
    ok = (len(pb) == 1 and isinstance(pb[0], ast.Return) and isinstance(pb[0].value, ast.BinOp) and isinstance(pb[0].value.op, ast.Add)
          and isinstance(pb[0].value.left, ast.BinOp) and isinstance(pb[0].value.left.op, ast.MatMult)
          and isinstance(pb[0].value.left.right, ast.Name) and pb[0].value.left.right.id == "var")
    if not ok:
        fail(p, "expected `return matA[lo:hi] @ var + vecB[lo:hi]`")
    lo, hi = slice_bounds(pb[0].value.left.left, "matA", env)
    if slice_bounds(pb[0].value.right, "vecB", env) != (lo, hi):
        fail(p, "vecB must be sliced like matA")
    out = "Definition gen_helper_rows (size_prob_dist index : nat) : nat * nat := (%s, %s).\n" % (lo, hi)
    # gradient
    g = inner("_generate_func_gradient_prob_dist", ["matA", "size_prob_dist", "index"])
    gb = body_wo_doc(g)
    ok = (len(gb) == 2 and isinstance(gb[0], ast.Assign) and isinstance(gb[0].value, ast.ListComp) and len(gb[0].value.generators) == 1
          and isinstance(gb[0].value.generators[0].target, ast.Name) and gb[0].value.generators[0].target.id == "prob_dist_index"
          and not gb[0].value.generators[0].ifs and isinstance(gb[0].value.generators[0].iter, ast.Call)
          and isinstance(gb[0].value.generators[0].iter.func, ast.Name) and gb[0].value.generators[0].iter.func.id == "range"
          and len(gb[0].value.generators[0].iter.args) == 1 and isinstance(gb[0].value.generators[0].iter.args[0], ast.Name)
          and gb[0].value.generators[0].iter.args[0].id == "size_prob_dist" and isinstance(gb[1], ast.Return))
    elt = gb[0].value.elt if ok else None
    ok = ok and (isinstance(elt, ast.Subscript) and isinstance(elt.value, ast.Name) and elt.value.id == "matA" and isinstance(elt.slice, ast.Tuple)
                 and len(elt.slice.elts) == 2 and isinstance(elt.slice.elts[1], ast.Name) and elt.slice.elts[1].id == "alpha")
    if not ok:
        fail(g, "expected `[matA[<row>, alpha] for prob_dist_index in range(size_prob_dist)]`")
    out += "Definition gen_helper_grad_row (size_prob_dist index prob_dist_index : nat) : nat := %s.\n" % nat_expr(elt.slice.elts[0], env)
    # hessian
    h = inner("_generate_func_hessian_prob_dist", ["size_prob_dist", "index"])
    hb = body_wo_doc(h)
    ok = (len(hb) == 1 and isinstance(hb[0], ast.Return) and isinstance(hb[0].value, ast.Call) and len(hb[0].value.args) == 1
          and isinstance(hb[0].value.args[0], ast.BinOp) and isinstance(hb[0].value.args[0].op, ast.Mult)
          and isinstance(hb[0].value.args[0].left, ast.List) and len(hb[0].value.args[0].left.elts) == 1
          and isinstance(hb[0].value.args[0].left.elts[0], ast.Constant) and hb[0].value.args[0].left.elts[0].value == 0.0)
    if not ok:
        fail(h, "expected `return np.array([0.0] * <e>, ...)`")
    out += "Definition gen_hess_len (size_prob_dist index : nat) : nat := %s.\n" % nat_expr(hb[0].value.args[0].right, env)
    return out


def main(repo, out):
    def parse(rel):
        return ast.parse(open(os.path.join(repo, rel), encoding="utf-8").read())
    se = parse("quara/loss_function/weighted_probability_based_squared_error.py")
    re_ = parse("quara/loss_function/weighted_relative_entropy.py")
    mu = parse("quara/utils/matrix_util.py")
    pl = Placement(); pl_re = Placement()
    parts = ["(* GENERATED by gen/c12_py2coq.py from the current quara source - do not edit *)",
             "From Coq Require Import String List Bool ZArith Arith.",
             "From QV.Core Require Import OF Sums Mat.",
             "From QV.Model Require Import C12_Loss C12_Dispatch C12_Skeleton.",
             "Import ListNotations.", "Open Scope string_scope.", ""]
    parts.append(tr_option(find_class(se, "WeightedProbabilityBasedSquaredErrorOption"), "gen_se_option"))
    parts.append(tr_option(find_class(re_, "WeightedRelativeEntropyOption"), "gen_re_option"))
    parts.append(tr_dispatch(find_class(se, "WeightedProbabilityBasedSquaredError"), "gen_se_dispatch", "set_weight_matrices", pl))
    if pl.rows is None:
        raise Unsupported("no inverse-covariance branch (placement) found in WeightedProbabilityBasedSquaredError._set_weights_by_mode")
    parts.append("Definition gen_place_special (row col : Z) : bool := %s.\nDefinition gen_place_rows (row col : Z) : Z := %s%%Z.\n"
                 "Definition gen_place_cols (row col : Z) : Z := %s%%Z.\n" % (pl.special, pl.rows, pl.cols))
    parts.append(tr_dispatch(find_class(re_, "WeightedRelativeEntropy"), "gen_re_dispatch", "set_weights", pl_re))
    parts.append(tr_replace(find_def(mu, "replace_prob_dist")))
    pb = parse("quara/loss_function/probability_based_loss_function.py")
    fse = parse("quara/loss_function/standard_qtomography_based_weighted_probability_based_squared_error.py")
    fre = parse("quara/loss_function/standard_qtomography_based_weighted_relative_entropy.py")
    parts.append("Definition gen_sk_config : list ev :=\n  %s.\n"
                 % tr_skeleton(find_class(pb, "ProbabilityBasedLossFunction"), "set_from_standard_qtomography_option_data"))
    parts.append(tr_bodies(find_class(fse, "StandardQTomographyBasedWeightedProbabilityBasedSquaredError"), "gen_se_bodies",
                           "_calc_extend_weight_matrix", "set_weight_matrices"))
    parts.append(tr_bodies(find_class(fre, "StandardQTomographyBasedWeightedRelativeEntropy"), "gen_re_bodies",
                           "_calc_extend_weights", "set_weights"))
    pcls = find_class(pb, "ProbabilityBasedLossFunction")
    parts.append(tr_slicer(pcls, "set_func_prob_dists_from_standard_qt", "_generate_func_prob_dist", "pd", "gen_pd_pieces"))
    parts.append(tr_slicer(pcls, "set_func_gradient_prob_dists_from_standard_qt", "_generate_func_gradient_prob_dist", "grad", "gen_grad_pieces"))
    parts.append(tr_slicer(pcls, "set_func_hessian_prob_dists_from_standard_qt", "_generate_func_hessian_prob_dist", "hess", "gen_hess_sizes"))
    parts.append(tr_helpers(pcls))
    # the fast classes must not override the configuration entry point or the dispatcher
    for cls_ in (find_class(fse, "StandardQTomographyBasedWeightedProbabilityBasedSquaredError"), find_class(fre, "StandardQTomographyBasedWeightedRelativeEntropy")):
        for n in cls_.body:
            if isinstance(n, ast.FunctionDef) and n.name in ("set_from_standard_qtomography_option_data", "_set_weights_by_mode", "set_from_option"):
                raise Unsupported("%s overrides %s" % (cls_.name, n.name))
    open(out, "w").write("\n".join(parts))


if __name__ == "__main__":
    try:
        main(sys.argv[1], sys.argv[2])
    except Unsupported as e:
        print("UNSUPPORTED: %s" % e)
        sys.exit(3)
