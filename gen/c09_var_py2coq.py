#!/usr/bin/env python3
"""Fail-closed translator (property C09, second translator) for the index logic that rebuilds an estimated object from its
variables: Python `ast` -> Gallina over coq/theories/Model/C09_VarSem.v.

usage: c09_var_py2coq.py <repo root> <out.v>

Translated on every run from the CURRENT source:
  quara/objects/mprocess.py   convert_var_to_hss(c_sys, var, on_para_eq_constraint=True)     (called by MProcess.generate_from_var)
  quara/objects/povm.py       convert_var_to_vecs(c_sys, var, on_para_eq_constraint=True)    (called by Povm.generate_from_var)
Results are lists of FLAT blocks (the final reshape of a block into a d^2 x d^2 matrix is layout only).
Accepted subset (anything else -> Unsupported -> the tie is reported broken):
  statements  docstring; NAME = <expr>; NAME[0] = 1; `if <flag parameter>: ... else: ...` (names bound afterwards: assigned in both
              branches, or bound before the if); `for I in range(<nat>): ACC += <vec expr>`; NAME = [];
              `for V in <blocks>: NAME.append(V)` (NAME empty before); return NAME
  nat         names, int constants, + - * // **, X.shape[0], c_sys.dim   (`a - b` is natural subtraction: sound because the only
              subtrahends are the constant 1 on values that are >= 1 by construction; the equivalence theorems are stated for m >= 1)
  vec         names, copy.copy(X), np.zeros(n[, dtype=np.float64]), X[a:b], X - Y, np.insert(X, pos, ROW),
              np.hstack([np.array(np.sqrt(dim)), np.zeros(n)]) (sqrt(dim) is the model parameter sd), np.append(BLOCKS, X)
  blocks      X.reshape(k, n), X.reshape((k, r, c)) (flat blocks of r*c), BLOCKS.sum(axis=0)
"""
import ast
import os
import sys


class Unsupported(Exception):
    pass


def fail(node, msg):
    raise Unsupported("%s (line %s): %s" % (type(node).__name__, getattr(node, "lineno", "?"), msg))


def is_doc(s):
    return isinstance(s, ast.Expr) and isinstance(s.value, ast.Constant) and type(s.value.value) is str


class Fn:
    def __init__(self, fdef):
        a = fdef.args
        if a.vararg or a.kwarg or a.kwonlyargs or a.posonlyargs or len(a.args) != 3 or [ast.unparse(d) for d in a.defaults] != ["True"]:
            fail(fdef, "signature must be (c_sys, var, on_para_eq_constraint=True)")
        self.f = fdef
        self.csys, self.var, self.flag = [x.arg for x in a.args]
        self.env = {self.var: ("vec", None)}        # name -> (type, row length code for blocks)
        self.n = 0

    def v(self, n):
        return "v_" + n

    # ---- expressions: returns (code, type, rowlen)
    def nat(self, e):
        c, t, _ = self.expr(e)
        if t != "nat":
            fail(e, "expected an integer expression, got %s" % t)
        return c

    def vec(self, e):
        c, t, _ = self.expr(e)
        if t != "vec":
            fail(e, "expected a 1-d array, got %s" % t)
        return c

    def is_np(self, f, name):
        return isinstance(f, ast.Attribute) and f.attr == name and isinstance(f.value, ast.Name) and f.value.id == "np"

    def expr(self, e):
        if isinstance(e, ast.Constant) and type(e.value) is int and e.value >= 0:
            return "%d" % e.value, "nat", None
        if isinstance(e, ast.Name):
            if e.id in self.env:
                t, rl = self.env[e.id]
                return self.v(e.id), t, rl
            fail(e, "name %s is not bound here" % e.id)
        if isinstance(e, ast.Attribute) and e.attr == "dim" and isinstance(e.value, ast.Name) and e.value.id == self.csys:
            return "dim", "nat", None
        if isinstance(e, ast.BinOp):
            if isinstance(e.op, ast.Sub):
                l = self.expr(e.left)
                if l[1] == "vec":
                    return "vsub_l (%s) (%s)" % (l[0], self.vec(e.right)), "vec", None
            ops = {ast.Add: "+", ast.Sub: "-", ast.Mult: "*", ast.FloorDiv: "/"}
            if type(e.op) in ops:
                return "(%s %s %s)" % (self.nat(e.left), ops[type(e.op)], self.nat(e.right)), "nat", None
            if isinstance(e.op, ast.Pow) and isinstance(e.right, ast.Constant) and type(e.right.value) is int and e.right.value >= 0:
                return "(Nat.pow %s %d)" % (self.nat(e.left), e.right.value), "nat", None
            fail(e, "operator %s" % type(e.op).__name__)
        if isinstance(e, ast.Subscript):
            # X.shape[0]
            if isinstance(e.value, ast.Attribute) and e.value.attr == "shape" and isinstance(e.slice, ast.Constant) and e.slice.value == 0 and type(e.slice.value) is int:
                return "(length (%s))" % self.vec(e.value.value), "nat", None
            # X[a:b]
            if isinstance(e.slice, ast.Slice) and e.slice.step is None and e.slice.lower is not None and e.slice.upper is not None:
                return "sl (%s) %s %s" % (self.vec(e.value), self.nat(e.slice.lower), self.nat(e.slice.upper)), "vec", None
            fail(e, "subscript %s" % ast.unparse(e))
        if isinstance(e, ast.Call):
            f = e.func
            kws = {k.arg: ast.unparse(k.value) for k in e.keywords}
            if isinstance(f, ast.Attribute) and f.attr == "copy" and isinstance(f.value, ast.Name) and f.value.id == "copy" and len(e.args) == 1 and not kws:
                return self.expr(e.args[0])
            if self.is_np(f, "zeros") and len(e.args) == 1 and kws in ({}, {"dtype": "np.float64"}):
                return "np_zeros %s" % self.nat(e.args[0]), "vec", None
            if self.is_np(f, "insert") and len(e.args) == 3 and not kws:
                return "np_insert (%s) %s (%s)" % (self.vec(e.args[0]), self.nat(e.args[1]), self.vec(e.args[2])), "vec", None
            if self.is_np(f, "hstack") and len(e.args) == 1 and not kws and isinstance(e.args[0], ast.List) and len(e.args[0].elts) == 2:
                a, z = e.args[0].elts
                if ast.unparse(a) == "np.array(np.sqrt(%s))" % self.dim_name() and isinstance(z, ast.Call) and self.is_np(z.func, "zeros"):
                    return "(sd :: %s)" % self.expr(z)[0], "vec", None
                fail(e, "hstack of %s" % ast.unparse(e.args[0])[:60])
            if self.is_np(f, "append") and len(e.args) == 2 and not kws:
                b = self.expr(e.args[0])
                if b[1] != "blocks":
                    fail(e, "np.append of a %s" % b[1])
                return "(concat (%s) ++ %s)" % (b[0], self.vec(e.args[1])), "vec", None
            if isinstance(f, ast.Attribute) and f.attr == "reshape" and not kws:
                x = self.vec(f.value)
                args = e.args
                if len(args) == 1 and isinstance(args[0], ast.Tuple):
                    args = args[0].elts
                if len(args) == 2:
                    k, n = self.nat(args[0]), self.nat(args[1])
                    return "chunk %s %s (%s)" % (n, k, x), "blocks", n
                if len(args) == 3:
                    k, r, c = self.nat(args[0]), self.nat(args[1]), self.nat(args[2])
                    return "chunk (%s * %s) %s (%s)" % (r, c, k, x), "blocks", "(%s * %s)" % (r, c)
                fail(e, "reshape arguments")
            if isinstance(f, ast.Attribute) and f.attr == "sum" and not e.args and kws == {"axis": "0"}:
                b = self.expr(f.value)
                if b[1] != "blocks":
                    fail(e, "sum(axis=0) of a %s" % b[1])
                return "sum_axis0 %s (%s)" % (b[2], b[0]), "vec", None
            fail(e, "call %s" % ast.unparse(e)[:70])
        fail(e, "expression %s" % ast.unparse(e)[:70])

    def dim_name(self):
        for k, (t, _) in self.env.items():
            if t == "nat" and self.dimvars.get(k):
                return k
        return "%s.dim" % self.csys

    # ---- statements
    def assigned(self, stmts):
        out = []
        for s in stmts:
            if isinstance(s, ast.Assign) and len(s.targets) == 1:
                t = s.targets[0]
                out.append(t.id if isinstance(t, ast.Name) else (t.value.id if isinstance(t, ast.Subscript) and isinstance(t.value, ast.Name) else None))
            elif isinstance(s, ast.For):
                out += [n.target.id for n in s.body if isinstance(n, ast.AugAssign) and isinstance(n.target, ast.Name)]
        return [x for x in out if x]

    def block(self, stmts, end):
        if not stmts:
            return end()
        s, rest = stmts[0], stmts[1:]
        if is_doc(s):
            return self.block(rest, end)
        if isinstance(s, ast.Return):
            if rest or not isinstance(s.value, ast.Name) or self.env.get(s.value.id, (None,))[0] != "blocks":
                fail(s, "return must be last and return the list of blocks")
            return self.v(s.value.id)
        if isinstance(s, ast.Assign) and len(s.targets) == 1:
            t = s.targets[0]
            if isinstance(t, ast.Name):
                if t.id in (self.csys, self.flag):
                    fail(s, "assignment to a parameter")
                if isinstance(s.value, ast.List) and not s.value.elts:
                    self.env[t.id] = ("emptylist", None)
                    return self.block(rest, end)
                code, ty, rl = self.expr(s.value)
                if ast.unparse(s.value) == "%s.dim" % self.csys:
                    self.dimvars[t.id] = True
                self.env[t.id] = (ty, rl)
                return "let %s := %s in\n  %s" % (self.v(t.id), code, self.block(rest, end))
            if isinstance(t, ast.Subscript) and isinstance(t.value, ast.Name) and self.env.get(t.value.id, (None,))[0] == "vec" \
                    and isinstance(t.slice, ast.Constant) and t.slice.value == 0 and type(t.slice.value) is int \
                    and isinstance(s.value, ast.Constant) and s.value.value == 1 and type(s.value.value) is int:
                n = self.v(t.value.id)
                return "let %s := set_item %s 0 (c1 F) in\n  %s" % (n, n, self.block(rest, end))
            fail(s, "assignment target %s" % ast.unparse(t))
        if isinstance(s, ast.If) and isinstance(s.test, ast.Name) and s.test.id == self.flag and s.orelse:
            before = dict(self.env)
            a1, a2 = self.assigned(s.body), self.assigned(s.orelse)
            live = [n for n in dict.fromkeys(a1 + a2) if (n in a1 and n in a2) or n in before]
            if not live:
                fail(s, "if without effect")
            tup = lambda: "(%s)" % ", ".join(self.v(n) for n in live)
            self.env = dict(before); c1 = self.block(list(s.body), tup); e1 = dict(self.env)
            self.env = dict(before); c2 = self.block(list(s.orelse), tup); e2 = dict(self.env)
            self.env = dict(before)
            for n in live:
                if e1[n] != e2[n] and e1[n][0] != e2[n][0]:
                    fail(s, "%s has different types in the two branches" % n)
                self.env[n] = (e1[n][0], e1[n][1] if e1[n] == e2[n] else None)
            pat = "'(%s)" % ", ".join(self.v(n) for n in live) if len(live) > 1 else self.v(live[0])
            return "let %s := if %s then\n  %s\n  else\n  %s in\n  %s" % (pat, self.v(self.flag), c1, c2, self.block(rest, end))
        if isinstance(s, ast.For) and not s.orelse and isinstance(s.target, ast.Name) and len(s.body) == 1:
            b = s.body[0]
            it = s.iter
            # for I in range(N): ACC += <vec>
            if isinstance(it, ast.Call) and isinstance(it.func, ast.Name) and it.func.id == "range" and len(it.args) == 1 and not it.keywords \
                    and isinstance(b, ast.AugAssign) and isinstance(b.op, ast.Add) and isinstance(b.target, ast.Name) and self.env.get(b.target.id, (None,))[0] == "vec":
                n = self.nat(it.args[0])
                acc = b.target.id
                if s.target.id in self.env:
                    fail(s, "loop index shadows %s" % s.target.id)
                self.env[s.target.id] = ("nat", None)
                body = self.vec(b.value)
                del self.env[s.target.id]
                return "let %s := fold_left (fun %s %s => vadd_l %s (%s)) (seq 0 %s) %s in\n  %s" % (
                    self.v(acc), self.v(acc), self.v(s.target.id), self.v(acc), body, n, self.v(acc), self.block(rest, end))
            # for V in BLOCKS: L.append(V)    with L == []
            if isinstance(it, ast.Name) and self.env.get(it.id, (None,))[0] == "blocks" and isinstance(b, ast.Expr) and isinstance(b.value, ast.Call) \
                    and isinstance(b.value.func, ast.Attribute) and b.value.func.attr == "append" and isinstance(b.value.func.value, ast.Name) \
                    and self.env.get(b.value.func.value.id, (None,))[0] == "emptylist" and len(b.value.args) == 1 and not b.value.keywords \
                    and isinstance(b.value.args[0], ast.Name) and b.value.args[0].id == s.target.id:
                lst = b.value.func.value.id
                self.env[lst] = ("blocks", self.env[it.id][1])
                return "let %s := %s in\n  %s" % (self.v(lst), self.v(it.id), self.block(rest, end))
            fail(s, "loop %s" % ast.unparse(s)[:70])
        fail(s, "statement %s" % ast.unparse(s)[:70])

    def body(self):
        self.dimvars = {}

        def end():
            raise Unsupported("%s: control reaches the end without return" % self.f.name)
        return self.block(list(self.f.body), end)


def find(tree, name):
    for f in tree.body:
        if isinstance(f, ast.FunctionDef) and f.name == name:
            return f
    raise Unsupported("function %s not found" % name)


def main(repo, out):
    defs = []
    for path, name in (("quara/objects/mprocess.py", "convert_var_to_hss"), ("quara/objects/povm.py", "convert_var_to_vecs")):
        fn = Fn(find(ast.parse(open(os.path.join(repo, path)).read()), name))
        code = fn.body()
        defs.append("Definition gen_%s (v_%s : list F) (v_%s : bool) : list (list F) :=\n  %s." % (name, fn.var, fn.flag, code))
    text = "(* GENERATED by gen/c09_var_py2coq.py from quara/objects/mprocess.py, quara/objects/povm.py - do not edit *)\n"
    text += "From Coq Require Import Arith List Bool ZArith.\nFrom QV.Core Require Import OF.\nFrom QV.Model Require Import C09_VarSem.\nImport ListNotations.\n\n"
    text += "Section Gen.\nContext (F : OF).\n(* c_sys.dim and the model parameter standing for sqrt(dim) *)\nContext (dim : nat) (sd : F).\n\n" + "\n\n".join(defs) + "\nEnd Gen.\n"
    text += "Arguments gen_convert_var_to_hss {F} dim. Arguments gen_convert_var_to_vecs {F} dim sd.\n"
    open(out, "w").write(text)


if __name__ == "__main__":
    try:
        main(sys.argv[1], sys.argv[2])
    except Unsupported as e:
        print("UNSUPPORTED: %s" % e)
        sys.exit(3)
